"""Calibration: run the unmodified upstream tests/test_codegen.py on the SVM via
the spasm shim and print what the monitors saw (DESIGN.md section 2.4).

usage: /venv/bin/python selftest/run_upstream.py [pytest args]
"""
import os
import sys

HERE = os.path.dirname(os.path.realpath(__file__))
VERIF = os.path.dirname(HERE)
REPO = os.environ.get('HID_REPO', '/repo')
sys.path[:0] = [os.path.join(HERE, 'spasm_shim'), VERIF, REPO]
import pytest  # noqa: E402


class Plug:
    def pytest_sessionfinish(self, session, exitstatus):
        from spasm.emulator import REPORTS, COUNTS
        print('\nSVM monitor reports:', dict(REPORTS))
        print('SVM monitor counts:', dict(COUNTS))


if __name__ == '__main__':
    sys.exit(pytest.main(['-q', '-p', 'no:cacheprovider', '-c', os.devnull, '--rootdir', HERE,
                          os.path.join(REPO, 'tests', 'test_codegen.py'), *sys.argv[1:]], plugins=[Plug()]))
