#!/bin/bash
# usage: selftest/eval_seeded.sh <seed worktree> <mN> <check id>...
# Validates a sub-agent's seeded change in its own scratch worktree: demo passes clean, fails with the change,
# the 45 pinned tests stay green, then runs the given checks against the changed tree.  Leaves the worktree clean.
set -u
wt=$1; m=$2; shift 2
out=$(mktemp -d /tmp/hidseed-out-XXXXXX)
trap 'git -C "$wt" checkout -- hidc >/dev/null 2>&1; rm -rf "$out"' EXIT
git -C "$wt" checkout -- hidc
d0=$(cd "$wt" && timeout 300 /venv/bin/python SEEDED/${m}_demo.py >/dev/null 2>&1; echo $?)
if ! git -C "$wt" apply "$wt/SEEDED/$m.diff" 2>/dev/null; then echo "$(basename $wt)/$m: PATCH DOES NOT APPLY"; exit 3; fi
tests=$(cd "$wt" && /venv/bin/python -m pytest -q -p no:cacheprovider --timeout=900 --continue-on-collection-errors 2>&1 | tail -1)
case "$tests" in *"45 passed"*) t=green;; *) t="NOT-GREEN";; esac
d1=$(cd "$wt" && timeout 300 /venv/bin/python SEEDED/${m}_demo.py >/dev/null 2>&1; echo $?)
res=""
for c in "$@"; do
  o=$(cd /verif && HID_REPO="$wt" HIDVERIF_OUT="$out" VERIF_SEED=${VERIF_SEED:-0} /venv/bin/python -m hidverif run "$c" --tier ${TIER:-quick} 2>&1); rc=$?
  first=$(echo "$o" | grep '^  \[' | head -1 | cut -c1-170)
  res="$res $c:rc=$rc"
  [ -n "${VERBOSE:-}" ] && echo "    $c: $first"
done
echo "$(basename $wt)/$m: tests=$t demo_clean=$d0 demo_changed=$d1$res"
