from hidverif.svm.asm import assemble


class Parser:
    def __init__(self, args=()):
        self.args = list(args)
        self.lines = []

    def parse_lines(self, lines):
        self.lines.extend(lines)

    def get_program(self):
        return assemble(self.lines, self.args)
