import collections
from hidverif.svm.vm import VM
from hidverif.monitors.san import SanMonitor
from hidverif.monitors.bal import BalMonitor, FallMonitor

REPORTS = collections.Counter()
COUNTS = collections.Counter()


class Emulator:
    def __init__(self, prog, ctx):
        self.prog = prog
        self.ctx = ctx
        mons = [SanMonitor(), BalMonitor(), FallMonitor()] if 'stack_start' in prog.labels else []
        self.vm = VM(prog, max_steps=30_000_000, monitors=mons)
        self.vm.run()
        if self.vm.status == 'trap':
            raise RuntimeError('vm trap: ' + self.vm.trap)
        for e in self.vm.events:
            if e[0] == 'mon':
                REPORTS[(e[1], e[2])] += 1
        for m in mons:
            COUNTS.update(getattr(m, 'counts', {}))
            COUNTS.update(getattr(m, 'stats', {}))
        self.ev = [e for e in self.vm.events if e[0] != 'mon']
        self.i = 0

    def step(self):
        ev = self.ev
        if self.i < len(ev):
            e = ev[self.i]
            self.i += 1
            if e[0] == 'out':
                self.ctx.output(bytes([e[1]]))
            elif e[0] == 'flag':
                self.ctx.on_flag(self.prog, e[1])
            else:
                self.ctx.sleep(e[1])
            return True
        if self.vm.status == 'halt':
            return False
        if self.vm.status == 'timeout':
            raise RuntimeError('vm timeout')
        return True
