"""Shim exposing the three spasm classes tests/test_codegen.py uses, backed by
the verification VM.  Calibration only (DESIGN.md section 2.4)."""
