#!/bin/bash
# usage: selftest/run_mutant.sh <patch file> <check id>...
# Applies the patch to a scratch worktree of /repo (outside /repo and /verif), confirms that the pinned
# test suite is still green there, runs the given checks (quick tier) against it and reports which fire.
# Nothing is written to /verif/evidence or /verif/replays.  The worktree is removed afterwards.
set -u
patch=$(realpath "$1"); shift
name=$(basename "$patch" .patch)
wt=$(mktemp -d /tmp/hidmut-XXXXXX)
out=$(mktemp -d /tmp/hidmut-out-XXXXXX)
trap 'git -C /repo worktree remove --force "$wt" >/dev/null 2>&1; rm -rf "$wt" "$out"' EXIT
git -C /repo worktree add --detach "$wt" HEAD >/dev/null 2>&1 || { echo "$name: cannot create worktree"; exit 3; }
if ! git -C "$wt" apply "$patch" 2>/dev/null; then
  if ! (cd "$wt" && patch -p1 -s < "$patch"); then echo "$name: PATCH DOES NOT APPLY"; exit 3; fi
fi
tests=$(cd "$wt" && /venv/bin/python -m pytest -q -p no:cacheprovider --timeout=900 --continue-on-collection-errors 2>&1 | tail -1)
case "$tests" in *"45 passed"*) t=green;; *) t="NOT-GREEN($tests)";; esac
res=""
for c in "$@"; do
  o=$(cd /verif && HID_REPO="$wt" HIDVERIF_OUT="$out" VERIF_SEED=${VERIF_SEED:-0} /venv/bin/python -m hidverif run "$c" --tier ${TIER:-quick} 2>&1); rc=$?
  first=$(echo "$o" | grep '^  \[' | head -1 | cut -c1-150)
  res="$res $c:rc=$rc"
  [ -n "${VERBOSE:-}" ] && echo "    $c: $first"
done
echo "$name: tests=$t$res"
