#!/bin/bash
# usage: selftest/eval_seeded_dir.sh seeded/<id>-<mN> <check id>...
# Re-validates a kept seeded change from /verif/seeded in a fresh scratch worktree of /repo (outside /repo and
# /verif): demo passes clean, fails with the change, 45 pinned tests stay green; then runs the checks against it.
set -u
dir=$(realpath "$1"); shift
name=$(basename "$dir"); m=${name#*-}
wt=$(mktemp -d /tmp/hidseed-XXXXXX)
out=$(mktemp -d /tmp/hidseed-out-XXXXXX)
trap 'git -C /repo worktree remove --force "$wt" >/dev/null 2>&1; rm -rf "$wt" "$out"' EXIT
git -C /repo worktree add --detach "$wt" HEAD >/dev/null 2>&1 || { echo "$name: cannot create worktree"; exit 3; }
mkdir -p "$wt/SEEDED/tmp"; cp "$dir"/* "$wt/SEEDED/"; cp "$dir/demo.py" "$wt/SEEDED/${m}_demo.py"
# prefer the demonstration under the name its author gave it (some locate their program file relative to that name)
orig=$(cd "$dir" && ls m[0-9]_demo.py 2>/dev/null | head -1); [ -n "$orig" ] && m=${orig%_demo.py}
d0=$(cd "$wt" && timeout 300 /venv/bin/python SEEDED/${m}_demo.py >/dev/null 2>&1; echo $?)
git -C "$wt" apply "$dir/patch.diff" 2>/dev/null || { echo "$name: PATCH DOES NOT APPLY"; exit 3; }
tests=$(cd "$wt" && /venv/bin/python -m pytest -q -p no:cacheprovider --timeout=900 --continue-on-collection-errors 2>&1 | tail -1)
case "$tests" in *"45 passed"*) t=green;; *) t="NOT-GREEN";; esac
d1=$(cd "$wt" && timeout 300 /venv/bin/python SEEDED/${m}_demo.py >/dev/null 2>&1; echo $?)
res=""
for c in "$@"; do
  o=$(cd /verif && HID_REPO="$wt" HIDVERIF_OUT="$out" VERIF_SEED=${VERIF_SEED:-0} /venv/bin/python -m hidverif run "$c" --tier ${TIER:-quick} 2>&1); rc=$?
  res="$res $c:rc=$rc"
  [ -n "${VERBOSE:-}" ] && echo "    $c: $(echo "$o" | grep '^  \[' | head -1 | cut -c1-170)"
done
echo "$name: tests=$t demo_clean=$d0 demo_changed=$d1$res"
