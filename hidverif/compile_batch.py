"""Helper process for C18: compile a batch of sources in a fresh interpreter
(whatever PYTHONHASHSEED the parent chose) and print one digest per job.

stdin: JSON list of {source, word, stack, unchecked, lint}
stdout: JSON list of hex digests (or 'ERR:<type>:<msg>')"""
import hashlib
import json
import sys


def main():
    from hidverif import env
    env.load()
    jobs = json.load(sys.stdin)
    out = []
    for j in jobs:
        try:
            lines = env.compile_src(j['source'], word=j['word'], stack=j['stack'], unchecked=j['unchecked'],
                                    lint=j.get('lint', False))
            out.append(hashlib.sha256(b'\n'.join(lines)).hexdigest())
        except Exception as e:  # noqa
            out.append(f'ERR:{type(e).__name__}:{e}')
    json.dump(out, sys.stdout)


if __name__ == '__main__':
    main()
