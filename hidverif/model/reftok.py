"""Reference tokenizer for C12: a hand-written scanner built from the property
statement, the README's literal forms and operator list and the escape set the
upstream lexer tests spell out.  Shares no regex or table with hidc.lexer.

Tokens: (kind, value, (line, col), (line, col_end)) with kinds
  'int' (value int) 'char' (int) 'str' (bytes) 'ident' (text incl. @/! prefix)
  'sym' (operator / punctuation / keyword text)
ASCII identifiers and ASCII inter-token whitespace only.
"""

SYMBOLS = ['??', '==', '!=', '<=', '>=', '+=', '-=', '*=', '/=', '%=',
           '+', '-', '*', '/', '%', '<', '>', '=', ';', ',', '.', '(', ')', '{', '}', '[', ']']
KEYWORDS = {'or', 'and', 'not', 'is', 'break', 'continue', 'return', 'const', 'if', 'else', 'while', 'for',
            'try', 'undo', 'stop', 'preempt', 'int', 'bool', 'byte', 'string', 'empty', 'true', 'false'}
NAMED = {'a': 7, 'b': 8, 'f': 12, 'n': 10, 'r': 13, 't': 9, '0': 0, "'": 39, '"': 34, '\\': 92}
HEX = '0123456789abcdefABCDEF'
IDSTART = 'abcdefghijklmnopqrstuvwxyzABCDEFGHIJKLMNOPQRSTUVWXYZ_'
IDCONT = IDSTART + '0123456789'
WS = ' \t\r\x0b\x0c'


class RefLexError(Exception):
    pass


def _digits(line, i, alphabet):
    """longest run d(_?d)* starting at i; returns end index (i if none)"""
    j = i
    if j >= len(line) or line[j] not in alphabet:
        return i
    j += 1
    while True:
        if j < len(line) and line[j] in alphabet:
            j += 1
        elif j + 1 < len(line) and line[j] == '_' and line[j + 1] in alphabet:
            j += 2
        else:
            return j


def _escape(line, i, where):
    """line[i] == '\\'.  returns (bytes, next index)"""
    if i + 1 >= len(line):
        raise RefLexError(f'{where}: dangling backslash')
    c = line[i + 1]
    if c == 'x':
        h = line[i + 2:i + 4]
        if len(h) != 2 or any(ch not in HEX for ch in h):
            raise RefLexError(f'{where}: bad \\x escape')
        return bytes([int(h, 16)]), i + 4
    if c == 'u':
        if line[i + 2:i + 3] != '{':
            raise RefLexError(f'{where}: bad \\u escape')
        j = i + 3
        while j < len(line) and line[j] in HEX:
            j += 1
        if j == i + 3 or line[j:j + 1] != '}':
            raise RefLexError(f'{where}: bad \\u escape')
        cp = int(line[i + 3:j], 16)
        if cp > 0x10FFFF or 0xD800 <= cp <= 0xDFFF:
            raise RefLexError(f'{where}: code point not encodable')
        return chr(cp).encode('utf-8'), j + 1
    if c in NAMED:
        return bytes([NAMED[c]]), i + 2
    raise RefLexError(f'{where}: unknown escape \\{c}')


def ref_lex(text):
    toks = []
    lines = text.split('\n')
    for ln, line in enumerate(lines):
        i = 0
        n = len(line)
        while i < n:
            c = line[i]
            where = f'{ln + 1}:{i + 1}'
            if c in WS:
                i += 1
                continue
            if line.startswith('//', i):
                break
            start = i
            # symbols, longest first
            sym = None
            for s in SYMBOLS:
                if line.startswith(s, i) and (sym is None or len(s) > len(sym)):
                    sym = s
            if sym is not None:
                i += len(sym)
                toks.append(('sym', sym, (ln, start), (ln, i)))
                continue
            if c in '@!':
                j = i + 1
                if j < n and line[j] in IDSTART:
                    k = j
                    while k < n and line[k] in IDCONT:
                        k += 1
                    name = line[j:k]
                    if name in KEYWORDS:
                        raise RefLexError(f'{where}: flavoured keyword')
                    toks.append(('ident', c + name, (ln, start), (ln, k)))
                    i = k
                    continue
                raise RefLexError(f'{where}: flavour prefix without identifier')
            if c in IDSTART:
                k = i
                while k < n and line[k] in IDCONT:
                    k += 1
                name = line[i:k]
                toks.append(('sym' if name in KEYWORDS else 'ident', name, (ln, start), (ln, k)))
                i = k
                continue
            if c in '0123456789':
                val = None
                if c == '0' and i + 1 < n and line[i + 1] in 'xob':
                    alphabet, base = {'x': (HEX, 16), 'o': ('01234567', 8), 'b': ('01', 2)}[line[i + 1]]
                    j = _digits(line, i + 2, alphabet)
                    if j > i + 2:
                        val = int(line[i + 2:j].replace('_', ''), base)
                        i = j
                if val is None:
                    j = _digits(line, i, '0123456789')
                    val = int(line[i:j].replace('_', ''), 10)
                    i = j
                toks.append(('int', val, (ln, start), (ln, i)))
                continue
            if c == '"':
                data = bytearray()
                i += 1
                while True:
                    if i >= n:
                        raise RefLexError(f'{where}: unclosed string')
                    ch = line[i]
                    if ch == '"':
                        i += 1
                        break
                    if ch == '\\':
                        b, i = _escape(line, i, where)
                        data += b
                    else:
                        try:
                            data += ch.encode('utf-8')
                        except UnicodeEncodeError:
                            raise RefLexError(f'{where}: unencodable character')
                        i += 1
                toks.append(('str', bytes(data), (ln, start), (ln, i)))
                continue
            if c == "'":
                i += 1
                if i >= n:
                    raise RefLexError(f'{where}: unclosed char')
                if line[i] == "'":
                    raise RefLexError(f'{where}: empty char literal')
                if line[i] == '\\':
                    b, i = _escape(line, i, where)
                else:
                    try:
                        b = line[i].encode('utf-8')
                    except UnicodeEncodeError:
                        raise RefLexError(f'{where}: unencodable character')
                    i += 1
                if i >= n or line[i] != "'":
                    raise RefLexError(f'{where}: unclosed char')
                i += 1
                if len(b) != 1:
                    raise RefLexError(f'{where}: multi-byte char literal')
                toks.append(('char', b[0], (ln, start), (ln, i)))
                continue
            raise RefLexError(f'{where}: unexpected character {c!r}')
    return toks


def hidc_lex(text):
    """the real lexer, normalised to the same token tuples"""
    from hidc.lexer import lex, SourceCode, tokens as T
    out = []
    for lx in lex(SourceCode.from_string(text)):
        t = lx.token
        if isinstance(t, T.IntToken):
            k, v = 'int', t.data
        elif isinstance(t, T.CharToken):
            k, v = 'char', t.data
        elif isinstance(t, T.StringToken):
            k, v = 'str', t.data
        elif isinstance(t, T.Ident):
            k, v = 'ident', t.name
        else:
            k, v = 'sym', str(t)
        out.append((k, v, (lx.span.start.line, lx.span.start.col), (lx.span.end.line, lx.span.end.col)))
    return out
