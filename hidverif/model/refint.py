"""RefInt: source-level reference interpreter for GenAST (DESIGN.md section 3.2).

Word-size signed wrap-around, byte truncation / zero-extension, strict 0/1
bools, left-to-right evaluation with value capture, short-circuit and/or,
lexical scoping with global shadowing, by-value scalars, by-reference arrays,
canonical write formats; events out/flag/sleep.  Time travel is resolved by
*replay DFS*: run from the start with a choice prefix; on a source-level halt
flip the last default choice, truncate, rerun.
"""
from .ast import *  # noqa: F401,F403
from . import ast as A


class Fault(Exception):
    def __init__(self, kind):
        self.kind = kind


class Terminal(Exception):
    """all_is_win()/all_is_broken() or falling off @is_you: flag + terminal state."""
    def __init__(self, flag):
        self.flag = flag


class _Ret(Exception):
    def __init__(self, v, t=None):
        self.v = v
        self.t = t


class _Brk(Exception):
    pass


class _Cnt(Exception):
    pass


class Halt(Exception):
    """source-level halt: defeat in real mode, or ?? equality"""


class _Defeated(Exception):
    """defeat in virtual mode: transfer to the stop handler"""


class Skip(Exception):
    """the model cannot judge this run (budget, unspecified read, ambiguous stack need)"""
    def __init__(self, why):
        self.why = why


class FellOff(Skip):
    """control reached the end of the body of a value-returning function"""
    def __init__(self, fname):
        super().__init__('control reached the end of value-returning function ' + fname)
        self.fname = fname


class Diverge(Exception):
    pass


class ArrObj:
    __slots__ = ('el', 'data', 'where')

    def __init__(self, el, data, where='stack'):
        self.el, self.data, self.where = el, data, where


class RefOutcome:
    def __init__(self, stream, klass, stats):
        self.stream, self.klass, self.stats = stream, klass, stats
        self.out = b''.join(e[1] for e in stream if e[0] == 'out')
        self.flags = [e[1] for e in stream if e[0] == 'flag']

    def brief(self):
        return {'klass': self.klass, 'out': self.out[:200].decode('latin-1'), 'flags': self.flags, **self.stats}


class RefInt:
    def __init__(self, prog, word=2, args=(), checked=True, max_steps=200_000, max_replays=3000,
                 stack_bytes=8000, safe_array_bytes=1500, max_depth=60, bool_vla_guard=True):
        self.prog = prog
        self.word = word
        self.bits = 8 * word
        self.mod = 1 << self.bits
        self.smax = (1 << (self.bits - 1)) - 1
        self.args = list(args)
        self.checked = checked
        self.max_steps = max_steps
        self.max_replays = max_replays
        self.stack_bytes = stack_bytes
        self.safe_array_bytes = safe_array_bytes
        self.max_depth = max_depth
        self.bool_vla_guard = bool_vla_guard
        self.funcs = {}
        for f in prog.funcs:
            self.funcs.setdefault(f.name, []).append(f)

    # ------------------------------------------------------------ helpers
    def wrap(self, v):
        v &= self.mod - 1
        return v - self.mod if v >> (self.bits - 1) else v

    def conv(self, v, src, dst):
        """value conversion for the implicit coercions / explicit casts"""
        if A.is_arr(dst):
            if src == STRING:
                return ArrObj(BYTE, list(v), 'const')
            return v
        if src == dst:
            return v
        if dst == INT:
            return int(v)
        if dst == BYTE:
            return int(v) & 0xFF
        if dst == BOOL:
            return self.truthy(v)
        return v

    @staticmethod
    def truthy(v):
        if isinstance(v, ArrObj):
            return len(v.data) != 0
        if isinstance(v, (bytes, bytearray)):
            return len(v) != 0
        return v != 0

    def emit_out(self, b):
        ev = self.events
        if ev and ev[-1][0] == 'out':
            ev[-1] = ('out', ev[-1][1] + b)
        elif b:
            ev.append(('out', b))
        self.since_out = 0

    def tick(self):
        self.steps += 1
        if self.steps > self.max_steps:
            raise Skip('step budget')

    def choice(self):
        if self.pos < len(self.prefix):
            v = self.prefix[self.pos]
        else:
            v = 0
            self.prefix.append(0)
        self.pos += 1
        return v

    def defeat(self):
        self.n_defeats += 1
        if self.mode == 'virtual':
            raise _Defeated()
        if self.mode == 'real':
            raise Halt()
        raise Skip('defeat outside any try (ill-formed program)')

    # ------------------------------------------------------------ running
    def run(self):
        """Resolve choices by replay DFS.  Returns RefOutcome."""
        prefix = []
        replays = 0
        while True:
            replays += 1
            if replays > self.max_replays:
                raise Skip('replay budget')
            klass = self._run_once(prefix)
            if klass != 'HALT':
                return RefOutcome(self.events, klass, {
                    'replays': replays, 'choices': self.pos, 'taken': sum(self.prefix[:self.pos]),
                    'defeats': self.n_defeats, 'ref_steps': self.steps, 'tries': self.n_tries,
                    'forced_preempts': self.n_forced, 'spec_skipped': self.n_spec_skipped,
                    'max_depth': self.max_seen_depth})
            full = self.prefix[:self.pos]
            i = len(full) - 1
            while i >= 0 and full[i] == 1:
                i -= 1
            if i < 0:
                return RefOutcome(self.events, 'HALT', {'replays': replays})
            prefix = full[:i] + [1]

    def _run_once(self, prefix):
        self.prefix = list(prefix)
        self.pos = 0
        self.mode = 'none'
        self.events = []
        self.steps = 0
        self.depth = 0
        self.max_seen_depth = 0
        self.n_defeats = self.n_tries = self.n_forced = self.n_spec_skipped = 0
        self.globals = {}
        self.scopes = None
        try:
            for g in self.prog.globals:
                self.scopes = [self.globals]
                self.exec_decl(g, glob=True)
            main = self.funcs['@is_you'][0]
            self.call(main, self.bind_args(main))
            self.events.append(('flag', 'win'))
            return 'WIN'
        except Terminal as t:
            self.events.append(('flag', t.flag))
            return 'WIN' if t.flag == 'win' else 'ERROR'
        except Fault as f:
            self.events.append(('flag', f.kind))
            self.events.append(('flag', 'error'))
            return 'ERROR:' + f.kind
        except Diverge:
            return 'DIVERGE'
        except Halt:
            return 'HALT'
        except RecursionError:
            raise Skip('model recursion')

    def bind_args(self, main):
        args = list(self.args)
        vals = []
        nfixed = sum(1 for _, t, _ in main.params if not A.is_arr(t))
        nvar = len(args) - nfixed
        k = 0
        for _, t, _ in main.params:
            if A.is_arr(t):
                chunk = args[k:k + nvar]
                k += nvar
                if t.el == INT:
                    data = [self.wrap(int(a)) for a in chunk]
                elif t.el == BYTE:
                    data = [int(a) & 0xFF for a in chunk]
                else:
                    data = [a.encode('utf-8') for a in chunk]
                vals.append(ArrObj(t.el, data, 'arg'))
            else:
                a = args[k]
                k += 1
                vals.append(self.wrap(int(a)) if t == INT else int(a) & 0xFF if t == BYTE else a.encode('utf-8'))
        return vals

    # -------------------------------------------------------------- scope
    def lookup(self, name):
        for s in reversed(self.scopes):
            if name in s:
                return s
        if name in self.globals:
            return self.globals
        raise Skip(f'model: unbound variable {name}')

    # -------------------------------------------------------------- calls
    def call(self, f, args):
        self.depth += 1
        if self.depth > self.max_seen_depth:
            self.max_seen_depth = self.depth
        if self.depth > self.max_depth:
            raise Skip('call depth')
        saved = self.scopes
        self.scopes = [{}]
        for (n, t, c), v in zip(f.params, args):
            self.scopes[-1][n] = v
        r = None
        try:
            try:
                self.exec_block(f.body)
            except _Ret as x:
                r = x.v if x.t is None else self.conv(x.v, x.t, f.ret)
            else:
                if f.ret != EMPTY:
                    raise FellOff(f.name)
        finally:
            self.scopes = saved
            self.depth -= 1
        if f.flavor == '!' and self.checked and f.preemptive:
            # protected return boundary of a preemptive defeat function
            if self.choice() == 1:
                raise Fault('nonlocal_preempt')
        return r

    def builtin(self, name, e, vals):
        if name in ('write', 'writeln'):
            if e.args:
                t = e.args[0].t
                v = vals[0]
                if t == INT:
                    self.emit_out(str(int(v)).encode())
                elif t == BOOL:
                    self.emit_out(b'true' if v else b'false')
                elif t == BYTE:
                    self.emit_out(bytes([int(v) & 0xFF]))
                elif t == STRING:
                    self.emit_out(bytes(v))
                else:
                    if any(x is None for x in v.data):
                        raise Skip('unspecified read (write of array)')
                    self.emit_out(bytes(v.data))
            if name == 'writeln':
                self.emit_out(b'\n')
            return None
        if name == '!is_defeat':
            self.defeat()
            return None
        if name == '!truth_is_defeat':
            if vals[0]:
                self.defeat()
            return None
        if name == 'all_is_win':
            raise Terminal('win')
        if name == 'all_is_broken':
            raise Terminal('error')
        if name == 'sleep':
            self.events.append(('sleep', int(vals[0]) & (self.mod - 1)))
            return None
        if name in ('debug', 'progress'):
            self.events.append(('flag', name))
            return None
        raise Skip('model: unknown builtin ' + name)

    # -------------------------------------------------------- expressions
    def ev(self, e):
        self.tick()
        k = type(e)
        if k is Lit:
            if e.t == INT:
                return self.wrap(e.v)
            return e.v
        if k is Var:
            v = self.lookup(e.name)[e.name]
            if v is None:
                raise Skip('unspecified read (scalar)')
            return v
        if k is Bin:
            op = e.op
            if op == 'and':
                return self.truthy(self.ev(e.a)) and self.truthy(self.ev(e.b))
            if op == 'or':
                return self.truthy(self.ev(e.a)) or self.truthy(self.ev(e.b))
            a = self.ev(e.a)
            b = self.ev(e.b)
            if op == '==':
                return a == b
            if op == '!=':
                return a != b
            a, b = int(a), int(b)
            if op == '+': return self.wrap(a + b)
            if op == '-': return self.wrap(a - b)
            if op == '*': return self.wrap(a * b)
            if op == '/' or op == '%':
                if b == 0:
                    if self.checked:
                        raise Fault('division_by_zero')
                    raise Skip('undefined behaviour: unchecked division by zero')
                return self.wrap(a // b if op == '/' else a % b)
            if op == '<': return a < b
            if op == '<=': return a <= b
            if op == '>': return a > b
            if op == '>=': return a >= b
            raise Skip('model: operator ' + op)
        if k is Un:
            a = self.ev(e.a)
            if e.op == '-': return self.wrap(-int(a))
            if e.op == '+': return int(a)
            return not self.truthy(a)
        if k is Cast:
            return self.conv(self.ev(e.e), e.e.t, e.t)
        if k is Index:
            src = self.ev(e.src)
            i = self.ev(e.idx)
            return self.load_elem(src, i)
        if k is Len:
            src = self.ev(e.src)
            return len(src.data) if isinstance(src, ArrObj) else len(src)
        if k is Call:
            vals = [self.ev(a) for a in e.args]
            f = e.func
            if isinstance(f, str):
                # a user function named by a string (recursive references inside hand-built programs): unique by name + arity
                cands = [g for g in self.prog.funcs if g.name == f and len(g.params) == len(e.args)]
                if len(cands) != 1:
                    return self.builtin(f, e, vals)
                f = cands[0]
            vals = [self.conv(v, a.t, p[1]) for v, a, p in zip(vals, e.args, f.params)]
            r = self.call(f, vals)
            return r
        if k is ArrLit:
            return ArrObj(e.t.el, [self.conv(self.ev(x), x.t, e.t.el) for x in e.elems], 'literal')
        if k is Spec:
            b = self.conv(self.ev(e.b), e.b.t, e.t)
            if self.choice() == 0:
                a = self.ev(e.a)
                if a == b:
                    raise Halt()
                return a
            self.n_spec_skipped += 1
            return b
        raise Skip(f'model: expression {k.__name__}')

    def check_index(self, n, i):
        if not (0 <= i < n):
            if self.checked:
                raise Fault('out_of_bounds')
            raise Skip('undefined behaviour: unchecked index out of bounds')

    def load_elem(self, src, i):
        if isinstance(src, ArrObj):
            self.check_index(len(src.data), i)
            v = src.data[i]
            if v is None:
                raise Skip('unspecified read (element)')
            return v
        self.check_index(len(src), i)
        return src[i]

    # --------------------------------------------------------- statements
    def exec_block(self, stmts):
        self.scopes.append({})
        try:
            for s in stmts:
                self.exec(s)
        finally:
            self.scopes.pop()

    def exec_decl(self, s, glob=False):
        if type(s) is VLA:
            n = self.ev(s.length)
            self.scopes[-1][s.name] = self.alloc(s.el, n, glob)
        else:
            v = self.ev(s.init)
            if A.is_arr(s.t):
                if isinstance(s.init, ArrLit) and s.init.t.el != s.t.el:
                    v = ArrObj(s.t.el, [self.conv(x, s.init.t.el, s.t.el) for x in v.data], v.where)
                self.scopes[-1][s.name] = v
            else:
                self.scopes[-1][s.name] = self.conv(v, s.init.t, s.t)

    def alloc(self, el, n, glob=False):
        w = self.word
        if glob:
            # global arrays are zero-filled data (not "dynamically allocated")
            n &= self.mod - 1
            if n > 100000:
                raise Skip('huge global array')
            zero = {INT: 0, BYTE: 0, BOOL: False, STRING: None}[el]
            return ArrObj(el, [zero] * n, 'global')
        elsize = w if el in (INT, STRING) else 1
        if el in (INT, STRING):
            if n < 0 or n > self.smax // w:
                if self.checked:
                    raise Fault('stack_overflow')
                raise Skip('undefined behaviour: unchecked bad array length')
            size = n * w
        elif el == BYTE:
            size = n
        else:
            # a negative length is a fault for every element type
            size = (n + 7) >> 3 if n >= 0 else -1
        if size < 0 or size > self.stack_bytes:
            if self.checked:
                raise Fault('stack_overflow')
            raise Skip('undefined behaviour: unchecked stack overflow')
        if size > self.safe_array_bytes:
            raise Skip('array size in the zone where the stack may or may not hold it')
        return ArrObj(el, [None] * n, 'stack')

    def store(self, target, fn):
        """target: Var or Index.  fn(old_value_thunk) -> new value (already converted)."""
        raise NotImplementedError

    def exec(self, s):
        self.tick()
        k = type(s)
        if k is ExprStmt:
            self.ev(s.e)
        elif k is Decl or k is VLA:
            self.exec_decl(s)
        elif k is Assign:
            tg = s.target
            if type(tg) is Var:
                v = self.conv(self.ev(s.e), s.e.t, tg.t)
                self.lookup(tg.name)[tg.name] = v
            else:
                arr = self.ev(tg.src)
                i = self.ev(tg.idx)
                self.check_index(len(arr.data), i)
                v = self.conv(self.ev(s.e), s.e.t, tg.t)
                arr.data[i] = v
        elif k is OpAssign:
            tg = s.target
            if type(tg) is Var:
                old = self.ev(tg)
                b = self.ev(s.e)
                v = self.conv(self.arith(s.op, int(old), int(b)), INT, tg.t)
                self.lookup(tg.name)[tg.name] = v
            else:
                arr = self.ev(tg.src)
                i = self.ev(tg.idx)
                self.check_index(len(arr.data), i)
                old = arr.data[i]
                if old is None:
                    raise Skip('unspecified read (element op=)')
                b = self.ev(s.e)
                arr.data[i] = self.conv(self.arith(s.op, int(old), int(b)), INT, tg.t)
        elif k is If:
            if self.truthy(self.ev(s.c)):
                self.exec_block(s.a)
            elif s.b is not None:
                self.exec_block(s.b)
        elif k is While:
            self.loop(None, s.c, None, s.body)
        elif k is For:
            self.scopes.append({})
            try:
                if s.init is not None:
                    self.exec(s.init)
                self.loop(None, s.c, s.step, s.body)
            finally:
                self.scopes.pop()
        elif k is Block:
            self.exec_block(s.body)
        elif k is Ret:
            if s.e is None:
                raise _Ret(None)
            raise _Ret(self.ev(s.e), s.e.t)
        elif k is Break:
            raise _Brk()
        elif k is Continue:
            raise _Cnt()
        elif k is Try:
            self.exec_try(s)
        elif k is Preempt:
            if self.mode == 'virtual':
                self.n_forced += 1
                self.exec_block(s.body)
            elif self.mode == 'real':
                if self.choice() == 1:
                    self.exec_block(s.body)
            else:
                raise Skip('preempt outside any try (ill-formed program)')
        else:
            raise Skip(f'model: statement {k.__name__}')

    def arith(self, op, a, b):
        if op == '+': return self.wrap(a + b)
        if op == '-': return self.wrap(a - b)
        if op == '*': return self.wrap(a * b)
        if b == 0:
            if self.checked:
                raise Fault('division_by_zero')
            raise Skip('undefined behaviour: unchecked division by zero')
        return self.wrap(a // b if op == '/' else a % b)

    def snapshot(self):
        """hashable image of everything a loop could depend on"""
        def img(v):
            if isinstance(v, ArrObj):
                return (id(v), tuple(v.data))
            return v
        return (tuple(tuple(sorted((k, img(v)) for k, v in s.items())) for s in self.scopes),
                tuple(sorted((k, img(v)) for k, v in self.globals.items())))

    def loop(self, _unused, cond, step, body):
        seen = None
        it = 0
        nev = len(self.events)
        lastout = self.events[-1] if self.events else None
        try:
            while True:
                if cond is not None and not self.truthy(self.ev(cond)):
                    break
                it += 1
                if it > 64 and (it & (it - 1)) == 0 or it == 3:
                    # divergence detection: same store, no new event since the last look
                    if len(self.events) == nev and (self.events[-1] if self.events else None) == lastout:
                        snap = self.snapshot()
                        if seen is not None and snap == seen:
                            raise Diverge()
                        seen = snap
                    else:
                        nev = len(self.events)
                        lastout = self.events[-1] if self.events else None
                        seen = None
                try:
                    self.exec_block(body)
                except _Cnt:
                    pass
                if step is not None:
                    self.scopes.append({})
                    try:
                        self.exec(step)
                    finally:
                        self.scopes.pop()
        except _Brk:
            pass

    def exec_try(self, s):
        self.n_tries += 1
        if self.mode != 'none':
            raise Skip('nested try (ill-formed program)')
        depth = len(self.scopes)
        if s.kind == 'undo':
            if self.choice() == 0:
                self.mode = 'real'
                try:
                    self.exec_block(s.body)
                finally:
                    self.mode = 'none'
            else:
                self.exec_block(s.handler)
        else:
            c = self.choice()
            self.mode = 'real' if c == 0 else 'virtual'
            try:
                try:
                    self.exec_block(s.body)
                finally:
                    self.mode = 'none'
            except _Defeated:
                del self.scopes[depth:]
                self.exec_block(s.handler)


def interpret(prog, **kw):
    return RefInt(prog, **kw).run()
