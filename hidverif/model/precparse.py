"""Independent reference for expression grouping (C11): a precedence-climbing
parser and a minimal-parentheses printer driven by the README operator table,
plus a visitor turning hidc's parse tree into the same S-expressions.

S-expressions:
  ('bin', op, l, r) ('un', op, x) ('is', x, type) ('spec', l, r)
  ('idx', s, i) ('len', s) ('call', name, [args]) ('arr', [items])
  ('var', name) ('int', v) ('char', v) ('str', bytes) ('bool', v)
"""
import re

# README "Operators", loosest to tightest
LEVELS = [
    ('??',),
    ('or',),
    ('and',),
    ('==', '!=', '<', '<=', '>', '>='),
    ('+', '-'),
    ('*', '/', '%'),
]
BINOPS = [op for lv in LEVELS for op in lv]
LEVEL_OF = {op: i for i, lv in enumerate(LEVELS) for op in lv}
UNARY = ('+', '-', 'not')
TYPES = ('int', 'byte', 'bool', 'string', 'byte[]', 'int[]')

_TOK = re.compile(r'\s*(\?\?|==|!=|<=|>=|[-+*/%<>()\[\],.]|\d+|"[^"]*"|\'[^\']\'|[A-Za-z_]\w*)')


class RefSyntaxError(Exception):
    pass


def tokenize(text):
    out = []
    pos = 0
    text = text.rstrip()
    while pos < len(text):
        m = _TOK.match(text, pos)
        if not m:
            raise RefSyntaxError(f'bad char at {pos}')
        out.append(m.group(1))
        pos = m.end()
    return out


class RefParser:
    def __init__(self, toks):
        self.t = toks
        self.i = 0

    def peek(self):
        return self.t[self.i] if self.i < len(self.t) else None

    def eat(self, tok=None):
        cur = self.peek()
        if cur is None or (tok is not None and cur != tok):
            raise RefSyntaxError(f'expected {tok}, got {cur}')
        self.i += 1
        return cur

    def parse(self):
        e = self.level(0)
        if self.peek() is not None:
            raise RefSyntaxError(f'trailing {self.peek()}')
        return e

    def level(self, n):
        if n == len(LEVELS):
            return self.cast()
        if n == 0:
            # speculation: not associative, at most one per (sub)expression
            left = self.level(1)
            if self.peek() == '??':
                self.eat()
                right = self.level(1)
                if self.peek() == '??':
                    raise RefSyntaxError('chained ??')
                return ('spec', left, right)
            return left
        left = self.level(n + 1)
        while self.peek() in LEVELS[n]:
            op = self.eat()
            right = self.level(n + 1)
            left = ('bin', op, left, right)
        return left

    def cast(self):
        e = self.unary()
        if self.peek() == 'is':
            self.eat()
            t = self.eat()
            if t not in ('int', 'byte', 'bool', 'string'):
                raise RefSyntaxError('type expected')
            if self.peek() == '[':
                self.eat()
                self.eat(']')
                t += '[]'
            if self.peek() == 'is':
                raise RefSyntaxError('chained is')
            return ('is', e, t)
        return e

    def unary(self):
        if self.peek() in UNARY:
            op = self.eat()
            return ('un', op, self.unary())
        return self.postfix()

    def postfix(self):
        e = self.atom()
        while True:
            if self.peek() == '.':
                self.eat()
                self.eat('length')
                e = ('len', e)
            elif self.peek() == '[':
                self.eat()
                i = self.level(0)
                self.eat(']')
                e = ('idx', e, i)
            else:
                return e

    def atom(self):
        t = self.eat()
        if t == '(':
            e = self.level(0)
            self.eat(')')
            return e
        if t == '[':
            items = []
            if self.peek() != ']':
                items.append(self.level(0))
                while self.peek() == ',':
                    self.eat()
                    items.append(self.level(0))
            self.eat(']')
            return ('arr', items)
        if t.isdigit():
            return ('int', int(t))
        if t[0] == '"':
            return ('str', t[1:-1].encode())
        if t[0] == "'":
            return ('char', ord(t[1]))
        if t in ('true', 'false'):
            return ('bool', t == 'true')
        if re.fullmatch(r'[A-Za-z_]\w*', t) and t not in ('is', 'not', 'and', 'or', 'length'):
            if self.peek() == '(':
                self.eat()
                args = []
                if self.peek() != ')':
                    args.append(self.level(0))
                    while self.peek() == ',':
                        self.eat()
                        args.append(self.level(0))
                self.eat(')')
                return ('call', t, args)
            return ('var', t)
        raise RefSyntaxError(f'unexpected {t}')


def _has_spec(e):
    if not isinstance(e, tuple):
        return False
    if e[0] == 'spec':
        return True
    return any(_has_spec(x) if isinstance(x, tuple) else any(_has_spec(y) for y in x) if isinstance(x, list) else False
               for x in e[1:])


def _nested_spec(e):
    if not isinstance(e, tuple):
        return False
    if e[0] == 'spec' and (_has_spec(e[1]) or _has_spec(e[2])):
        return True
    return any(_nested_spec(x) if isinstance(x, tuple) else any(_nested_spec(y) for y in x) if isinstance(x, list) else False
               for x in e[1:])


def ref_parse(text):
    tree = RefParser(tokenize(text)).parse()
    # context rule, not grouping: the operands of ?? are parsed outside the
    # you-context, so a ?? nested anywhere inside them is rejected
    if _nested_spec(tree):
        raise RefSyntaxError('?? nested inside an operand of ??')
    return tree


# ------------------------------------------------------- minimal printer
P_CAST = len(LEVELS)
P_UNARY = P_CAST + 1
P_POST = P_UNARY + 1
P_ATOM = P_POST + 1


def _prec(e):
    k = e[0]
    if k == 'spec': return 0
    if k == 'bin': return LEVEL_OF[e[1]]
    if k == 'is': return P_CAST
    if k == 'un': return P_UNARY
    if k in ('idx', 'len'): return P_POST
    return P_ATOM


def show(e, rng=None):
    """minimal parentheses; with rng, add random redundant ones"""
    def sub(x, need):
        s = show(x, rng)
        if _prec(x) < need or (rng is not None and rng.random() < 0.15):
            return '(' + s + ')'
        return s
    k = e[0]
    if k == 'spec':
        return f'{sub(e[1], 1)} ?? {sub(e[2], 1)}'
    if k == 'bin':
        p = LEVEL_OF[e[1]]
        return f'{sub(e[2], p)} {e[1]} {sub(e[3], p + 1)}'
    if k == 'is':
        return f'{sub(e[1], P_UNARY)} is {e[2]}'
    if k == 'un':
        inner = sub(e[2], P_UNARY)
        return f'{e[1]} {inner}'
    if k == 'idx':
        return f'{sub(e[1], P_POST)}[{show(e[2], rng)}]'
    if k == 'len':
        return f'{sub(e[1], P_POST)}.length'
    if k == 'call':
        return f'{e[1]}({", ".join(show(a, rng) for a in e[2])})'
    if k == 'arr':
        return '[' + ', '.join(show(a, rng) for a in e[1]) + ']'
    if k == 'var': return e[1]
    if k == 'int': return str(e[1])
    if k == 'char': return "'" + chr(e[1]) + "'"
    if k == 'str': return '"' + e[1].decode() + '"'
    if k == 'bool': return 'true' if e[1] else 'false'
    raise ValueError(e)


# --------------------------------------------- hidc parse tree -> S-expr
def from_hidc(node):
    from hidc import ast as H
    if isinstance(node, H.Speculation):
        return ('spec', from_hidc(node.left), from_hidc(node.right))
    if isinstance(node, H.Binary):
        return ('bin', str(node.token), from_hidc(node.left), from_hidc(node.right))
    if isinstance(node, H.Unary):
        return ('un', str(node.token), from_hidc(node.arg))
    if isinstance(node, H.Is):
        t = node.type
        ts = (str(t.el_type) + '[]') if isinstance(t, H.ArrayType) else str(t)
        return ('is', from_hidc(node.expr), ts)
    if isinstance(node, H.ArrayLookup):
        return ('idx', from_hidc(node.source), from_hidc(node.index))
    if isinstance(node, H.LengthLookup):
        return ('len', from_hidc(node.source))
    if isinstance(node, H.FuncCall):
        return ('call', node.func.name, [from_hidc(a) for a in node.args])
    if isinstance(node, H.ArrayLiteral):
        return ('arr', [from_hidc(a) for a in node.values])
    if isinstance(node, H.VariableLookup):
        return ('var', node.var.name)
    if isinstance(node, H.ByteValue):
        return ('char', node.data)
    if isinstance(node, H.IntValue):
        # a literal in the source is a literal wherever it stands: parentheses must not change what it is (its coercibility to byte included)
        return ('int', node.data) if getattr(node, 'shrinkable', True) else ('int-not-a-literal', node.data)
    if isinstance(node, H.BoolValue):
        return ('bool', node.data)
    if isinstance(node, H.StringValue):
        return ('str', node.data)
    raise ValueError(f'unexpected hidc node {type(node).__name__}')


def hidc_parse_expr(text, ctx='you'):
    """parse with the real hidc parser in a you-context (so ?? is legal); ctx: 'you', 'you_loop' (inside a loop body of a
    you-function), 'func' / 'func_loop' (ordinary function: no ??)"""
    from hidc.lexer import SourceCode
    from hidc.parser import parse
    from hidc.parser.grammar import ps_expr, BlockContext
    c = {'you': BlockContext.YOU, 'you_loop': BlockContext.YOU | BlockContext.LOOP, 'func': BlockContext.FUNC,
         'func_loop': BlockContext.FUNC | BlockContext.LOOP}[ctx]
    tree = parse(SourceCode.from_string(text), rule=ps_expr(c))
    if tree is None:
        from hidc.errors import ParserError
        raise ParserError('no expression', ())
    return from_hidc(tree)


# statements of every kind, parsed through the real parser between expression batches: whatever parsing a statement
# leaves behind in the parser (tables, flags, caches) must not change how later expressions group
PRELUDE = """
int g = 1;
int f(int a, int b) { return a + b * 2; }
empty !d(int k) { preempt { return; } !truth_is_defeat(k == 1); }
empty @is_you(int n) {
    int i = 0; byte b = 'x'; int[] q = [1, 2, 3]; bool t = n > 1 and not (n == 3) or n < -1;
    i += 1; i -= 2; i *= 3; i /= 4; i %= 5; q[1] += i; q[2] -= 1; q[0] *= 2; q[0] /= 1; q[0] %= 7; b += 1; g += n;
    for (int k = 0; k < 3; k += 1) { i += k; if (k == 1) { continue; } while (i > 100) { i -= 100; break; } }
    i = (n ?? 2) + 1; i = f(n, 2) ?? 0;
    try { !d(n); } undo { i = f(n, 2); }
    try { !d(i); } stop { i -= 1; }
    writeln((i is byte) + q.length * q[0] - -n);
}
"""


def parse_prelude():
    from hidc.lexer import SourceCode
    from hidc.parser import parse
    parse(SourceCode.from_string(PRELUDE))
