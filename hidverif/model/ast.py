"""GenAST: typed program trees that know their own meaning, and their renderer.

Workload programs are *built* as typed trees by seeded generators and rendered
to HiD source; they never pass through hidc on the oracle side (DESIGN.md
section 3.1).
"""
import collections

INT, BYTE, BOOL, STRING, EMPTY = 'int', 'byte', 'bool', 'string', 'empty'
SCALARS = (INT, BYTE, BOOL, STRING)
Arr = collections.namedtuple('Arr', 'el const')


def is_arr(t):
    return isinstance(t, Arr)


def tstr(t):
    if is_arr(t):
        return ('const ' if t.const else '') + t.el + '[]'
    return t


ARITH = ('+', '-', '*', '/', '%')
COMPARE = ('<', '<=', '>', '>=')
EQUAL = ('==', '!=')
LOGIC = ('and', 'or')


class Node:
    __slots__ = ()

    def __repr__(self):
        return f'{type(self).__name__}({", ".join(f"{s}={getattr(self, s)!r}" for s in self.__slots__)})'


# ------------------------------------------------------------ expressions
class Lit(Node):
    """Literal.  keep=True: never rendered opaque (global initialisers etc.).
    text: explicit spelling (e.g. hex) for int literals.
    For t == BYTE: spell 'char' (a character literal) or 'int' (an int literal
    in a position where literal shrinking applies)."""
    __slots__ = ('t', 'v', 'keep', 'text', 'spell')

    def __init__(self, t, v, keep=False, text=None, spell=None):
        self.t, self.v, self.keep, self.text, self.spell = t, v, keep, text, spell


class Var(Node):
    """cv: value hidc substitutes for this variable at compile time (const
    scalar with a constant initialiser), else None."""
    __slots__ = ('name', 't', 'cv')

    def __init__(self, name, t, cv=None):
        self.name, self.t, self.cv = name, t, cv


class Bin(Node):
    __slots__ = ('op', 'a', 'b', 't')

    def __init__(self, op, a, b):
        self.op, self.a, self.b = op, a, b
        self.t = INT if op in ARITH else BOOL


class Un(Node):
    __slots__ = ('op', 'a', 't')

    def __init__(self, op, a):
        self.op, self.a = op, a
        self.t = BOOL if op == 'not' else INT


class Cast(Node):
    __slots__ = ('e', 't')

    def __init__(self, e, t):
        self.e, self.t = e, t


class Index(Node):
    __slots__ = ('src', 'idx', 't')

    def __init__(self, src, idx):
        self.src, self.idx = src, idx
        self.t = BYTE if src.t == STRING else src.t.el


class Len(Node):
    __slots__ = ('src', 't')

    def __init__(self, src):
        self.src = src
        self.t = INT


class Call(Node):
    """func: a Func, or the name of a builtin (str)."""
    __slots__ = ('func', 'args', 't')

    def __init__(self, func, args, t=None):
        self.func, self.args = func, list(args)
        self.t = t if t is not None else (EMPTY if isinstance(func, str) else func.ret)


class ArrLit(Node):
    __slots__ = ('elems', 't')

    def __init__(self, elems, el, const=True):
        self.elems = list(elems)
        self.t = Arr(el, const)


class Spec(Node):
    __slots__ = ('a', 'b', 't')

    def __init__(self, a, b):
        self.a, self.b = a, b
        self.t = a.t


# ------------------------------------------------------------- statements
class Decl(Node):
    __slots__ = ('name', 't', 'const', 'init')

    def __init__(self, name, t, init, const=False):
        self.name, self.t, self.init, self.const = name, t, init, const


class VLA(Node):
    __slots__ = ('name', 'el', 'length')

    def __init__(self, name, el, length):
        self.name, self.el, self.length = name, el, length

    @property
    def t(self):
        return Arr(self.el, False)


class Assign(Node):
    __slots__ = ('target', 'e')

    def __init__(self, target, e):
        self.target, self.e = target, e


class OpAssign(Node):
    __slots__ = ('target', 'op', 'e')

    def __init__(self, target, op, e):
        self.target, self.op, self.e = target, op, e


class ExprStmt(Node):
    __slots__ = ('e',)

    def __init__(self, e):
        self.e = e


class If(Node):
    __slots__ = ('c', 'a', 'b')

    def __init__(self, c, a, b=None):
        self.c, self.a, self.b = c, list(a), (list(b) if b is not None else None)


class While(Node):
    __slots__ = ('c', 'body')

    def __init__(self, c, body):
        self.c, self.body = c, list(body)


class For(Node):
    """for (init; cond; step) body.  init: Decl/Assign/OpAssign/ExprStmt/None."""
    __slots__ = ('init', 'c', 'step', 'body')

    def __init__(self, init, c, step, body):
        self.init, self.c, self.step, self.body = init, c, step, list(body)


class Block(Node):
    __slots__ = ('body',)

    def __init__(self, body):
        self.body = list(body)


class Ret(Node):
    __slots__ = ('e',)

    def __init__(self, e=None):
        self.e = e


class Break(Node):
    __slots__ = ()


class Continue(Node):
    __slots__ = ()


class Try(Node):
    __slots__ = ('body', 'kind', 'handler')

    def __init__(self, body, kind, handler):
        self.body, self.kind, self.handler = list(body), kind, list(handler)


class Preempt(Node):
    __slots__ = ('body',)

    def __init__(self, body):
        self.body = list(body)


class Raw(Node):
    """Verbatim source text with no model semantics (only for programs that
    are not executed by RefInt)."""
    __slots__ = ('text',)

    def __init__(self, text):
        self.text = text


class Func(Node):
    __slots__ = ('name', 'params', 'ret', 'body', 'tag')

    def __init__(self, name, params, ret, body=None, tag=None):
        # params: list of (name, type, const)
        self.name, self.params, self.ret, self.body, self.tag = name, list(params), ret, body, tag

    @property
    def flavor(self):
        return self.name[0] if self.name[0] in '@!' else ''

    @property
    def preemptive(self):
        return _has_preempt(self.body)


def _has_preempt(stmts):
    for s in stmts or ():
        if isinstance(s, Preempt):
            return True
        for attr in ('a', 'b', 'body', 'handler'):
            sub = getattr(s, attr, None) if attr in getattr(s, '__slots__', ()) else None
            if isinstance(sub, list) and _has_preempt(sub):
                return True
    return False


class Program(Node):
    __slots__ = ('globals', 'funcs', 'opaque_var')

    def __init__(self, globals=(), funcs=(), opaque_var='zz'):
        self.globals, self.funcs, self.opaque_var = list(globals), list(funcs), opaque_var

    def func(self, name):
        return [f for f in self.funcs if f.name == name]


# ---------------------------------------------------------------- walking
def walk_stmts(stmts):
    """Yield every statement node, depth first."""
    for s in stmts or ():
        yield s
        for attr in ('a', 'b', 'body', 'handler'):
            if attr in s.__slots__:
                sub = getattr(s, attr)
                if isinstance(sub, list):
                    yield from walk_stmts(sub)
        if isinstance(s, For):
            for x in (s.init, s.step):
                if x is not None:
                    yield x


def stmt_exprs(s):
    for attr in ('init', 'length', 'target', 'e', 'c'):
        if attr in s.__slots__:
            x = getattr(s, attr)
            if isinstance(x, Node) and not isinstance(x, (Decl, Assign, OpAssign, ExprStmt)):
                yield x


def walk_expr(e):
    yield e
    for attr in ('a', 'b', 'e', 'src', 'idx'):
        if attr in e.__slots__:
            x = getattr(e, attr)
            if isinstance(x, Node):
                yield from walk_expr(x)
    if isinstance(e, Call):
        for a in e.args:
            yield from walk_expr(a)
    if isinstance(e, ArrLit):
        for a in e.elems:
            yield from walk_expr(a)


def program_exprs(prog):
    for g in prog.globals:
        for x in stmt_exprs(g):
            yield from walk_expr(x)
    for f in prog.funcs:
        for s in walk_stmts(f.body):
            for x in stmt_exprs(s):
                yield from walk_expr(x)


def uses_time_travel(prog):
    for f in prog.funcs:
        for s in walk_stmts(f.body):
            if isinstance(s, (Try, Preempt)):
                return True
    return any(isinstance(e, Spec) for e in program_exprs(prog))


# -------------------------------------------------------------- rendering
_NAMED_ESC = {0x5c: '\\\\', 0x22: '\\"', 0x27: "\\'", 10: '\\n', 13: '\\r', 9: '\\t', 0: '\\0',
              7: '\\a', 8: '\\b', 12: '\\f'}


def render_bytes(data, quote):
    """Spell a byte string as the body of a HiD string/char literal using only
    \\xHH and named escapes for anything that is not printable ASCII."""
    out = []
    for b in data:
        if b in (0x5c, ord(quote)) or b in (10, 13, 9, 0):
            out.append(_NAMED_ESC[b])
        elif 0x20 <= b <= 0x7e:
            out.append(chr(b))
        else:
            out.append('\\x%02x' % b)
    return ''.join(out)


# precedence levels for minimal parenthesisation (README "Operators")
_PREC = {'??': 1, 'or': 2, 'and': 3}
for _o in COMPARE + EQUAL:
    _PREC[_o] = 4
_PREC.update({'+': 5, '-': 5, '*': 6, '/': 6, '%': 6})
P_IS, P_UNARY, P_POSTFIX, P_ATOM = 7, 8, 9, 10


class Renderer:
    def __init__(self, opaque=False, min_parens=False, indent='    '):
        self.opaque = opaque
        self.min_parens = min_parens
        self.ind = indent
        self.zz = 'zz'

    # ---- expressions: returns (text, precedence level of the outermost construct)
    def _lit(self, e):
        t, v = e.t, e.v
        if self.opaque and not e.keep and t in (INT, BYTE, BOOL):
            if t == BOOL:
                return (f'({self.zz} == 0)' if v else f'({self.zz} != 0)'), P_ATOM
            if t == BYTE:
                return f'(({self.zz} + {v}) is byte)', P_ATOM
            return (f'({self.zz} + {v})' if v >= 0 else f'({self.zz} - {-v})'), P_ATOM
        if t == BOOL:
            return ('true' if v else 'false'), P_ATOM
        if t == STRING:
            return '"' + (e.text if e.text is not None else render_bytes(v, '"')) + '"', P_ATOM
        if t == BYTE:
            if e.spell == 'int':
                return (e.text or str(v)), P_ATOM
            return "'" + (e.text if e.text is not None else render_bytes(bytes([v]), "'")) + "'", P_ATOM
        if v < 0:
            return '-' + (e.text or str(-v)), P_UNARY
        return (e.text or str(v)), P_ATOM

    def ex(self, e, need=0):
        s, p = self._ex(e)
        if p < need or (not self.min_parens and p < P_POSTFIX):
            return '(' + s + ')'
        return s

    def _ex(self, e):
        if isinstance(e, Lit):
            return self._lit(e)
        if isinstance(e, Var):
            return e.name, P_ATOM
        if isinstance(e, Bin):
            p = _PREC[e.op]
            return f'{self.ex(e.a, p)} {e.op} {self.ex(e.b, p + 1)}', p
        if isinstance(e, Un):
            sp = ' ' if e.op == 'not' else ''
            inner = self.ex(e.a, P_UNARY)
            if e.op in '+-' and inner[:1] == e.op:
                sp = ' '
            return f'{e.op}{sp}{inner}', P_UNARY
        if isinstance(e, Cast):
            return f'{self.ex(e.e, P_UNARY)} is {tstr(e.t).replace("const ", "")}', P_IS
        if isinstance(e, Index):
            return f'{self.ex(e.src, P_POSTFIX)}[{self._ex(e.idx)[0]}]', P_POSTFIX
        if isinstance(e, Len):
            return f'{self.ex(e.src, P_POSTFIX)}.length', P_POSTFIX
        if isinstance(e, Call):
            name = e.func if isinstance(e.func, str) else e.func.name
            return f'{name}({", ".join(self._ex(a)[0] for a in e.args)})', P_ATOM
        if isinstance(e, ArrLit):
            return '[' + ', '.join(self._ex(a)[0] for a in e.elems) + ']', P_ATOM
        if isinstance(e, Spec):
            return f'{self.ex(e.a, 2)} ?? {self.ex(e.b, 2)}', 1
        if isinstance(e, Raw):
            return e.text, P_ATOM
        raise TypeError(e)

    def top(self, e):
        return self._ex(e)[0]

    # ---- statements
    def decl_head(self, name, t, const):
        if is_arr(t):
            return f'{"const " if t.const else ""}{t.el}[] {name}'
        return f'{"const " if const else ""}{t} {name}'

    def simple(self, s):
        if isinstance(s, Decl):
            return f'{self.decl_head(s.name, s.t, s.const)} = {self.top(s.init)}'
        if isinstance(s, VLA):
            return f'{s.el} {s.name}[{self.top(s.length)}]'
        if isinstance(s, Assign):
            return f'{self.top(s.target)} = {self.top(s.e)}'
        if isinstance(s, OpAssign):
            return f'{self.top(s.target)} {s.op}= {self.top(s.e)}'
        if isinstance(s, ExprStmt):
            return self.top(s.e)
        if isinstance(s, Ret):
            return 'return' + (' ' + self.top(s.e) if s.e is not None else '')
        if isinstance(s, Break):
            return 'break'
        if isinstance(s, Continue):
            return 'continue'
        if isinstance(s, Raw):
            return s.text
        raise TypeError(s)

    def block(self, stmts, d):
        return '{\n' + ''.join(self.stmt(s, d + 1) for s in stmts) + self.ind * d + '}'

    def stmt(self, s, d):
        p = self.ind * d
        if isinstance(s, If):
            r = f'{p}if ({self.top(s.c)}) {self.block(s.a, d)}'
            if s.b is not None:
                r += f' else {self.block(s.b, d)}'
            return r + '\n'
        if isinstance(s, While):
            return f'{p}while ({self.top(s.c)}) {self.block(s.body, d)}\n'
        if isinstance(s, For):
            i = self.simple(s.init) if s.init is not None else ''
            c = self.top(s.c) if s.c is not None else ''
            st = self.simple(s.step) if s.step is not None else ''
            return f'{p}for ({i}; {c}; {st}) {self.block(s.body, d)}\n'
        if isinstance(s, Block):
            return f'{p}{self.block(s.body, d)}\n'
        if isinstance(s, Try):
            return f'{p}try {self.block(s.body, d)} {s.kind} {self.block(s.handler, d)}\n'
        if isinstance(s, Preempt):
            return f'{p}preempt {self.block(s.body, d)}\n'
        if isinstance(s, Raw) and s.text.rstrip().endswith('}'):
            return p + s.text + '\n'
        return p + self.simple(s) + ';\n'

    def func(self, f):
        ps = ', '.join(self.decl_head(n, t, c) for n, t, c in f.params)
        return f'{f.ret} {f.name}({ps}) {self.block(f.body, 0)}\n'

    def program(self, prog):
        self.zz = prog.opaque_var
        out = []
        if self.opaque:
            out.append(f'int {self.zz} = 0;\n')
        for g in prog.globals:
            out.append(self.simple(g) + ';\n')
        for f in prog.funcs:
            out.append(self.func(f))
        return ''.join(out)


def render(prog, opaque=False, min_parens=False):
    return Renderer(opaque=opaque, min_parens=min_parens).program(prog)
