"""The author's own expectations (tests/test_codegen.py, never collected in the
pinned suite because the Sphinx emulator is absent) run on the SVM through the
spasm shim: an author-supplied oracle for compiled-code behaviour."""
import json
import os
import re
import subprocess
import sys

from . import env

TIME_TESTS = ('test_mergesort', 'test_try_stop_func_call', 'test_speculation', 'test_primality',
              'test_nonlocal_preempt')


def run_upstream(which='all', timeout=600):
    """returns dict(passed=[ids], failed={id: msg}, error=None|str)"""
    path = os.path.join(env.REPO, 'tests', 'test_codegen.py')
    if not os.path.exists(path):
        return {'passed': [], 'failed': {}, 'error': 'tests/test_codegen.py not found'}
    shim = os.path.join(env.VERIF, 'selftest', 'spasm_shim')
    e = dict(os.environ)
    e['PYTHONPATH'] = os.pathsep.join([shim, env.VERIF, env.REPO])
    e['HID_REPO'] = env.REPO
    scratch = os.environ.get('HIDVERIF_SCRATCH') or os.path.join(env.VERIF, '.scratch')
    os.makedirs(scratch, exist_ok=True)
    xml = os.path.join(scratch, f'upstream-{os.getpid()}.xml')
    sel = []
    if which == 'time':
        sel = ['-k', ' or '.join(TIME_TESTS)]
    elif which == 'sequential':
        sel = ['-k', 'not (' + ' or '.join(TIME_TESTS) + ')']
    cmd = [sys.executable, '-m', 'pytest', '-q', '-p', 'no:cacheprovider', '-c', os.devnull, '--rootdir', scratch,
           '--junitxml', xml, path] + sel
    try:
        p = subprocess.run(cmd, cwd=scratch, env=e, capture_output=True, text=True, timeout=timeout)
    except subprocess.TimeoutExpired:
        return {'passed': [], 'failed': {}, 'error': 'upstream run timed out'}
    passed, failed = [], {}
    try:
        import xml.etree.ElementTree as ET
        root = ET.parse(xml).getroot()
        for tc in root.iter('testcase'):
            name = tc.get('name')
            bad = tc.find('failure')
            if bad is None:
                bad = tc.find('error')
            if bad is not None:
                failed[name] = (bad.get('message') or '')[:300]
            elif tc.find('skipped') is None:
                passed.append(name)
    except Exception as ex:  # noqa
        return {'passed': [], 'failed': {}, 'error': f'cannot read junit xml: {ex}: {p.stdout[-500:]} {p.stderr[-500:]}'}
    finally:
        try:
            os.remove(xml)
        except OSError:
            pass
    return {'passed': passed, 'failed': failed, 'error': None}
