"""python -m hidverif replay <path>: re-run exactly the case recorded in a replay file."""
import json

from . import diff, env


def main(path):
    with open(path) as f:
        d = json.load(f)
    c = d.get('case', {})
    print(f"property {d.get('property')}  monitor {d.get('monitor')}  tier {d.get('tier')} seed {d.get('seed')}")
    print('recorded message:', d.get('message'))
    env.load()
    if 'source' in c and 'word' in c:
        args = [a for a in c.get('args', []) if a != '...']
        run = diff.compile_and_run(c['source'], args, word=c['word'], stack=c.get('stack', diff.GENEROUS_STACK),
                                   unchecked=c.get('unchecked', False), lint=c.get('lint', False), max_steps=20_000_000)
        print('compile/run:', run.kind, run.detail or '')
        if run.outcome is not None:
            print('observed now:', json.dumps(run.outcome.brief(), default=str))
        if d.get('expected') is not None:
            print('expected    :', json.dumps(d['expected'], default=str)[:2000])
        if 'twin' in c:
            r2 = diff.compile_and_run(c['twin'], args, word=c['word'], max_steps=2_000_000, monitors=False)
            print('run-time twin:', r2.kind, r2.outcome.brief() if r2.outcome else r2.detail)
        return 0
    if 'source' in c:
        CompilerError, _ = env.compiler_error_types()
        try:
            env.typecheck_src(c['source'])
            print('typecheck: accepted')
            try:
                env.compile_src(c['source'])
                print('code generation: ok')
            except Exception as e:  # noqa
                print(f'code generation: {type(e).__name__}: {e}')
        except CompilerError as e:
            print(f'typecheck: rejected: {type(e).__name__}: {e}')
        except Exception as e:  # noqa
            print(f'typecheck: INTERNAL {type(e).__name__}: {e}')
        print('expected:', d.get('expected'))
        return 0
    if 'input_bytes' in c:
        # a source FILE given byte for byte (C10 command-line / encoding cases, C13 raw characters)
        import os
        import subprocess
        import sys
        data = c['input_bytes'].encode('latin-1')
        print('input file bytes:', data[:400])
        try:
            lines = env.compile_file_bytes(data, word=c.get('word', 2))
            print(f'SourceCode.from_file -> compiled, {len(lines)} lines')
            run = diff.run_lines(lines, [], 2_000_000, monitors=False)
            print('run:', run.kind, run.outcome.brief() if run.outcome else run.detail)
        except Exception as e:  # noqa
            print(f'SourceCode.from_file path: {type(e).__name__}: {e}')
        if 'options' in c:
            scratch = os.environ.get('HIDVERIF_SCRATCH') or os.path.join(env.VERIF, '.scratch')
            os.makedirs(scratch, exist_ok=True)
            inp, out = os.path.join(scratch, 'replay-in.hid'), os.path.join(scratch, 'replay-out.s')
            with open(inp, 'wb') as f:
                f.write(data)
            e = dict(os.environ, PYTHONPATH=env.REPO)
            p = subprocess.run([sys.executable, '-m', 'hidc', inp, '-o', out] + list(c['options']), env=e, capture_output=True, timeout=120)
            print(f'python -m hidc {" ".join(c["options"])}: exit {p.returncode}; output file {"exists" if os.path.exists(out) else "absent"}')
            print('stderr:', p.stderr.decode("utf-8", "replace")[-600:])
            for x in (inp, out):
                if os.path.exists(x):
                    os.remove(x)
        if d.get('expected') is not None:
            print('expected:', json.dumps(d['expected'], default=str)[:1000])
        return 0
    if 'text' in c:
        from .model import reftok as R
        for name, fn in (('hidc.lexer.lex', R.hidc_lex), ('reference tokenizer', R.ref_lex)):
            try:
                print(f'{name}:', fn(c['text']))
            except Exception as e:  # noqa
                print(f'{name}: {type(e).__name__}: {e}')
        return 0
    if 'expr' in c:
        from .model import precparse as P
        for name, fn in (('hidc.parser', P.hidc_parse_expr), ('reference parser', P.ref_parse)):
            try:
                print(f'{name}:', fn(c['expr']))
            except Exception as e:  # noqa
                print(f'{name}: {type(e).__name__}: {e}')
        return 0
    print(json.dumps(c, indent=1)[:3000])
    return 0
