"""Sharding, budgets, verdicts, evidence, replay files, known findings.

A check module (hidverif.checks.cNN) provides:
    PROPERTY      'C01'
    RULE          str: how cases are generated and what makes one non-trivial
    ASSUMPTIONS   list[str]
    MIN_NONTRIVIAL {'quick': n, 'thorough': n}   below this the verdict is inconclusive
    plan(tier, seed) -> list[dict]               shard specs (JSON-serialisable)
    run_shard(spec) -> dict                      see `new_result`
    optional finish(merged, tier, seed)          post-processing of merged results (may add failures)

Verdicts are three-valued (DESIGN.md section 5): exit 0 held, exit 1 violated
(stdout `VIOLATION property=<id> replay=<path>`), exit 2 inconclusive.
"""
import hashlib
import importlib
import json
import os
import shutil
import subprocess
import sys
import tempfile
import time

from . import env

NCPU = int(os.environ.get('VERIF_JOBS', '0')) or min(16, os.cpu_count() or 1)
SHARD_TIMEOUT = int(os.environ.get('VERIF_SHARD_TIMEOUT', '3000'))


def new_result():
    return {
        'evaluations': 0,
        'nontrivial': [],      # ids (short hashes) of distinct non-trivial cases
        'counters': {},        # summed
        'sets': {},            # unioned
        'samples': [],         # a few actual cases
        'failures': [],        # dicts: {monitor, message, case, expected, observed, mechanism?}
        'inconclusive': [],    # reasons
        'exhaustive': None,
    }


def case_id(*parts):
    h = hashlib.blake2b(digest_size=8)
    for p in parts:
        h.update(repr(p).encode('utf-8', 'surrogatepass'))
        h.update(b'\0')
    return h.hexdigest()


def count(res, name, n=1):
    res['counters'][name] = res['counters'].get(name, 0) + n


def note(res, name, item):
    res['sets'].setdefault(name, [])
    if item not in res['sets'][name]:
        res['sets'][name].append(item)


def fail(res, monitor, message, case, expected=None, observed=None, mechanism=None):
    if len(res['failures']) < 200:
        res['failures'].append({'monitor': monitor, 'message': message, 'case': case,
                                'expected': expected, 'observed': observed, 'mechanism': mechanism})
    count(res, 'failures_total')


def merge(results):
    out = new_result()
    nt = set()
    for r in results:
        out['evaluations'] += r.get('evaluations', 0)
        nt.update(r.get('nontrivial', ()))
        for k, v in r.get('counters', {}).items():
            out['counters'][k] = out['counters'].get(k, 0) + v
        for k, v in r.get('sets', {}).items():
            s = out['sets'].setdefault(k, [])
            for x in v:
                if x not in s:
                    s.append(x)
        for s in r.get('samples', ()):
            if len(out['samples']) < 8:
                out['samples'].append(s)
        out['failures'].extend(r.get('failures', ()))
        out['inconclusive'].extend(r.get('inconclusive', ()))
        if r.get('exhaustive') is not None:
            out['exhaustive'] = r['exhaustive'] if out['exhaustive'] is None else (out['exhaustive'] and r['exhaustive'])
    out['nontrivial'] = sorted(nt)
    return out


def load_known():
    p = os.path.join(env.VERIF, 'known_findings.json')
    with open(p) as f:
        return json.load(f)


def _jsonable(x):
    if isinstance(x, bytes):
        return x.decode('latin-1')
    if isinstance(x, (set, frozenset, tuple)):
        return [_jsonable(v) for v in x]
    if isinstance(x, list):
        return [_jsonable(v) for v in x]
    if isinstance(x, dict):
        return {str(k): _jsonable(v) for k, v in x.items()}
    if isinstance(x, (str, int, float, bool)) or x is None:
        return x
    return repr(x)


def run_shard_process(prop, spec, outpath):
    """Entry point of a worker process."""
    mod = importlib.import_module(f'hidverif.checks.{prop.lower()}')
    reached = set()
    cov_on = False
    try:
        # M-COV: which functions of the compiler under test did this shard's workload enter?
        # (sys.monitoring PY_START, each code object disabled after its first hit: negligible cost)
        mon = sys.monitoring
        mon.use_tool_id(4, 'hidverif-cov')

        def _start(code, offset):
            fn = code.co_filename
            if fn.startswith(env.REPO + os.sep) and os.sep + 'hidc' + os.sep in fn:
                reached.add(fn[len(env.REPO) + 1:].replace(os.sep, '/')[5:-3] + ':' + code.co_qualname)
            return mon.DISABLE
        mon.register_callback(4, mon.events.PY_START, _start)
        mon.set_events(4, mon.events.PY_START)
        cov_on = True
    except Exception:  # noqa  (older interpreter: coverage evidence is simply absent)
        pass
    try:
        env.load()
        from .svm import selfcheck
        selfcheck.run()
        res = mod.run_shard(spec)
    except env.MachineryError as e:
        res = new_result()
        res['inconclusive'].append(f'machinery: {e}')
    except Exception as e:  # noqa
        # an exception that escapes a check: if it was raised inside the compiler under test it is an observation about the
        # compiler (an internal error on input the check considers compilable), not a harness failure
        import traceback
        tb = traceback.extract_tb(e.__traceback__)
        inner = tb[-1] if tb else None
        in_hidc = inner is not None and inner.filename.startswith(env.REPO + os.sep) and os.sep + 'hidc' + os.sep in inner.filename
        if not in_hidc:
            raise
        res = new_result()
        res['evaluations'] = 1
        fail(res, 'M-EXC', f'{type(e).__name__}: {e} raised in {inner.filename[len(env.REPO) + 1:]}:{inner.lineno} ({inner.name}) while the check was compiling its workload',
             {'shard': spec, 'traceback': ''.join(traceback.format_tb(e.__traceback__))[-1500:]})
    if cov_on:
        sys.monitoring.set_events(4, 0)
        res.setdefault('sets', {})['hidc_functions_entered'] = sorted(reached)
    with open(outpath, 'w') as f:
        json.dump(_jsonable(res), f)


def run_check(prop, tier, seed, jobs=NCPU):
    t0 = time.time()
    mod = importlib.import_module(f'hidverif.checks.{prop.lower()}')
    specs = mod.plan(tier, seed)
    scratch_root = os.path.join(env.VERIF, '.scratch')
    os.makedirs(scratch_root, exist_ok=True)
    scratch = tempfile.mkdtemp(prefix=f'{prop}-', dir=scratch_root)
    results = []
    inconclusive = []
    try:
        pending = list(enumerate(specs))
        running = []
        wenv = dict(os.environ)
        wenv['PYTHONHASHSEED'] = '0'
        wenv['PYTHONPATH'] = env.VERIF + os.pathsep + wenv.get('PYTHONPATH', '')
        wenv['HIDVERIF_SCRATCH'] = scratch
        wenv[env.GUARD] = '1'
        while pending or running:
            while pending and len(running) < jobs:
                i, spec = pending.pop(0)
                sp = os.path.join(scratch, f'spec{i}.json')
                op = os.path.join(scratch, f'out{i}.json')
                with open(sp, 'w') as f:
                    json.dump(spec, f)
                lg = open(os.path.join(scratch, f'log{i}.txt'), 'w')
                p = subprocess.Popen([sys.executable, '-X', 'faulthandler', '-m', 'hidverif', 'shard', prop, sp, op],
                                     cwd=env.VERIF, env=wenv, stdout=lg, stderr=subprocess.STDOUT)
                running.append((i, p, op, time.time(), lg))
            time.sleep(0.02)
            still = []
            for i, p, op, ts, lg in running:
                rc = p.poll()
                if rc is None:
                    if time.time() - ts > SHARD_TIMEOUT:
                        p.kill()
                        p.wait()
                        lg.close()
                        inconclusive.append(f'shard {i}: wall-clock watchdog ({SHARD_TIMEOUT}s)')
                    else:
                        still.append((i, p, op, ts, lg))
                    continue
                lg.close()
                if rc != 0 or not os.path.exists(op):
                    with open(lg.name) as f:
                        tail = f.read()[-1500:]
                    inconclusive.append(f'shard {i}: worker exited {rc}: {tail}')
                else:
                    with open(op) as f:
                        results.append(json.load(f))
            running = still
    finally:
        shutil.rmtree(scratch, ignore_errors=True)
    merged = merge(results)
    merged['inconclusive'].extend(inconclusive)
    if hasattr(mod, 'finish'):
        mod.finish(merged, tier, seed)
    return conclude(mod, merged, tier, seed, time.time() - t0)


def conclude(mod, merged, tier, seed, wall):
    prop = mod.PROPERTY
    known = [k for k in load_known().get('findings', []) if k.get('property') == prop]
    known_open = {k['mechanism']: k for k in known if k.get('status') == 'known'}
    violations = []
    seen_known = {}
    for f in merged['failures']:
        mech = f.get('mechanism')
        if mech and mech in known_open:
            seen_known.setdefault(mech, []).append(f)
        else:
            violations.append(f)
    # replay files
    outbase = os.environ.get('HIDVERIF_OUT') or env.VERIF      # self-tests against mutants write elsewhere
    rdir = os.path.join(outbase, 'replays', prop)
    lines = []
    vkeys = set()
    for f in violations:
        key = case_id(f['monitor'], f['message'][:80], json.dumps(f['case'], sort_keys=True, default=str))
        if key in vkeys:
            continue
        vkeys.add(key)
        if len(vkeys) > 25:
            continue
        os.makedirs(rdir, exist_ok=True)
        path = os.path.join(rdir, key + '.json')
        with open(path, 'w') as fh:
            json.dump({'property': prop, 'tier': tier, 'seed': seed, **f}, fh, indent=1, default=str)
        lines.append(f'VIOLATION property={prop} replay={path}')
        print(f'  [{f["monitor"]}] {f["message"][:300]}')
    for mech, fs in seen_known.items():
        print(f'KNOWN-FINDING: property={prop} {mech}: {known_open[mech]["what"]} (observed {len(fs)}x this run)')
    nt = len(merged['nontrivial'])
    need = mod.MIN_NONTRIVIAL.get(tier, 2)
    inconc = list(merged['inconclusive'])
    if nt < need:
        inconc.append(f'deciding monitor reached only {nt} distinct non-trivial cases (< {need})')
    coverage = {
        'evaluations': merged['evaluations'],
        'distinct_nontrivial': nt,
        'rule': mod.RULE,
        'samples': merged['samples'][:8] or ['(no sample recorded)'],
        'counters': merged['counters'],
        'observed': {k: (v if len(v) <= 60 else v[:60] + [f'... {len(v) - 60} more']) for k, v in merged['sets'].items()},
        'known_findings_observed': {m: len(fs) for m, fs in seen_known.items()},
        'inconclusive_reasons': inconc[:10],
    }
    if merged['exhaustive'] is not None:
        coverage['exhaustive'] = bool(merged['exhaustive'])
    entered = merged['sets'].get('hidc_functions_entered')
    if entered is not None:
        coverage['hidc_functions_entered_count'] = len(entered)
        coverage['observed']['hidc_functions_entered'] = entered          # the full list: it is the M-COV evidence
        missing = [f for f in getattr(mod, 'REQUIRED_HIDC_FUNCTIONS', ()) if f not in entered]
        if missing:
            inconc.append(f'the workload never entered the compiler functions that decide this property: {missing}')
            coverage['inconclusive_reasons'] = inconc[:10]
    evidence = {
        'property_id': prop, 'tier': tier, 'seed': int(seed), 'level': getattr(mod, 'LEVEL', 'exploration'),
        'coverage': coverage, 'assumptions': list(mod.ASSUMPTIONS), 'wall_s': round(wall, 2),
        'violations': len(vkeys),
    }
    os.makedirs(os.path.join(outbase, 'evidence'), exist_ok=True)
    with open(os.path.join(outbase, 'evidence', f'{prop}.json'), 'w') as fh:
        json.dump(_jsonable(evidence), fh, indent=1)
    cs = ' '.join(f'{k}={v}' for k, v in sorted(merged['counters'].items()))
    print(f'{prop} {tier} seed={seed}: evaluations={merged["evaluations"]} distinct_nontrivial={nt} '
          f'violations={len(vkeys)} wall={wall:.1f}s')
    print(f'  counters: {cs}')
    if lines:
        for ln in lines:
            print(ln)
        return 1
    if inconc:
        for r in inconc[:10]:
            print(f'INCONCLUSIVE property={prop} reason={r[:1000]}')
        return 2
    return 0
