"""M-ESC: contract on the real hidc.codegen.asm._escape_bytes, attached from
the harness: for every call, decoding the result with the SVM assembler's
escape decoder gives back the data, and the result contains no raw quote,
newline or non-printable byte."""
from ..svm.asm import decode_escapes, AsmError


class EscState:
    calls = 0
    violations = []


def attach():
    from hidc.codegen import asm
    if getattr(asm._escape_bytes, '_hidverif', False):
        return EscState
    real = asm._escape_bytes

    def checked(data, quote):
        out = real(data, quote)
        EscState.calls += 1
        try:
            back = decode_escapes(out, 'M-ESC')
            ok = back == bytes(data)
            why = f'decodes to {back!r}'
        except AsmError as e:
            ok, why = False, str(e)
        if ok:
            # no raw quote / control byte may remain
            i = 0
            while i < len(out):
                if out[i] == 0x5c:
                    i += 4 if out[i + 1:i + 2] == b'x' else 2
                    continue
                if out[i] in quote or not (0x20 <= out[i] <= 0x7e):
                    ok, why = False, f'raw byte {out[i]:#x} in the escaped text'
                    break
                i += 1
        if not ok and len(EscState.violations) < 20:
            EscState.violations.append((bytes(data), bytes(quote), bytes(out), why))
        return out
    checked._hidverif = True
    asm._escape_bytes = checked
    return EscState
