"""Shared pieces of the check modules."""
import random

from .. import diff, runner
from ..model import ast as A

ISA_ASSUMPTIONS = [
    'The verification Sphinx VM is a reconstruction (the real spasm emulator is absent): calibrated on the '
    '52 upstream test_codegen.py expectations and 9 hand-written conformance cases; little-endian, '
    'unaligned byte-addressed state/const, code addresses are instruction indices',
    'div/mod on negative operands round like Python (// and %), the only choice consistent with the '
    "compiler's own constant folding",
    'asl/asr amounts are 0..7 in emitted code; .arg integers are supplied in range; running off the end '
    'of the code is a halt',
    'RefInt is my reading of README.rst + upstream tests (left-to-right evaluation, index checked before '
    'the right-hand side, b evaluated before a in a ?? b)',
]

WORDS_ALL = (2, 3, 4)


def shard_seeds(seed, n):
    return [seed * 1000 + i for i in range(n)]


def side_observe(res, run):
    """count monitor traffic and side observations of one VM run"""
    o = run.outcome
    runner.count(res, 'vm_runs')
    runner.count(res, 'vm_steps', o.steps)
    runner.count(res, 'backtracks', o.backtracks)
    runner.count(res, 'speculative_halts_averted', o.spec_halts)
    for m in run.mon or ():
        for k, v in getattr(m, 'counts', {}).items():
            runner.count(res, 'access_' + k, v)
        for k, v in getattr(m, 'stats', {}).items():
            runner.count(res, 'bal_' + k, v)
    for r in o.reports:
        runner.count(res, 'side_reports_' + r[1])


def twin_triage(prog, args, word, stack, unchecked, ref, max_steps):
    """M-DIFF fired on the plain rendering: re-render with opaque literals.
    Returns 'fold' if the twin agrees with the model (the disagreement is due
    to compile-time evaluation), 'real' otherwise."""
    src = A.render(prog, opaque=True)
    run = diff.compile_and_run(src, args, word=word, stack=stack, unchecked=unchecked, max_steps=max_steps)
    if run.kind != 'ok':
        return 'real'
    return 'fold' if diff.compare_streams(ref, run.outcome) is None else 'real'


def tight_stacks(rng, k=2):
    return rng.sample([24, 40, 64, 100, 160, 300, 700], k)


def overflow_prefix_ok(ref, o):
    """tight-stack rule for programs without time travel: the outcome is the
    model's, or a prefix of the model's output followed by stack_overflow, error"""
    if o.klass != 'ERROR:stack_overflow':
        return False
    if o.flags != ['stack_overflow', 'error'] and o.flags[-2:] != ['stack_overflow', 'error']:
        return False
    pre = [e for e in o.stream if not (e[0] == 'flag' and e[1] in ('stack_overflow', 'error'))]
    rs = ref.stream
    # pre must be a prefix of the model stream (last out chunk may be partial)
    for i, e in enumerate(pre):
        if i >= len(rs):
            return False
        if e == rs[i]:
            continue
        if i == len(pre) - 1 and e[0] == 'out' and rs[i][0] == 'out' and rs[i][1].startswith(e[1]):
            continue
        return False
    return True
