"""Shared pieces of the check modules."""
import random

from .. import diff, runner
from ..model import ast as A

ISA_ASSUMPTIONS = [
    'The verification Sphinx VM is a reconstruction (the real spasm emulator is absent): calibrated on the '
    '52 upstream test_codegen.py expectations and 9 hand-written conformance cases; little-endian, '
    'unaligned byte-addressed state/const, code addresses are instruction indices',
    'div/mod on negative operands round like Python (// and %), the only choice consistent with the '
    "compiler's own constant folding",
    'asl/asr amounts are 0..7 in emitted code; .arg integers are supplied in range; running off the end '
    'of the code is a halt',
    'RefInt is my reading of README.rst + upstream tests (left-to-right evaluation, index checked before '
    'the right-hand side, b evaluated before a in a ?? b)',
]

WORDS_ALL = (2, 3, 4)
ODD_WORDS = (6, 5, 7, 12, 16)      # -m 48, 40, 56, 96, 128: word sizes that are not a power of two bytes (strides that a shift cannot produce)


def shard_seeds(seed, n):
    return [seed * 1000 + i for i in range(n)]


def side_observe(res, run):
    """count monitor traffic and side observations of one VM run"""
    o = run.outcome
    runner.count(res, 'vm_runs')
    runner.count(res, 'vm_steps', o.steps)
    runner.count(res, 'backtracks', o.backtracks)
    runner.count(res, 'speculative_halts_averted', o.spec_halts)
    for m in run.mon or ():
        for k, v in getattr(m, 'counts', {}).items():
            runner.count(res, 'access_' + k, v)
        for k, v in getattr(m, 'stats', {}).items():
            runner.count(res, 'bal_' + k, v)
    for r in o.reports:
        runner.count(res, 'side_reports_' + r[1])


def twin_triage(prog, args, word, stack, unchecked, ref, max_steps):
    """M-DIFF fired on the plain rendering: re-render with opaque literals.
    Returns 'fold' if the twin agrees with the model (the disagreement is due
    to compile-time evaluation), 'real' otherwise."""
    src = A.render(prog, opaque=True)
    run = diff.compile_and_run(src, args, word=word, stack=stack, unchecked=unchecked, max_steps=max_steps)
    if run.kind != 'ok':
        return 'real'
    return 'fold' if diff.compare_streams(ref, run.outcome) is None else 'real'


def tight_stacks(rng, k=2):
    return rng.sample([24, 40, 64, 100, 160, 300, 700], k)


def overflow_prefix_ok(ref, o):
    """tight-stack rule for programs without time travel: the outcome is the
    model's, or a prefix of the model's output followed by stack_overflow, error"""
    if o.klass != 'ERROR:stack_overflow':
        return False
    if o.flags != ['stack_overflow', 'error'] and o.flags[-2:] != ['stack_overflow', 'error']:
        return False
    pre = [e for e in o.stream if not (e[0] == 'flag' and e[1] in ('stack_overflow', 'error'))]
    rs = ref.stream
    # pre must be a prefix of the model stream (last out chunk may be partial)
    for i, e in enumerate(pre):
        if i >= len(rs):
            return False
        if e == rs[i]:
            continue
        if i == len(pre) - 1 and e[0] == 'out' and rs[i][0] == 'out' and rs[i][1].startswith(e[1]):
            continue
        return False
    return True


SCALE_STACK = 20000        # words; 12000 at word size 2, where the whole state must stay below 32 KiB
SCALE_STEPS = 3_000_000


def scale_items(families=None):
    """(k, tag, prog, argsets) over the scale grids of gen/scale.py, numbered for sharding"""
    from ..gen import scale
    k = 0
    fams = scale.all_families() + ((scale.many_tries_programs, scale.TRIES_ARGS),)
    for gen, argsets in fams:
        if families and not any(f in gen.__name__ for f in families):
            continue
        for tag, prog in gen():
            yield k, tag, prog, argsets
            k += 1
    if not families or 'entry' in families:
        for tag, prog, args in scale.many_entry_programs():
            yield k, tag, prog, [args]
            k += 1


def check_scale(res, prog, args, word, tag, unchecked=False, monitors=('san', 'bal', 'fall'), src=None):
    """one scale-grid program: committed SVM stream against RefInt (M-DIFF) and, for the monitor kinds listed, any report
    on the committed timeline (M-SAN / M-BAL / M-FALL).  Returns True if the run was judged and clean."""
    src = src or A.render(prog)
    res['evaluations'] += 1
    stack = 12000 if word == 2 else SCALE_STACK
    case = diff.case_dict(src, args, word, stack, unchecked=unchecked, gen='scale:' + tag)
    ref, why = diff.model_run(prog, args, word, checked=not unchecked, stack_bytes=stack * word, safe_array_bytes=stack * word // 2)
    run = diff.compile_and_run(src, args, word=word, stack=stack, unchecked=unchecked, max_steps=SCALE_STEPS)
    if run.kind != 'ok':
        runner.fail(res, {'reject': 'M-DIFF', 'internal': 'M-EXC', 'asm': 'M-ASM'}[run.kind], f'scale {tag}: {run.kind}: {run.detail}', case)
        return False
    o = run.outcome
    side_observe(res, run)
    for r in o.reports:
        if r[1] in monitors:
            runner.fail(res, 'M-' + r[1].upper(), f'scale {tag}: {r[2]} (asm line {r[4]})', case, observed=o.brief())
            return False
    if o.klass in ('HALT', 'TRAP'):
        runner.fail(res, 'M-HALT', f'scale {tag}: VM {o.klass} pc={o.halt_pc} {o.trap}', case, observed=o.brief())
        return False
    if ref is None or o.klass == 'TIMEOUT':
        runner.count(res, 'model_skips' if ref is None else 'vm_timeouts')
        return False
    msg = diff.compare_streams(ref, o)
    if msg:
        runner.fail(res, 'M-DIFF', f'scale {tag}: {msg}', case, expected=ref.brief(), observed=o.brief())
        return False
    runner.count(res, 'scale_agree_' + tag.split('/')[0])
    res['nontrivial'].append(runner.case_id(src, args, word, unchecked))
    return True
