"""C11 - expressions group by the documented precedence and associativity.

Oracle: the tree hidc.parser.parse returns (converted to an S-expression by a
visitor) against an independent precedence-climbing parser built from the
README table, exhaustively for all operator pairs and triples with unary/`is`/
postfix forms interleaved and every parenthesisation; and the round trip
parse(print_min(t)) == t on random trees to depth 6."""
import itertools
import random

from .. import env, runner
from ..model import precparse as P

PROPERTY = 'C11'
LEVEL = 'exploration'
RULE = ('exhaustive: every ordered pair and triple of the 16 binary operators (incl. ??) in flat form `a op1 b op2 c [op3 d]`, every pair with '
        'parentheses at each position, every unary operator before each operand, `is T` after each operand, postfix [i]/.length on each operand; '
        'random: expression trees to depth 6 over all operators, postfix forms, calls, literals, printed with minimal and with redundant '
        'parentheses; a case is one expression text; all cases are non-trivial (>= 2 operators); distinct by text')
ASSUMPTIONS = ['the expected grouping is the table in README.rst "Operators" (unary, is, * / %, + -, comparisons and equality, and, or, ??), '
               'left associativity within a level, ?? and `is` not chainable without parentheses']
REQUIRED_HIDC_FUNCTIONS = ['parser/grammar:bin_op', 'parser/grammar:ps_expr3']     # M-COV: deciding code never entered => inconclusive
MIN_NONTRIVIAL = {'quick': 5000, 'thorough': 40000}


def plan(tier, seed):
    specs = [{'kind': 'pairs'}, {'kind': 'long'}]
    for i in range(8):
        specs.append({'kind': 'triples', 'part': i, 'parts': 8})
    n, per = (6, 1500) if tier == 'quick' else (16, 6000)
    for j in range(n):
        specs.append({'kind': 'random', 'seed': seed * 1000 + j, 'count': per})
    return specs


def compact(text):
    """the same expression without the optional blanks: a blank stays only between two word characters (`a is byte`,
    `not x`); `a - -b` becomes `a--b`, `a + +b` becomes `a++b`"""
    import re
    if '"' in text or "' '" in text:
        return text
    return re.sub(r'(?<![\w\']) +| +(?![\w\'])', '', text)


def check(res, text, seen, also_compact=True):
    if also_compact:
        c = compact(text)
        if c != text:
            check(res, c, seen, False)
    if text in seen:
        return
    seen.add(text)
    res['evaluations'] += 1
    CompilerError, _ = env.compiler_error_types()
    try:
        want = ('ok', P.ref_parse(text))
    except P.RefSyntaxError as e:
        want = ('reject', str(e))
    try:
        got = ('ok', P.hidc_parse_expr(text))
    except CompilerError as e:
        got = ('reject', f'{type(e).__name__}: {e}')
    except RecursionError:
        got = ('reject', 'RecursionError')
    except Exception as e:  # noqa
        runner.fail(res, 'M-EXC', f'{type(e).__name__}: {e}', {'expr': text})
        return
    res['nontrivial'].append(runner.case_id(text))
    if want[0] != got[0]:
        runner.fail(res, 'M-TREE', f'{text!r}: reference {want[0]} ({want[1] if want[0] == "reject" else ""}) but hidc {got[0]} ({got[1] if got[0] == "reject" else ""})',
                    {'expr': text}, expected=str(want[1]), observed=str(got[1]))
        return
    if want[0] == 'ok':
        if want[1] != got[1]:
            runner.fail(res, 'M-TREE', f'{text!r} groups differently', {'expr': text}, expected=str(want[1]), observed=str(got[1]))
            return
        runner.count(res, 'trees_agree')
        # the grouping of an expression does not depend on where it stands: loop body of a you-function; ordinary functions
        # (when it contains no ??)
        for ctx in (('you_loop',) if '??' in text else ('you_loop', 'func', 'func_loop')):
            try:
                other = P.hidc_parse_expr(text, ctx)
            except Exception as e:  # noqa
                if '@' in text or '!' in text.replace('!=', ''):
                    continue            # flavoured calls are not legal everywhere
                runner.fail(res, 'M-TREE', f'{text!r} parses in a you-function but not in context {ctx}: {type(e).__name__}: {e}', {'expr': text, 'context': ctx})
                return
            if other != got[1]:
                runner.fail(res, 'M-TREE', f'{text!r} groups differently in context {ctx}', {'expr': text, 'context': ctx}, expected=str(got[1]), observed=str(other))
                return
        # round trip of the minimal print
        back = P.show(got[1])
        try:
            again = P.hidc_parse_expr(back)
        except Exception as e:  # noqa
            runner.fail(res, 'M-ROUNDTRIP', f'minimal print {back!r} of the tree of {text!r} does not parse: {e}', {'expr': text, 'printed': back})
            return
        if again != got[1]:
            runner.fail(res, 'M-ROUNDTRIP', f'parse(print_min(t)) != t for {text!r} (printed {back!r})', {'expr': text, 'printed': back},
                        expected=str(got[1]), observed=str(again))
    else:
        runner.count(res, 'both_reject')


def decorate(name, how):
    if how == '': return name
    if how in P.UNARY: return f'{how} {name}'
    if how == 'is': return f'{name} is byte'
    if how == 'idx': return f'{name}[i]'
    if how == 'len': return f'{name}.length'
    if how == 'call': return f'{name}(p, q)'
    if how == 'un2': return f'not - {name}'
    if how == 'unis': return f'- {name} is int'
    raise ValueError(how)


DECOR = ['', '+', '-', 'not', 'is', 'idx', 'len', 'call', 'un2', 'unis']


def rand_tree(r, d):
    if d <= 0 or r.random() < 0.15:
        c = r.random()
        if c < 0.5: return ('var', r.choice('abcdxyz'))
        if c < 0.7: return ('int', r.randint(0, 99))
        if c < 0.8: return ('bool', r.random() < 0.5)
        if c < 0.9: return ('char', ord(r.choice('qrs')))
        return ('str', r.choice([b'', b'hi']))
    c = r.random()
    if c < 0.5:
        return ('bin', r.choice(P.BINOPS[1:]), rand_tree(r, d - 1), rand_tree(r, d - 1))
    if c < 0.65:
        return ('un', r.choice(P.UNARY), rand_tree(r, d - 1))
    if c < 0.73:
        return ('is', rand_tree(r, d - 1), r.choice(P.TYPES))
    if c < 0.81:
        return ('idx', rand_tree(r, d - 1), rand_tree(r, d - 1))
    if c < 0.86:
        return ('len', rand_tree(r, d - 1))
    if c < 0.92:
        return ('call', r.choice(['f', 'g']), [rand_tree(r, d - 1) for _ in range(r.randint(0, 3))])
    if c < 0.96:
        return ('arr', [rand_tree(r, d - 1) for _ in range(r.randint(0, 3))])
    return ('spec', rand_tree(r, d - 1), rand_tree(r, d - 1))


def value_chains(res):
    """what the compiled code COMPUTES for chains of two operators with constant right operands (x op c1 op c2), for every pair
    of arithmetic operators and both parenthesisations: the value follows the parse tree (left to right), also after constant merging"""
    from .. import diff
    ops = ['+', '-', '*', '/', '%']
    consts = [(1, 2), (3, 3), (10, 4), (0, 1), (7, 5)]
    lines, exp = [], []

    def ev(op, a, b):
        if op == '+': return a + b
        if op == '-': return a - b
        if op == '*': return a * b
        if b == 0: return None
        return a // b if op == '/' else a % b
    for x in (10, -7, 100):
        for o1 in ops:
            for o2 in ops:
                for c1, c2 in consts:
                    for shape in ('bare', 'left', 'right'):
                        nm = f'n{"m" if x < 0 else ""}{abs(x)}'
                        tight = lambda o: o in '*/%'          # noqa: E731
                        left_val = (lambda: None if ev(o1, x, c1) is None else ev(o2, ev(o1, x, c1), c2))
                        right_val = (lambda: None if ev(o2, c1, c2) is None else ev(o1, x, ev(o2, c1, c2)))
                        if shape == 'bare':
                            text = f'{nm} {o1} {c1} {o2} {c2}'
                            val = right_val() if (tight(o2) and not tight(o1)) else left_val()       # same level: left to right
                        elif shape == 'left':
                            text = f'({nm} {o1} {c1}) {o2} {c2}'
                            val = left_val()
                        else:
                            text = f'{nm} {o1} ({c1} {o2} {c2})'
                            val = right_val()
                        if val is None or abs(val) > 30000:
                            continue
                        lines.append(f'write({text}); write(\' \');')
                        exp.append(str(val))
    src = 'empty @is_you(int n10, int nm7, int n100) {\n    ' + '\n    '.join(lines) + '\n}\n'
    run = diff.compile_and_run(src, ['10', '-7', '100'], word=2, max_steps=5_000_000, monitors=False)
    res['evaluations'] += len(lines)
    if run.kind != 'ok':
        runner.fail(res, 'M-EXC', f'value chains: {run.kind}: {run.detail}', {'source': src[:3000]})
        return
    got = run.outcome.out.decode('latin-1').split()
    for i, (g, w) in enumerate(zip(got, exp)):
        if g != w:
            runner.fail(res, 'M-TREE', f'`{lines[i][6:-13]}` with n10=10, nm7=-7, n100=100 computes {g}, its tree gives {w}', {'expr': lines[i][6:-13]}, expected=w, observed=g)
            return
    if len(got) != len(exp) or run.outcome.klass != 'WIN':
        runner.fail(res, 'M-TREE', f'value chains: {len(got)} of {len(exp)} values printed, run ends {run.outcome.klass}', {'source': src[:3000]})
        return
    runner.count(res, 'chain_values_agree', len(exp))


def run_shard(spec):
    try:
        P.parse_prelude()        # a whole program first: statement parsing must leave the expression grammar as it was
    except Exception as e:  # noqa
        res = runner.new_result()
        runner.fail(res, 'M-EXC', f'the statement prelude does not parse: {type(e).__name__}: {e}', {'source': P.PRELUDE})
        return res
    return _run_shard(spec)


def _run_shard(spec):
    res = runner.new_result()
    seen = set()
    ops = P.BINOPS
    if spec['kind'] == 'pairs':
        value_chains(res)
        for o1, o2 in itertools.product(ops, ops):
            for da, db, dc in itertools.product(DECOR, DECOR, DECOR):
                if sum(x != '' for x in (da, db, dc)) > 1:
                    continue
                a, b, c = decorate('a', da), decorate('b', db), decorate('c', dc)
                check(res, f'{a} {o1} {b} {o2} {c}', seen)
            check(res, f'(a {o1} b) {o2} c', seen)
            check(res, f'a {o1} (b {o2} c)', seen)
            check(res, f'(a {o1} b {o2} c)', seen)
            check(res, f'f(a {o1} b, c {o2} d)[a {o1} b {o2} c]', seen)
        for u1, u2 in itertools.product(P.UNARY, P.UNARY):
            check(res, f'{u1} {u2} a', seen)
            for o in ops:
                check(res, f'{u1} a {o} {u2} b', seen)
                check(res, f'{u1} (a {o} b)', seen)
                check(res, f'{u1} a is int {o} b', seen)
        check(res, 'a is int is byte', seen)
        check(res, '(a is int) is byte', seen)
        res['exhaustive'] = True
        res['samples'].append({'pairs': ['a + b * c', '- a is int == b', 'a ?? b ?? c (must be rejected)']})
    elif spec['kind'] == 'long':
        # chains of 10-150 operators of one level (and of mixed levels): grouping is left to right at every length, in the tree and in the value
        from .. import diff
        r = random.Random(11)
        names = 'abcd'
        for n in (10, 31, 32, 33, 63, 64, 65, 66, 67, 68, 100, 127, 128, 129, 150):
            for opset in (('+', '-'), ('*', '/', '%'), ('*',), ('+',), ('and',), ('or',), ('and', 'or'), ('==', '!='), ('<', '>='), ('+', '*', '-', '/'), ('or', 'and', '==', '<', '+', '*')):
                for variant in range(2):
                    parts = [names[0]]
                    for i in range(n):
                        parts += [opset[(i + variant) % len(opset)] if variant == 0 else r.choice(opset), names[(i + 1) % 4]]
                    check(res, ' '.join(parts), seen, also_compact=False)
        lines, exp = [], []
        for n in (20, 63, 64, 65, 66, 67, 70, 100, 129):
            for tail in ('* 7 / 2', '* 7 % 4', '+ 7 - 2', '- 7 + 2', '/ 2 * 3', '* 3 / 2 * 5 / 3'):
                for lead_op, unit in (('*', 1), ('+', 0), ('-', 0)):
                    text = 'x ' + ' '.join(f'{lead_op} {unit}' for _ in range(n)) + ' ' + tail
                    lines.append(f"write({text}); write(' ');")
                    # (the documented levels and left-to-right grouping of + - * / % coincide with Python's; all values here are non-negative)
                    exp.append(str(eval(text.replace('/', '//'), {'x': 3})))
        src = 'empty @is_you(int x) {\n    ' + '\n    '.join(lines) + '\n}\n'
        run = diff.compile_and_run(src, ['3'], word=2, max_steps=5_000_000, monitors=False)
        res['evaluations'] += len(lines)
        if run.kind != 'ok':
            runner.fail(res, 'M-EXC', f'long value chains: {run.kind}: {run.detail}', {'source': src[:3000]})
        else:
            got = run.outcome.out.decode('latin-1').split()
            bad = [i for i, (g, w) in enumerate(zip(got, exp)) if g != w]
            if bad or len(got) != len(exp):
                i = bad[0] if bad else 0
                runner.fail(res, 'M-TREE', f'a chain of {lines[i].count(" 1 ") + lines[i].count(" 0 ")} unit operations followed by `{lines[i].split(" 1 ")[-1].split(" 0 ")[-1][:30]}` with x=3 computes {got[i] if i < len(got) else None}, '
                                           f'the documented grouping gives {exp[i]}', {'source': src[:200] + '...', 'expr': lines[i][:4000]}, expected=exp[i], observed=got[i] if i < len(got) else None)
            else:
                runner.count(res, 'long_chain_values_agree', len(exp))
    elif spec['kind'] == 'triples':
        k = 0
        for o1, o2, o3 in itertools.product(ops, ops, ops):
            k += 1
            if k % spec['parts'] != spec['part']:
                continue
            check(res, f'a {o1} b {o2} c {o3} d', seen)
            check(res, f'a {o1} (b {o2} c) {o3} d', seen)
            check(res, f'not a {o1} - b {o2} c is bool {o3} d[0]', seen)
        res['exhaustive'] = True
        res['samples'].append({'triples': ['a or b and c == d', 'a - b - c * d']})
    else:
        r = random.Random(spec['seed'])
        for i in range(spec['count']):
            t = rand_tree(r, r.randint(2, 6))
            text = P.show(t) if i % 2 else P.show(t, r)
            check(res, text, seen)
            if len(res['samples']) < 2:
                res['samples'].append({'random_tree_text': text})
    return res
