"""C15 - --unchecked changes nothing on fault-free runs.

Oracle: M-DIFF between the committed SVM timelines of the checked and the
unchecked build of the same program (no reference model needed); M-HALT and
traps on the unchecked run as additional observations."""
import random

from .. import diff, runner
from ..gen.progs import ProgGen
from ..gen.timegen import TimeGen
from ..model import ast as A
from ..gen import memprogs
from ..monitors.guards import GuardMonitor
from ..svm.vm import FAULT_FLAGS, VM, Monitor, Outcome
from ..svm.asm import assemble
from . import common

PROPERTY = 'C15'
RULE = ('random sequential, deep and time-travel programs with inputs, word sizes 2,3,4, generous stack: the checked '
        'build is run first; if its committed timeline carries no fault flag the unchecked build of the same source must '
        'produce the identical timeline; non-trivial = the checked run executed at least one index, division or length '
        'guard or a protected return besides the function-entry guards; distinct by hash of (source, args, word); a third of the pairs and all memory templates '
        '(arrays live across loops, early exits and defeat) are compared again at the smallest stacks at which the checked build explores no fault on any timeline; '
        'exit-shape programs (terminal calls included) and guarded constant out-of-range accesses are compiled in both builds: a program whose checked '
        'build runs fault-free must also have an unchecked build')
ASSUMPTIONS = common.ISA_ASSUMPTIONS[:3]
REQUIRED_HIDC_FUNCTIONS = ['codegen/generator:CodeGen.check_index', 'codegen/generator:CodeGen.arith_op_reg_arg']     # M-COV: deciding code never entered => inconclusive
MIN_NONTRIVIAL = {'quick': 200, 'thorough': 2000}
MAX_STEPS = 500_000


def plan(tier, seed):
    n, per = (16, 40) if tier == 'quick' else (64, 120)
    specs = [{'kind': 'gen', 'seed': s, 'count': per} for s in common.shard_seeds(seed, n)]
    # the operator / cast grid of C09 in every usage position, both builds
    for word in (2, 3):
        specs.append({'kind': 'grid', 'word': word, 'tier': tier})
    parts = 4 if tier == 'quick' else 8
    specs += [{'kind': 'cli', 'part': i, 'parts': 2} for i in range(2)]
    for p in range(parts):
        specs.append({'kind': 'templates', 'seed': seed, 'part': p, 'parts': parts, 'words': [2] if tier == 'quick' else [2, 3, 4]})
    return specs


class AnyTimelineFault(Monitor):
    """fault stubs entered on *any* timeline, committed or not (deliberately not rolled back)"""
    name = 'anyfault'

    def attach(self, vm):
        self.vm = vm
        self.stub = {a: n for n, (s, a) in vm.p.labels.items() if s == 'code' and n in FAULT_FLAGS}
        vm.watch |= set(self.stub)
        self.ever = set()

    def on_arrive(self, pc, jumped_from):
        n = self.stub.get(pc)
        if n is not None:
            self.ever.add(n)


def run_any(lines, args):
    prog = assemble(lines, args)
    f = AnyTimelineFault()
    vm = VM(prog, MAX_STEPS, [f])
    vm.run()
    return Outcome(vm), f.ever


def tight(res, lc, lu, args, G, case):
    """the same comparison at the smallest stacks at which the checked build is still fault-free on every timeline it
    explores: whatever the unchecked build keeps differently in memory (a word it does not give back, a frame laid out
    differently) becomes output there.  Returns False after a failure."""
    from .c04 import with_stack

    def clean(stack):
        o, ever = run_any(with_stack(lc, stack), args)
        return o, (not ever and o.klass == G.klass and o.stream == G.stream)
    lo, hi = 0, diff.GENEROUS_STACK
    while lo + 1 < hi:
        mid = (lo + hi) // 2
        if clean(mid)[1]:
            hi = mid
        else:
            lo = mid
    runner.count(res, 'tight_searches')
    for stack in (hi, hi + 1, hi + 2, hi + 5):
        oc, ok = clean(stack)
        if not ok:
            runner.count(res, 'tight_checked_not_clean')
            continue
        ou, _ = run_any(with_stack(lu, stack), args)
        runner.count(res, 'tight_pairs_compared')
        if ou.klass == 'TIMEOUT':
            runner.count(res, 'vm_timeouts')
            continue
        if oc.stream != ou.stream or oc.klass != ou.klass:
            c = dict(case, stack=stack)
            runner.fail(res, 'M-DIFF', f'at stack {stack} (smallest fault-free stack of the checked build: {hi}) checked {oc.klass} {oc.out[-60:]!r}{oc.flags} '
                                       f'!= unchecked {ou.klass} {ou.out[-60:]!r}{ou.flags} ({ou.trap})', c, expected=oc.brief(), observed=ou.brief())
            return False
    return True


# accesses with a constant index that is out of range for a constant length, each behind a test that is never true:
# the checked build accepts them (the guard would fire if they ran); the unchecked build has to accept them too
GUARDED = '''
const string[] days = ["Mon", "Tue", "Wed"];
int[] gq = [7, 8];
empty @is_you(int n) {
    int[] a = [1, 2, 3];
    if (a.length > 3) { write(a[3]); }
    if (n > 100) { write(a[5]); a[7] = 1; a[3] += 2; }
    byte[] b = ['x'];
    if (b.length > 1) { write(b[1]); b[1] = 'y'; }
    bool[] f = [true, false];
    if (n > 100) { if (f[2]) { write('f'); } f[9] = true; }
    string s = "abc";
    if (s.length > 5) { write(s[5]); }
    if (n > 100) { write("abc"[3]); write(gq[2]); gq[2] = 1; write([1, 2][2]); }
    write(days.length);
    if (days.length > 3) { writeln(days[3]); }
    for (int i = 0; i < 2; i += 1) { if (i > 5) { write(a[4]); } }
    writeln(" ok");
}
'''


# programs built through the command-line tool (the flag reaches the compiler through hidc/__main__.py, which may treat
# the two builds differently before or after the library does): punctuation bytes, comments, shadowed constant tables
CLI_PROGRAMS = [
    ('semicolons and comment look-alikes',
     "empty @is_you() { // a comment ; with ; semicolons\n    write(';'); write(\"a;b//c\"); byte[] t = [',', ';', '/']; write(t); write(';' is int); write(\"; \\\"q;\\\" ;\");\n"
     "    if (t[1] == ';') { writeln(';'); }\n}\n", []),
    ('global constant table shadowed by parameter and local',
     "const int[] primes = [2, 3, 5, 7];\nconst byte[] tag = ['g', 'h'];\n"
     "empty show(const int[] primes) { write(primes[0]); write(','); write(primes[3]); write(' '); }\n"
     "empty showb(const byte[] tag, int k) { write(tag[0]); write(tag[k]); write(' '); }\n"
     "empty @is_you(int a, int b) {\n    show(primes); show([11, 13, 17, 19]); show([a, b, a, b]);\n    const int[] primes = [a, 31, 37, b]; write(primes[0]); write(primes[3]); write(' ');\n"
     "    showb(tag, 1); showb(['x', 'y'], 1); { const byte[] tag = [a is byte, 'z']; write(tag[1]); write(tag[0] is int); }\n    writeln();\n}\n", ['23', '29']),
    ('string data with every punctuation byte', 'empty @is_you() { writeln("!\\"#$%&\'()*+,-./:;<=>?@[\\\\]^_`{|}~"); write(\';\'); write(\'#\'); write(\'/\'); writeln(\'"\'); }\n', []),
    ('hello', 'empty @is_you() { writeln("Hello; world // not a comment"); }\n', []),
]


def cli_build(src, word, unchecked, extra=()):
    import os
    import subprocess
    import sys
    from .. import env
    scratch = os.environ.get('HIDVERIF_SCRATCH') or os.path.join(env.VERIF, '.scratch')
    d = os.path.join(scratch, f'c15cli-{os.getpid()}')
    os.makedirs(d, exist_ok=True)
    inp, out = os.path.join(d, 'in.hid'), os.path.join(d, 'out.s')
    with open(inp, 'w') as f:
        f.write(src)
    if os.path.exists(out):
        os.remove(out)
    p = subprocess.run([sys.executable, '-m', 'hidc', inp, '-o', out, '-m', str(8 * word)] + (['--unchecked'] if unchecked else []) + list(extra),
                       env=dict(os.environ, PYTHONPATH=env.REPO), capture_output=True, timeout=120)
    if p.returncode != 0 or not os.path.exists(out):
        return None, p.stderr.decode('utf-8', 'replace')[-200:]
    with open(out, 'rb') as f:
        return f.read().split(b'\n'), ''


# constant and computed indices into string literals, string variables, arguments and string-array elements (the text
# of a string starts one WORD after its label, whatever the word size)
STRING_INDEX = '''
string gs = "Sphinx";
byte pick(string s, int k) { return s[k]; }
empty @is_you(const string[] w) {
    string opt = w[0];
    write(opt[1]); write(opt[0]); write("0123456789ABCDEF"[10]); write("hello"[4]); write("hello"[0]); write(gs[5]); write(gs[0]); write(w[1][0]);
    write(pick("keke", 3)); write(pick(opt, 1)); write(' ');
    int k = 2; write("hello"[k]); write(gs[k + 1]); write(opt[k - 1]); write(("x" is byte[])[0]); write((opt is byte[])[1]); write(' ');
    write("hello".length); write(gs.length); write(opt.length); write(w[1].length);
    writeln();
}
'''


CONST_OVERLOADS = '''
int[] gm = [1, 2];
empty f(int[] a) { a[0] += 1; write("mutable "); write(a[0]); write(' '); }
empty f(const int[] a) { write("const "); write(a[0]); write(' '); }
empty g(const byte[] b) { write("cb "); write(b.length); write(' '); }
empty g(byte[] b) { b[0] = 'z'; write("mb "); write(b); write(' '); }
empty @is_you(int n) {
    int[] m = [n, 2]; const int[] c = [n, 3]; int d[2]; d[0] = n;
    f(c); f(m); f(c); f(m); f(d); f(gm); f([n, 9]);
    byte[] mb = ['a', 'b']; const byte[] cb = [n is byte, 'c']; g(cb); g(mb); g("str"); g(mb); g(cb);
    write(m[0]); write(d[0]); write(gm[0]); writeln();
}
'''

NESTED_ARRAYS = '''
int digits(int n, int depth) {
    byte buf[4];
    int[] lit = [n % 10, depth];
    buf[0] = (n % 10 + 48) is byte;
    int below = 0;
    if (n >= 10) { below = digits(n / 10, depth + 1); }
    write(buf[0]); write(lit[0]); write(lit[1]);
    return below * 10 + (buf[0] - 48);
}
empty @is_you(int n) { writeln(digits(n, 0)); int twice[3]; twice[2] = n; writeln(digits(n + 1, 0) + twice[2]); }
'''


def run_with_guards(lines, args):
    prog = assemble(lines, args)
    g = GuardMonitor()
    vm = VM(prog, MAX_STEPS, [g])
    vm.run()
    return Outcome(vm), g


def grid_sources(spec):
    from . import c09
    vals = c09.grid(8 * spec['word'], True)
    args = [str(v) for v in vals]
    yield 'unary+casts', c09.unary_program(), args
    for ta, tb in c09.COMBOS:
        yield f'arith {ta},{tb}', c09.binary_program(c09.ARITH, ta, tb, 'value'), args
        for pos in c09.POSITIONS:
            yield f'compare {ta},{tb} as {pos}', c09.binary_program(c09.CMP, ta, tb, pos), args
    for pos in c09.POSITIONS:
        yield f'bool equality as {pos}', c09.binary_program(['==', '!='], 'bool', 'bool', pos), args


def run_shard(spec):
    res = runner.new_result()
    from .. import env
    CompilerError, _ = env.compiler_error_types()
    if spec['kind'] == 'grid':
        global MAX_STEPS
        MAX_STEPS = 30_000_000
        word = spec['word']
        for tag, src, args in grid_sources(spec):
            res['evaluations'] += 1
            case = diff.case_dict(src, args, word, diff.GENEROUS_STACK, gen='grid:' + tag)
            lc = env.compile_src(src, word=word, stack=diff.GENEROUS_STACK, unchecked=False)
            lu = env.compile_src(src, word=word, stack=diff.GENEROUS_STACK, unchecked=True)
            oc, gc = run_with_guards(lc, args)
            ou, gu = run_with_guards(lu, args)
            runner.count(res, 'vm_steps', oc.steps + ou.steps)
            if oc.klass == 'TIMEOUT' or ou.klass == 'TIMEOUT':
                runner.count(res, 'vm_timeouts')
                continue
            runner.count(res, 'pairs_compared')
            if oc.stream != ou.stream or oc.klass != ou.klass:
                k = next((i for i, (a, b) in enumerate(zip(oc.out, ou.out)) if a != b), 0)
                runner.fail(res, 'M-DIFF', f'grid {tag}: unchecked output differs from checked at byte {k}: {ou.out[max(0, k - 10):k + 10]!r} vs {oc.out[max(0, k - 10):k + 10]!r}',
                            case, expected=oc.brief(), observed=ou.brief())
                continue
            res['nontrivial'].append(runner.case_id(src, word))
        return res
    if spec['kind'] == 'cli':
        import glob
        import os
        from .. import env
        progs = list(CLI_PROGRAMS)
        for path in sorted(glob.glob(os.path.join(env.REPO, 'examples', '*.hid'))):
            with open(path) as f:
                from .c03 import EXAMPLE_ARGS
                for a in EXAMPLE_ARGS.get(os.path.basename(path), [])[:1]:
                    progs.append(('examples/' + os.path.basename(path), f.read(), list(a)))
        for k, (tag, src, args) in enumerate(progs):
            if k % spec['parts'] != spec['part']:
                continue
            for word in (2, 3):
                res['evaluations'] += 1
                case = diff.case_dict(src, args or [], word, 500, gen='cli:' + tag)
                lc, ec = cli_build(src, word, False)
                lu, eu = cli_build(src, word, True)
                if lc is None:
                    runner.count(res, 'cli_checked_build_refused')
                    continue
                if lu is None:
                    runner.fail(res, 'M-DIFF', f'cli {tag}: the checked build compiles but `--unchecked` fails: {eu}', case)
                    continue
                try:
                    pu = assemble(lu, args or [])
                    pc = assemble(lc, args or [])
                except Exception as e:  # noqa  AsmError
                    runner.fail(res, 'M-ASM', f'cli {tag}: {e}', case)
                    continue
                vc, vu = VM(pc, MAX_STEPS, []), VM(pu, MAX_STEPS, [])
                vc.run()
                vu.run()
                oc, ou = Outcome(vc), Outcome(vu)
                if any(f in FAULT_FLAGS for f in oc.flags):
                    runner.count(res, 'checked_run_faulted_or_undefined')
                elif oc.stream != ou.stream or oc.klass != ou.klass:
                    runner.fail(res, 'M-DIFF', f'cli {tag}: checked {oc.klass} {oc.out[:60]!r} != unchecked {ou.klass} {ou.out[:60]!r}', case, expected=oc.brief(), observed=ou.brief())
                else:
                    runner.count(res, 'cli_pairs_identical')
                    res['nontrivial'].append(runner.case_id('cli', tag, word))
        return res
    if spec['kind'] == 'templates':
        work = [(tag, src, args) for i, (tag, src, args) in enumerate(memprogs.cases(spec['seed'], 0)) if i % spec['parts'] == spec['part']]
        work = [(tag, src, args, w, True) for tag, src, args in work for w in spec['words']]
        if spec['part'] == 0:
            work += [('guarded-constant-index', GUARDED, [n], w, False) for n in ('3', '200') for w in (2, 3)]
        # statements and calls an optimiser might be tempted to treat differently once the checks are off
        from ..gen import idioms
        for gen, argsets in ((idioms.exprstmt_programs, idioms.EXPRSTMT_ARGS), (idioms.tailcall_programs, idioms.TAILCALL_ARGS),
                             (idioms.capture_scalar_programs, [['1']]), (idioms.narrowing_programs, idioms.NARROW_ARGS[:2]), (idioms.fresh_literal_programs, idioms.FRESH_ARGS[:1])):
            for k, (tag, prog) in enumerate(gen()):
                if k % spec['parts'] == spec['part']:
                    work += [(tag, A.render(prog), a, 2 + k % 3, False) for a in argsets]
        # try-block histories (what one try leaves behind for the next, which function is compiled first) in both builds
        for k, (tag, prog) in enumerate(idioms.history_programs()):
            if k % (spec['parts'] * 4) == spec['part'] or (tag.startswith('history-two-functions') and k % spec['parts'] == spec['part']):
                work += [(tag, A.render(prog), a, 2, False) for a in (idioms.HISTORY_ARGS[k % 4], idioms.HISTORY_ARGS[(k + 1) % 4])]
        # an index held in a global that the right-hand side changes (stores through a global index may not be reordered once the checks are off)
        for k, (tag, prog) in enumerate(idioms.capture_programs()):
            if ('/assign' in tag or '/opassign' in tag) and tag.endswith(('to0', 'to4')) and k % spec['parts'] == spec['part']:
                work += [(tag, A.render(prog), idioms.CAPTURE_ARGS[k % 2], 2 + k % 3, False)]
        # scale grids: many locals / parameters / elements / labels / nesting levels / try blocks, both builds
        for k, tag, prog, argsets in common.scale_items():
            if k % (spec['parts'] * 2) == spec['part'] + spec['parts'] * (spec['seed'] % 2):
                work += [(tag, A.render(prog), argsets[k % len(argsets)], (2, 3, 4, 8)[(k // spec['parts']) % 4], False)]
        if spec['part'] == 2 % spec['parts']:
            work += [('overloads that differ in constness only', CONST_OVERLOADS, [a], w, False) for a in ('5', '0') for w in (2, 3)]
            work += [('constant-length arrays in nested activations', NESTED_ARRAYS, [a], w, False) for a in ('123', '7', '0') for w in (2, 4)]
        if spec['part'] == 1:
            work += [('constant indices into strings', STRING_INDEX, a, w, False) for a in (['-v', 'hex'], ['ab', 'c']) for w in (2, 3, 4, 8)]
        # function bodies built from exit shapes (terminal calls all_is_win / all_is_broken included), enumerated and random
        from ..gen import exits
        for k, (tag, prog, ret) in enumerate(exits.loop_exit_programs()):
            if k % (spec['parts'] * 3) == spec['part']:
                work += [(tag, A.render(prog), [x], 2, False) for x in ('0', '3')]
        for i in range(6):
            prog, flavor, ret = exits.ExitGen(spec['seed'] * 977 + spec['part'] * 31 + i).program()
            work += [(f'exits:{i}', A.render(prog), [x], 2, False) for x in ('1', '2', '5')]
    else:
        work = []
        for i in range(spec['count']):
            s = spec['seed'] * 100003 + i
            if i % 2 == 0:
                prog, args = TimeGen(s).program()
                tag = f'time:{s}'
            else:
                prog, args = ProgGen(s, 'deep' if i % 4 == 1 else 'sequential', hostile=0.01).program()
                tag = f'seq:{s}'
            src = A.render(prog)
            for word in common.WORDS_ALL:
                work.append((tag, src, args, word, (i // 2 + word) % 3 == 0))
    return run_pairs(res, work)


def run_pairs(res, work):
    from .. import env
    CompilerError, _ = env.compiler_error_types()
    for tag, src, args, word, do_tight in work:
        res['evaluations'] += 1
        case = diff.case_dict(src, args, word, diff.GENEROUS_STACK, gen=tag)
        try:
            lc = env.compile_src(src, word=word, stack=diff.GENEROUS_STACK, unchecked=False)
        except CompilerError as e:
            runner.count(res, 'rejected')
            continue
        except Exception as e:  # noqa
            runner.fail(res, 'M-EXC', f'{type(e).__name__}: {e}', case)
            continue
        try:
            lu = env.compile_src(src, word=word, stack=diff.GENEROUS_STACK, unchecked=True)
        except CompilerError as e:
            # no unchecked build exists: a violation if the checked build runs fault-free
            try:
                oc, _ = run_with_guards(lc, args)
            except Exception as e2:  # noqa
                runner.fail(res, 'M-ASM', str(e2), case)
                continue
            if oc.klass not in ('TIMEOUT', 'HALT', 'TRAP') and not any(f in FAULT_FLAGS for f in oc.flags):
                runner.fail(res, 'M-DIFF', f'the checked build compiles and runs fault-free ({oc.klass} {oc.out[:40]!r}) but --unchecked rejects the program: {e}', case,
                            expected=oc.brief(), observed=f'{type(e).__name__}: {e}')
            else:
                runner.count(res, 'unchecked_rejected_checked_faulted')
            continue
        except Exception as e:  # noqa
            runner.fail(res, 'M-EXC', f'--unchecked: {type(e).__name__}: {e}', case)
            continue
        try:
            oc, gc = run_with_guards(lc, args)
            ou, gu = run_with_guards(lu, args)
        except Exception as e:  # AsmError
            runner.fail(res, 'M-ASM', str(e), case)
            continue
        runner.count(res, 'vm_steps', oc.steps + ou.steps)
        if oc.klass == 'TIMEOUT' or ou.klass == 'TIMEOUT':
            runner.count(res, 'vm_timeouts')
            continue
        if any(f in FAULT_FLAGS for f in oc.flags) or oc.klass in ('HALT', 'TRAP'):
            runner.count(res, 'checked_run_faulted_or_undefined')
            continue
        runner.count(res, 'pairs_compared')
        tot = gc.totals()
        for k, v in tot.items():
            runner.count(res, 'guard_' + k, v)
        if gu.totals():
            runner.fail(res, 'M-DIFF', f'unchecked build still contains executed guard sites {gu.totals()}', case)
            continue
        if oc.stream != ou.stream or oc.klass != ou.klass:
            runner.fail(res, 'M-DIFF', f'checked {oc.klass} {oc.out[:80]!r}{oc.flags} != unchecked {ou.klass} {ou.out[:80]!r}{ou.flags}',
                        case, expected=oc.brief(), observed=ou.brief())
            continue
        if do_tight and not tight(res, lc, lu, args, oc, case):
            continue
        if len(lu) >= len(lc):
            runner.count(res, 'unchecked_not_smaller')
        if any(k != 'no_overflow' for k in tot) or b'j nonlocal_preempt' in b'\n'.join(lc):
            res['nontrivial'].append(runner.case_id(src, args, word))
            if len(res['samples']) < 1:
                res['samples'].append({'source': src[:1200], 'args': args, 'word': word, 'guards_executed': tot,
                                       'timeline': oc.brief()})
    return res
