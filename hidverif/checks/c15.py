"""C15 - --unchecked changes nothing on fault-free runs.

Oracle: M-DIFF between the committed SVM timelines of the checked and the
unchecked build of the same program (no reference model needed); M-HALT and
traps on the unchecked run as additional observations."""
import random

from .. import diff, runner
from ..gen.progs import ProgGen
from ..gen.timegen import TimeGen
from ..model import ast as A
from ..monitors.guards import GuardMonitor
from ..svm.vm import FAULT_FLAGS, VM, Outcome
from ..svm.asm import assemble
from . import common

PROPERTY = 'C15'
RULE = ('random sequential, deep and time-travel programs with inputs, word sizes 2,3,4, generous stack: the checked '
        'build is run first; if its committed timeline carries no fault flag the unchecked build of the same source must '
        'produce the identical timeline; non-trivial = the checked run executed at least one index, division or length '
        'guard or a protected return besides the function-entry guards; distinct by hash of (source, args, word)')
ASSUMPTIONS = common.ISA_ASSUMPTIONS[:3]
REQUIRED_HIDC_FUNCTIONS = ['codegen/generator:CodeGen.check_index', 'codegen/generator:CodeGen.arith_op_reg_arg']     # M-COV: deciding code never entered => inconclusive
MIN_NONTRIVIAL = {'quick': 200, 'thorough': 2000}
MAX_STEPS = 500_000


def plan(tier, seed):
    n, per = (16, 40) if tier == 'quick' else (64, 120)
    specs = [{'kind': 'gen', 'seed': s, 'count': per} for s in common.shard_seeds(seed, n)]
    # the operator / cast grid of C09 in every usage position, both builds
    for word in (2, 3):
        specs.append({'kind': 'grid', 'word': word, 'tier': tier})
    return specs


def run_with_guards(lines, args):
    prog = assemble(lines, args)
    g = GuardMonitor()
    vm = VM(prog, MAX_STEPS, [g])
    vm.run()
    return Outcome(vm), g


def grid_sources(spec):
    from . import c09
    vals = c09.grid(8 * spec['word'], True)
    args = [str(v) for v in vals]
    yield 'unary+casts', c09.unary_program(), args
    for ta, tb in c09.COMBOS:
        yield f'arith {ta},{tb}', c09.binary_program(c09.ARITH, ta, tb, 'value'), args
        for pos in c09.POSITIONS:
            yield f'compare {ta},{tb} as {pos}', c09.binary_program(c09.CMP, ta, tb, pos), args
    for pos in c09.POSITIONS:
        yield f'bool equality as {pos}', c09.binary_program(['==', '!='], 'bool', 'bool', pos), args


def run_shard(spec):
    res = runner.new_result()
    from .. import env
    CompilerError, _ = env.compiler_error_types()
    if spec['kind'] == 'grid':
        global MAX_STEPS
        MAX_STEPS = 30_000_000
        word = spec['word']
        for tag, src, args in grid_sources(spec):
            res['evaluations'] += 1
            case = diff.case_dict(src, args, word, diff.GENEROUS_STACK, gen='grid:' + tag)
            lc = env.compile_src(src, word=word, stack=diff.GENEROUS_STACK, unchecked=False)
            lu = env.compile_src(src, word=word, stack=diff.GENEROUS_STACK, unchecked=True)
            oc, gc = run_with_guards(lc, args)
            ou, gu = run_with_guards(lu, args)
            runner.count(res, 'vm_steps', oc.steps + ou.steps)
            if oc.klass == 'TIMEOUT' or ou.klass == 'TIMEOUT':
                runner.count(res, 'vm_timeouts')
                continue
            runner.count(res, 'pairs_compared')
            if oc.stream != ou.stream or oc.klass != ou.klass:
                k = next((i for i, (a, b) in enumerate(zip(oc.out, ou.out)) if a != b), 0)
                runner.fail(res, 'M-DIFF', f'grid {tag}: unchecked output differs from checked at byte {k}: {ou.out[max(0, k - 10):k + 10]!r} vs {oc.out[max(0, k - 10):k + 10]!r}',
                            case, expected=oc.brief(), observed=ou.brief())
                continue
            res['nontrivial'].append(runner.case_id(src, word))
        return res
    for i in range(spec['count']):
        s = spec['seed'] * 100003 + i
        if i % 2 == 0:
            prog, args = TimeGen(s).program()
            tag = f'time:{s}'
        else:
            prog, args = ProgGen(s, 'deep' if i % 4 == 1 else 'sequential', hostile=0.01).program()
            tag = f'seq:{s}'
        src = A.render(prog)
        for word in common.WORDS_ALL:
            res['evaluations'] += 1
            case = diff.case_dict(src, args, word, diff.GENEROUS_STACK, gen=tag)
            try:
                lc = env.compile_src(src, word=word, stack=diff.GENEROUS_STACK, unchecked=False)
                lu = env.compile_src(src, word=word, stack=diff.GENEROUS_STACK, unchecked=True)
            except CompilerError as e:
                runner.count(res, 'rejected')
                continue
            except Exception as e:  # noqa
                runner.fail(res, 'M-EXC', f'{type(e).__name__}: {e}', case)
                continue
            try:
                oc, gc = run_with_guards(lc, args)
                ou, gu = run_with_guards(lu, args)
            except Exception as e:  # AsmError
                runner.fail(res, 'M-ASM', str(e), case)
                continue
            runner.count(res, 'vm_steps', oc.steps + ou.steps)
            if oc.klass == 'TIMEOUT' or ou.klass == 'TIMEOUT':
                runner.count(res, 'vm_timeouts')
                continue
            if any(f in FAULT_FLAGS for f in oc.flags) or oc.klass in ('HALT', 'TRAP'):
                runner.count(res, 'checked_run_faulted_or_undefined')
                continue
            runner.count(res, 'pairs_compared')
            tot = gc.totals()
            for k, v in tot.items():
                runner.count(res, 'guard_' + k, v)
            if gu.totals():
                runner.fail(res, 'M-DIFF', f'unchecked build still contains executed guard sites {gu.totals()}', case)
                continue
            if oc.stream != ou.stream or oc.klass != ou.klass:
                runner.fail(res, 'M-DIFF', f'checked {oc.klass} {oc.out[:80]!r}{oc.flags} != unchecked {ou.klass} {ou.out[:80]!r}{ou.flags}',
                            case, expected=oc.brief(), observed=ou.brief())
                continue
            if len(lu) >= len(lc):
                runner.count(res, 'unchecked_not_smaller')
            if any(k != 'no_overflow' for k in tot) or b'j nonlocal_preempt' in b'\n'.join(lc):
                res['nontrivial'].append(runner.case_id(src, args, word))
                if len(res['samples']) < 1:
                    res['samples'].append({'source': src[:1200], 'args': args, 'word': word, 'guards_executed': tot,
                                           'timeline': oc.brief()})
    return res
