"""C04 - checked builds are memory safe, even with the stack exactly full.

Oracle: M-SAN (SphinxSan: every load/store classified by base operand and code
region and checked against the live ap/fp and the allocated array extents) on
the committed timeline of checked builds; traps; and the *prefix rule*: at any
stack size the outcome is the generous-stack outcome, or (programs without
time travel) a prefix of it followed by stack_overflow, error.  Stack sweep:
binary search for the smallest stack S* that reproduces the generous outcome,
then every size in [S*-6, S*+6] and a ladder above."""
import random

from .. import diff, env, runner
from ..gen import memprogs
from ..gen.progs import ProgGen
from ..gen.timegen import TimeGen
from ..model import ast as A
from . import common

PROPERTY = 'C04'
RULE = ('memory-stress templates (VLAs of int/byte/bool/string with lengths -32768..32767 incl. -9..-1 and around multiples of 8; array '
        'literals whose elements call allocating functions; recursion with local arrays; every write routine with arrays at the top '
        'of the array region; by-reference mutation) + random "memory" profile and time-travel programs; each swept over stack sizes '
        'S*-6..S*+6 (S* = smallest stack reproducing the generous outcome, by binary search) and a ladder; a case is one '
        '(program, args, word, stack); non-trivial = the run ended in stack_overflow or ran at a stack within 6 words of S*; the 448 value-capture idioms of gen/idioms.py (an index read before a call that moves it out of range) and the 319 entry-point signatures (array parameter before/between/after scalars) run under M-SAN at a generous stack; the scale grids of gen/scale.py (up to 257 locals, 65 parameters, 1000 elements, depth 10) under M-SAN, the largest frames swept around S*; '
        'distinct by hash of (source, args, word, stack)')
ASSUMPTIONS = common.ISA_ASSUMPTIONS[:3] + [
    'the stack size only enters the output through the `.zero <n>w` line (asserted on every S* by recompiling)',
    'tentative out-of-region accesses on undone paths are counted but are not violations']
REQUIRED_HIDC_FUNCTIONS = ['codegen/tracker:Tracker.add', 'codegen/tracker:Tracker.update', 'codegen/generator:CodeGen.check_index', 'codegen/generator:CodeGen.create_new_stack_array']     # M-COV: deciding code never entered => inconclusive
MIN_NONTRIVIAL = {'quick': 400, 'thorough': 4000}
MAX_STEPS = 400_000


def plan(tier, seed):
    specs = []
    if tier == 'quick':
        for i in range(8):
            specs.append({'kind': 'templates', 'seed': seed, 'part': i, 'parts': 8, 'words': [2], 'stride': 1})
        for s in common.shard_seeds(seed, 8):
            specs.append({'kind': 'gen', 'seed': s, 'count': 6, 'words': [2]})
    else:
        for i in range(24):
            specs.append({'kind': 'templates', 'seed': seed, 'part': i, 'parts': 24, 'words': [2, 3, 4], 'stride': 1})
        for s in common.shard_seeds(seed, 40):
            specs.append({'kind': 'gen', 'seed': s, 'count': 12, 'words': [2, 3, 4]})
    parts = 4 if tier == 'quick' else 12
    specs += [{'kind': 'idioms', 'part': i, 'parts': parts, 'tier': tier} for i in range(parts)]
    specs += [{'kind': 'scale', 'part': i, 'parts': 8, 'tier': tier} for i in range(8)]
    specs += [{'kind': 'constlen', 'word': w} for w in (2, 3, 4, 8)]
    return specs


def with_stack(lines, stack):
    out = list(lines)
    for i, l in enumerate(out):
        if l.startswith(b'.zero ') and l.endswith(b'w') and i > 0 and out[i - 1] == b'stack_start:':
            out[i] = b'.zero %dw' % stack
            return out
    raise env.MachineryError('cannot find the stack reservation line in the output')


def same(a, b):
    return a.stream == b.stream and a.klass == b.klass


def sweep(res, src, args, word, tag, time_travel):
    CompilerError, _ = env.compiler_error_types()
    case0 = diff.case_dict(src, args, word, diff.GENEROUS_STACK, gen=tag)
    try:
        base_lines = env.compile_src(src, word=word, stack=diff.GENEROUS_STACK)
    except CompilerError as e:
        runner.count(res, 'rejected')
        runner.note(res, 'rejections', f'{tag}: {e}'[:100])
        return
    except Exception as e:  # noqa
        runner.fail(res, 'M-EXC', f'{type(e).__name__}: {e}', case0)
        return

    def run_at(stack):
        r = diff.run_lines(with_stack(base_lines, stack), args, MAX_STEPS)
        res['evaluations'] += 1
        return r

    g = run_at(diff.GENEROUS_STACK)
    if g.kind != 'ok':
        runner.fail(res, 'M-ASM', g.detail, case0)
        return
    G = g.outcome
    if G.klass == 'TIMEOUT':
        runner.count(res, 'vm_timeouts')
        return
    checked = {}

    def judge(stack, r):
        o = r.outcome
        common.side_observe(res, r)
        case = diff.case_dict(src, args, word, stack, gen=tag)
        near = False
        san = [x for x in o.reports if x[1] == 'san']
        if san:
            runner.fail(res, 'M-SAN', f'{san[0][2]} (asm line {san[0][4]}: {r.lines[san[0][4] - 1].decode("latin-1").strip() if san[0][4] > 0 else "?"})',
                        case, observed=o.brief())
            return False
        if o.klass in ('TRAP', 'HALT'):
            runner.fail(res, 'M-SAN', f'{o.klass}: {o.trap or "committed halt"} at stack {stack}', case, observed=o.brief())
            return False
        if o.klass == 'TIMEOUT':
            runner.count(res, 'vm_timeouts')
            return True
        if same(o, G):
            runner.count(res, 'same_as_generous')
        elif time_travel:
            if o.klass not in ('WIN', 'ERROR:stack_overflow', 'DIVERGE') and o.klass != G.klass:
                runner.fail(res, 'M-PREFIX', f'time-travelling program ends {o.klass} at stack {stack}, {G.klass} at a generous stack',
                            case, expected=G.brief(), observed=o.brief())
                return False
            runner.count(res, 'time_travel_other_committed_path')
        elif common.overflow_prefix_ok(G, o):
            runner.count(res, 'prefix_then_stack_overflow')
        else:
            runner.fail(res, 'M-PREFIX', f'at stack {stack} the outcome {o.klass} {o.out[-60:]!r} is neither the generous-stack outcome '
                                         f'{G.klass} {G.out[-60:]!r} nor a prefix of it followed by stack_overflow',
                        case, expected=G.brief(), observed=o.brief())
            return False
        return True

    if not judge(diff.GENEROUS_STACK, g):
        return
    # binary search for S*: smallest stack whose outcome equals the generous one
    lo, hi = 0, diff.GENEROUS_STACK
    probes = {}
    while lo + 1 < hi:
        mid = (lo + hi) // 2
        r = run_at(mid)
        probes[mid] = r
        if r.kind == 'ok' and same(r.outcome, G):
            hi = mid
        else:
            lo = mid
    sstar = hi
    runner.count(res, 'sweeps')
    # the .zero patch must be equivalent to recompiling
    try:
        if env.compile_src(src, word=word, stack=sstar) != with_stack(base_lines, sstar):
            raise env.MachineryError('stack size influences more than the .zero line')
    except CompilerError:
        pass
    sizes = sorted(set([s for s in range(sstar - 6, sstar + 7) if s >= 1] +
                       [s for s in (1, 2, 5, 12, 40, 150, 600) if s < sstar] + list(probes)))
    for stack in sizes:
        r = probes.get(stack) or run_at(stack)
        if r.kind != 'ok':
            runner.fail(res, 'M-ASM', r.detail, diff.case_dict(src, args, word, stack, gen=tag))
            return
        if not judge(stack, r):
            return
        if abs(stack - sstar) <= 6 or 'stack_overflow' in r.outcome.flags:
            res['nontrivial'].append(runner.case_id(src, args, word, stack))
    if len(res['samples']) < 2:
        res['samples'].append({'gen': tag, 'args': args, 'word': word, 'smallest_winning_stack_words': sstar,
                               'generous_outcome': G.brief(), 'sizes_run': sizes[:40]})


def observe(res, src, args, word, tag):
    """one run at a generous stack under M-SAN (no sweep): for programs whose risk is a misdirected element access"""
    r = diff.compile_and_run(src, args, word=word, stack=diff.GENEROUS_STACK, max_steps=MAX_STEPS)
    res['evaluations'] += 1
    case = diff.case_dict(src, args, word, diff.GENEROUS_STACK, gen=tag)
    if r.kind != 'ok':
        runner.fail(res, {'reject': 'M-EXC', 'internal': 'M-EXC', 'asm': 'M-ASM'}[r.kind], f'{tag}: {r.kind}: {r.detail}', case)
        return
    o = r.outcome
    common.side_observe(res, r)
    san = [x for x in o.reports if x[1] == 'san']
    if san:
        runner.fail(res, 'M-SAN', f'{san[0][2]} (asm line {san[0][4]}: {r.lines[san[0][4] - 1].decode("latin-1").strip() if san[0][4] > 0 else "?"})',
                    case, observed=o.brief())
    elif o.klass in ('TRAP', 'HALT'):
        runner.fail(res, 'M-SAN', f'{o.klass}: {o.trap or "committed halt"}', case, observed=o.brief())
    else:
        runner.count(res, 'idiom_runs_clean')
        res['nontrivial'].append(runner.case_id(src, args, word, 'idiom'))


SCALE_SWEEPS = ('scale-locals/flat/33', 'scale-locals/flat/129', 'scale-locals/flat/257', 'scale-locals/recursive/33', 'scale-locals/nested/65', 'scale-params/plain/9',
                'scale-params/plain/33', 'scale-params/plain/65', 'scale-depth/return/literal/6', 'scale-depth/break/dynamic/8', 'scale-array/dynamic/bool/257',
                'scale-array/literal/int/129', 'scale-labels/one/11', 'scale-expr/mixed/28', 'scale-expr/calls/20', 'scale-expr/index/28', 'scale-expr/sum/12')


def run_shard(spec):
    res = runner.new_result()
    if spec['kind'] == 'constlen':
        # dynamic arrays whose length is a compile-time constant at the boundaries of the size arithmetic of THIS word size (length * word
        # leaves the signed / unsigned word): refused, stack_overflow, or an array that really has that many elements - M-SAN on the stores
        word = spec['word']
        bits = 8 * word
        full, hi = 1 << bits, (1 << (bits - 1)) - 1
        lens = sorted({2, 3, 9, hi // word, hi // word + 1, hi // word + 2, (full + word - 1) // word, (full + word - 1) // word + 1, full // word - 1, (full // 2) // word + 1,
                       (2 * full) // word + 1, (3 * full) // word + 2, hi - 7, hi - 1, hi, (hi + 1) // 8, (hi + 1) // 8 + 1, full // 8 + 1})
        for el in ('int', 'string', 'byte', 'bool'):
            for n in lens:
                if not (2 <= n <= hi):
                    continue
                for place in ('function', 'block', 'callee'):
                    fill = {'int': ('7', '5'), 'string': ('"x"', '"yz"'), 'byte': ("'p'", "'q'"), 'bool': ('true', 'true')}[el]
                    use = f'{el} a[{n}]; a[1] = {fill[0]}; a[0] = {fill[1]}; a[2 - 1] = {fill[0]}; write(a.length); write(\' \');'
                    if place == 'function':
                        body = use
                    elif place == 'block':
                        body = f'for (int k = 0; k < 2; k += 1) {{ {use} }}'
                    else:
                        body = 'inner(v.length);'
                    src = (f'empty inner(int q) {{ {use} write(q); }}\n' if place == 'callee' else '') + \
                        f'empty @is_you(const int[] v) {{\n    int[] b = [11, v.length, 33];\n    {body}\n    write(b[0]); write(b[1]); write(b[2]);\n}}\n'
                    tag = f'constlen/{el}/{n}/{place}'
                    r = diff.compile_and_run(src, ['1'], word=word, stack=diff.GENEROUS_STACK, max_steps=MAX_STEPS)
                    res['evaluations'] += 1
                    case = diff.case_dict(src, ['1'], word, diff.GENEROUS_STACK, gen=tag)
                    if r.kind == 'reject':
                        runner.count(res, 'constlen_rejected')
                        continue
                    if r.kind != 'ok':
                        runner.fail(res, 'M-EXC' if r.kind == 'internal' else 'M-ASM', f'{tag}: {r.kind}: {r.detail}', case)
                        continue
                    o = r.outcome
                    common.side_observe(res, r)
                    san = [x for x in o.reports if x[1] == 'san']
                    if san:
                        runner.fail(res, 'M-SAN', f'{tag}: {san[0][2]} (asm line {san[0][4]})', case, observed=o.brief())
                    elif o.klass in ('TRAP', 'HALT'):
                        runner.fail(res, 'M-SAN', f'{tag}: {o.klass}: {o.trap or "committed halt"}', case, observed=o.brief())
                    elif o.klass == 'ERROR:stack_overflow':
                        runner.count(res, 'constlen_stack_overflow')
                        res['nontrivial'].append(runner.case_id(src, word))
                    elif o.klass == 'WIN' and o.out.split(b' ')[0] == str(n).encode() and o.out.endswith(b'11133'):
                        runner.count(res, 'constlen_fits')
                        res['nontrivial'].append(runner.case_id(src, word))
                    else:
                        runner.fail(res, 'M-PREFIX', f'{tag}: a {n}-element array at a {diff.GENEROUS_STACK}-word stack ends {o.klass} with output {o.out[:40]!r}: neither stack_overflow nor an array of that length with its neighbour intact', case, observed=o.brief())
        return res
    if spec['kind'] == 'scale':
        # scale grids: frames of up to 257 locals, 65 parameters, arrays of up to 1000 elements, depth 10 - every access inside its own
        # object (M-SAN, generous stack, word sizes in rotation); the frame estimate of the largest ones is swept around S*
        for k, tag, prog, argsets in common.scale_items(('locals', 'params', 'array', 'nesting', 'globals', 'entry', 'expr')):
            if k % spec['parts'] != spec['part']:
                continue
            j = k // spec['parts']
            for word in (((2, 3, 4, 8)[j % 4], common.ODD_WORDS[j % 5]) if spec['tier'] == 'quick' else (2, 3, 4, 8) + common.ODD_WORDS):
                common.check_scale(res, prog, argsets[j % len(argsets)], word, tag, monitors=('san',))
            if tag in SCALE_SWEEPS:
                for word in ((2, 8) if spec['tier'] == 'quick' else (2, 3, 4, 8)):
                    sweep(res, A.render(prog), argsets[0], word, tag, False)
        return res
    if spec['kind'] == 'idioms':
        from ..gen import idioms
        for k, (tag, prog) in enumerate(idioms.capture_programs()):
            if k % spec['parts'] != spec['part']:
                continue
            src = A.render(prog)
            if spec['tier'] == 'quick':
                observe(res, src, idioms.CAPTURE_ARGS[k % 2], (2, 3, 4, 8, 6, 5)[(k // 2) % 6], tag)
            else:
                for args in idioms.CAPTURE_ARGS:
                    for word in (2, 3, 4, 8):
                        observe(res, src, args, word, tag)
                if (k // spec['parts']) % 6 == 0:
                    sweep(res, src, idioms.CAPTURE_ARGS[0], 2, tag, False)
        for k, (tag, prog) in enumerate(list(idioms.capture_scalar_programs()) + list(idioms.narrowing_programs())):
            if k % spec['parts'] == spec['part']:
                for args in (idioms.NARROW_ARGS[k % 6:][:1] if spec['tier'] == 'quick' else idioms.NARROW_ARGS):
                    observe(res, A.render(prog), args, (2, 3, 4, 8)[k % 4], tag)
        # arrays of every element type at every word size (index scaling, table sharing, bit-vectors): reads and writes stay inside their own object
        more = [(t, p, idioms.TABLE_ARGS) for t, p in idioms.table_programs()] + [(t, p, idioms.BITVECTOR_ARGS[:1]) for t, p in idioms.bitvector_programs()] + \
               [(t, p, idioms.FRESH_ARGS[:1]) for t, p in idioms.fresh_literal_programs()] + [(t, p, idioms.NEIGHBOUR_ARGS[:1]) for t, p in idioms.global_neighbour_programs()]
        for k, (tag, prog, argsets) in enumerate(more):
            if k % spec['parts'] == spec['part']:
                for word in (2, 3, 4, 8, common.ODD_WORDS[k % 5]):
                    observe(res, A.render(prog), argsets[0], word, tag)
        for k, (tag, prog, args) in enumerate(idioms.entry_programs()):
            if k % spec['parts'] == spec['part']:
                for word in (((2, 3, 4, 8)[k % 4],) if spec['tier'] == 'quick' else (2, 3, 4, 8)):
                    observe(res, A.render(prog), args, word, tag)
        return res
    if spec['kind'] == 'templates':
        cs = memprogs.cases(spec['seed'], 0)
        for i, (tag, src, args) in enumerate(cs):
            if i % spec['parts'] != spec['part'] or (i // spec['parts']) % spec['stride'] != 0:
                continue
            for word in spec['words']:
                sweep(res, src, args, word, tag, False)
    else:
        for i in range(spec['count']):
            s = spec['seed'] * 100003 + i
            if i % 3 == 2:
                prog, args = TimeGen(s).program()
                tag, tt = f'time:{s}', True
            else:
                prog, args = ProgGen(s, 'memory').program()
                tag, tt = f'memory:{s}', A.uses_time_travel(prog)
            src = A.render(prog)
            for word in spec['words']:
                sweep(res, src, args, word, tag, tt)
    return res
