"""C13 - constant data reaches the output byte for byte.

Monitors: M-ASM (the SVM assembler must accept the emitted data), M-ESC
(contract on the real _escape_bytes: decode(result) == data), and the bytes a
compiled program prints / indexes / measures for every constant against the
bytes the source denotes (computed by the harness from the byte string the
generator chose, not from the source text)."""
import random

from .. import diff, env, runner
from ..contracts import esc
from ..model.ast import render_bytes
from . import common

PROPERTY = 'C13'
RULE = ('string literals: each of the 256 byte values alone, every ordered pair from a 40-value hostile set, random strings of length 0..64, '
        'each with a random escape spelling, used through write, writeln, an indexing loop, .length, `is byte[]`, as string[] element, as a global, '
        'and as asciip command-line argument; char literals for all 256 values in value and write(byte) position; constant int/byte/bool/string '
        'arrays of every length 0..40, global and local, const and mutable, with boundary element values (bool arrays bit by bit); word sizes 2,3,4; '
        'every character written raw in literals and comments of a source file read through SourceCode.from_file (control characters, NEL, LS/PS, BOM, astral); '
        'a case is one constant in one program; all cases non-trivial; distinct by (bytes, usage)')
ASSUMPTIONS = common.ISA_ASSUMPTIONS[:3] + ['.ascii / character immediates use the escapes \\\\ \\" \\\' \\n \\r \\t \\0 \\a \\b \\f \\v \\xHH']
REQUIRED_HIDC_FUNCTIONS = ['codegen/asm:_escape_bytes', 'codegen/generator:CodeGen.pack_bools', 'codegen/generator:CodeGen.label_for_string']     # M-COV: deciding code never entered => inconclusive
MIN_NONTRIVIAL = {'quick': 2500, 'thorough': 9000}
HOSTILE = [0x5c, 0x22, 0x27, 0x3b, 0x0a, 0x0d, 0x00, 0x7f, 0x80, 0xff, 0x7b, 0x7d, 0x5b, 0x5d, 0x25, 0x2e, 0x2c, 0x20, 0x09, 0x07, 0x08, 0x0b, 0x0c,
           0x1b, 0x24, 0x23, 0x40, 0x21, 0x3a, 0x2f, 0x2a, 0x61, 0x78, 0x6e, 0x30, 0x39, 0xc3, 0xa9, 0xe2, 0xfe]
NAMED = {7: 'a', 8: 'b', 12: 'f', 10: 'n', 13: 'r', 9: 't', 0: '0', 39: "'", 34: '"', 92: '\\'}


def plan(tier, seed):
    specs = [{'kind': 'singles', 'word': w} for w in (2, 3, 4)]
    specs += [{'kind': 'pairs', 'part': i, 'parts': 4, 'word': 2 + i % 3} for i in range(4)]
    specs += [{'kind': 'chars', 'word': w} for w in (2, 4)]
    specs += [{'kind': 'arrays', 'part': i, 'parts': 4, 'word': 2 + i % 3, 'seed': seed} for i in range(4)]
    specs += [{'kind': 'collisions', 'word': w} for w in (2, 3)]
    specs += [{'kind': 'rawfile', 'word': w} for w in (2, 3)]
    specs.append({'kind': 'fresh'})
    n, per = (4, 60) if tier == 'quick' else (16, 250)
    for j in range(n):
        specs.append({'kind': 'random', 'seed': seed * 1000 + j, 'count': per})
    return specs


def spell(r, data, quote='"'):
    out = []
    for b in data:
        c = r.random()
        if b in NAMED and (c < 0.5 or b in (0x5c, ord(quote), 10, 13)):
            if b in (0x5c, ord(quote), 10, 13) and c > 0.7:
                out.append('\\x%02x' % b)
            else:
                out.append('\\' + NAMED[b])
        elif 0x20 <= b <= 0x7e and c < 0.8:
            out.append(chr(b))
        elif b < 0x80 and c < 0.9:
            out.append('\\u{%x}' % b)
        else:
            out.append(('\\x%02x' if c < 0.95 else '\\x%02X') % b)
    return ''.join(out)


def string_program(strings, r):
    """one program exercising every usage for each byte string; returns (source, args, expected output bytes, usable_as_arg flags)"""
    gl, body, exp = [], [], bytearray()
    args, params = [], []
    for i, s in enumerate(strings):
        lit = '"' + spell(r, s) + '"'
        lit2 = '"' + spell(r, s) + '"'
        gl.append(f'string g{i} = {lit};')
        gl.append(f'const string[] ga{i} = ["pad", {lit2}];')
        body.append(f'write({lit}); write(\'|\'); writeln({lit2});')
        exp += s + b'|' + s + b'\n'
        body.append(f'string l{i} = {lit}; write(l{i}.length); write(\'|\'); for (int i = 0; i < l{i}.length; i += 1) {{ write(l{i}[i]); }} write(\'|\');')
        exp += str(len(s)).encode() + b'|' + s + b'|'
        body.append(f'write(l{i} is byte[]); write((l{i} is byte[]).length); const byte[] v{i} = {lit2}; write(v{i}); write(\'|\');')
        exp += s + str(len(s)).encode() + s + b'|'
        body.append(f'const string[] sa{i} = ["x", {lit}, g{i}]; write(sa{i}[1]); write(sa{i}[2].length); write(ga{i}[1]); write(g{i}); write(\'|\');')
        exp += s + str(len(s)).encode() + s + s + b'|'
        if s:
            k = r.randrange(len(s))
            body.append(f'write({lit}[{k}] is int); write(\'|\');')
            exp += str(s[k]).encode() + b'|'
        body.append(f'write(({lit} is bool) is int); write(\'|\');')
        exp += (b'1' if s else b'0') + b'|'
        try:
            text = s.decode('utf-8')
            ok = '\x00' not in text
        except UnicodeDecodeError:
            ok = False
        if ok and len(params) < 3:
            params.append(f'string a{i}')
            args.append(text)
            body.append(f'write(a{i}); write(a{i}.length); write(\'|\');')
            exp += s + str(len(s)).encode() + b'|'
    src = '\n'.join(gl) + '\nempty @is_you(' + ', '.join(params) + ') {\n    ' + '\n    '.join(body) + '\n}\n'
    return src, args, bytes(exp)


def run_expect(res, src, args, word, want, case_tag, ids):
    res['evaluations'] += 1
    case = diff.case_dict(src, args, word, diff.GENEROUS_STACK, gen=case_tag)
    run = diff.compile_and_run(src, args, word=word, stack=diff.GENEROUS_STACK, max_steps=2_000_000)
    if run.kind == 'asm':
        runner.fail(res, 'M-ASM', f'{case_tag}: emitted assembly rejected: {run.detail}', case)
        return
    if run.kind != 'ok':
        runner.fail(res, 'M-EXC' if run.kind == 'internal' else 'M-DATA', f'{case_tag}: {run.kind}: {run.detail}', case)
        return
    o = run.outcome
    common.side_observe(res, run)
    if o.out != want or o.klass != 'WIN':
        k = next((i for i, (a, b) in enumerate(zip(o.out, want)) if a != b), min(len(o.out), len(want)))
        runner.fail(res, 'M-DATA', f'{case_tag}: output differs from the denoted bytes at offset {k}: got {o.out[max(0, k - 8):k + 8]!r}, want {want[max(0, k - 8):k + 8]!r} ({o.klass})',
                    case, expected=want[:300].decode('latin-1'), observed=o.brief())
        return
    runner.count(res, 'programs_exact')
    runner.count(res, 'bytes_compared', len(want))
    res['nontrivial'].extend(ids)


def flush_esc(res, state, seen):
    runner.count(res, 'escape_bytes_calls_checked', state.calls - seen[0])
    seen[0] = state.calls
    for data, quote, out, why in state.violations:
        runner.fail(res, 'M-ESC', f'_escape_bytes({data!r}, {quote!r}) = {out!r}: {why}', {'data': data.decode('latin-1'), 'quote': quote.decode()})
    del state.violations[:]


def run_shard(spec):
    res = runner.new_result()
    env.load()
    state = esc.attach()
    seen = [state.calls]
    k = spec['kind']
    r = random.Random(spec.get('seed', 7) + len(k))
    if k == 'singles':
        for lo in range(0, 256, 8):
            strings = [bytes([b]) for b in range(lo, lo + 8)]
            src, args, want = string_program(strings, r)
            run_expect(res, src, args, spec['word'], want, f'single bytes {lo}..{lo + 7}', [runner.case_id('single', b, spec['word']) for b in range(lo, lo + 8)])
        res['exhaustive'] = True
        res['samples'].append({'singles': 'each byte 0..255 as a one-byte string literal in 12 usages', 'word': spec['word']})
    elif k == 'pairs':
        pairs = [(a, b) for a in HOSTILE for b in HOSTILE]
        mine = [p for i, p in enumerate(pairs) if i % spec['parts'] == spec['part']]
        for lo in range(0, len(mine), 8):
            chunk = mine[lo:lo + 8]
            strings = [bytes(p) for p in chunk]
            src, args, want = string_program(strings, r)
            run_expect(res, src, args, spec['word'], want, f'hostile pairs {chunk[0]}..', [runner.case_id('pair', p) for p in chunk])
        res['exhaustive'] = True
        res['samples'].append({'pairs': [list(p) for p in mine[:5]]})
    elif k == 'chars':
        for lo in range(0, 256, 32):
            body, exp = [], bytearray()
            for b in range(lo, lo + 32):
                lit = "'" + spell(r, bytes([b]), "'") + "'"
                body.append(f'write({lit}); write({lit} is int); byte c{b} = {lit}; write(c{b}); write(({lit} + 0) is byte); write([{lit}, {lit}][1]); write(\';\');')
                exp += bytes([b]) + str(b).encode() + bytes([b, b, b]) + b';'
            src = 'empty @is_you() {\n    ' + '\n    '.join(body) + '\n}\n'
            run_expect(res, src, [], spec['word'], bytes(exp), f'char literals {lo}..{lo + 31}', [runner.case_id('char', b, spec['word']) for b in range(lo, lo + 32)])
        res['exhaustive'] = True
    elif k == 'arrays':
        word = spec['word']
        bits = 8 * word
        hi, lo_ = (1 << (bits - 1)) - 1, -(1 << (bits - 1))
        ivals = [0, 1, -1, 127, 128, 255, 256, -128, -255, -256, hi, lo_, hi - 1, lo_ + 1, 12345, -12345, 92, 34]
        for n in range(0, 41):
            if n % spec['parts'] != spec['part']:
                continue
            for el in ('int', 'byte', 'bool', 'string'):
                if el == 'int':
                    vals = [r.choice(ivals) for _ in range(n)]
                    lits = [str(v) if v >= 0 else f'-{-v}' for v in vals]
                    show = 'write(A[i]); write(\',\');'
                    exps = b''.join(str(v).encode() + b',' for v in vals)
                elif el == 'byte':
                    vals = [r.choice(HOSTILE + [r.randrange(256)]) for _ in range(n)]
                    lits = ["'" + spell(r, bytes([v]), "'") + "'" if r.random() < 0.7 else str(v) for v in vals]
                    show = 'write(A[i] is int); write(\',\');'
                    exps = b''.join(str(v).encode() + b',' for v in vals)
                elif el == 'bool':
                    vals = [r.random() < 0.5 for _ in range(n)]
                    lits = ['true' if v else 'false' for v in vals]
                    show = "if (A[i]) { write('1'); } else { write('0'); }"
                    exps = b''.join(b'1' if v else b'0' for v in vals)
                else:
                    vals = [bytes(r.choice(HOSTILE) for _ in range(r.randint(0, 3))) for _ in range(n)]
                    lits = ['"' + spell(r, v) + '"' for v in vals]
                    show = 'write(A[i]); write(A[i].length);'
                    exps = b''.join(v + str(len(v)).encode() for v in vals)
                lit = '[' + ', '.join(lits) + ']'
                gl, body, exp = [], [], bytearray()
                if n > 0:      # an empty literal needs a declared element type
                    pass
                for name, decl, where in (('GC', f'const {el}[] GC = {lit};', 'g'), ('GM', f'{el}[] GM = {lit};', 'g'),
                                          ('LC', f'const {el}[] LC = {lit};', 'l'), ('LM', f'{el}[] LM = {lit};', 'l')):
                    (gl if where == 'g' else body).append(decl)
                    body.append(f'write({name}.length); write(\':\'); for (int i = 0; i < {name}.length; i += 1) {{ {show.replace("A", name)} }} write(\'|\');')
                    exp += str(n).encode() + b':' + exps + b'|'
                if el == 'byte':
                    body.append('write(GC); write(LM);')
                    exp += bytes(vals) * 2
                src = '\n'.join(gl) + '\nempty @is_you() {\n    ' + '\n    '.join(body) + '\n}\n'
                run_expect(res, src, [], word, bytes(exp), f'constant {el} arrays of length {n}', [runner.case_id('array', el, n, word, w) for w in 'abcd'])
        res['exhaustive'] = True
        res['samples'].append({'arrays': 'const/mutable x global/local arrays of int, byte, bool, string, lengths 0..40'})
    elif k == 'fresh':
        # an array literal written with constants denotes those values every time it is evaluated, also when it initialises
        # a mutable array that was written to after an earlier evaluation (expected output from the reference interpreter)
        from ..gen import idioms
        from ..model import ast as A
        for tag, prog, argsets in [(t, p, idioms.FRESH_ARGS) for t, p in idioms.fresh_literal_programs()] + [(t, p, idioms.BITVECTOR_ARGS) for t, p in idioms.bitvector_programs()]:
            for args in argsets:
                for word in (2, 3):
                    ref, why = diff.model_run(prog, args, word)
                    if ref is None:
                        res['inconclusive'].append(f'{tag}: no model run: {why}')
                        continue
                    run_expect(res, A.render(prog), args, word, ref.out, tag, [runner.case_id(tag, tuple(args), word)])
        res['exhaustive'] = True
    elif k == 'rawfile':
        # every character written RAW (unescaped) inside string literals, char literals and comments of a source FILE, read
        # through SourceCode.from_file as the command-line tool does: control characters, the Unicode line and paragraph
        # separators, NEL, BOM, astral characters.  (CR cannot be written raw: text mode turns it into a line break.)
        from ..svm.asm import assemble
        from ..svm.vm import VM, Outcome
        word = spec['word']
        cps = [c for c in range(1, 0x80) if c not in (10, 13, 0x22, 0x5c)] + [0x80, 0x85, 0xa0, 0xff, 0x100, 0x2028, 0x2029, 0xfeff, 0xfffd, 0x1F30E, 0x10FFFF]
        for group in range(0, len(cps), 8):
            chunk = cps[group:group + 8]
            body, want = [], bytearray()
            for c in chunk:
                ch = chr(c)
                enc = ch.encode('utf-8')
                body.append(f'    write("a{ch}b"); write("{ch}".length); // c {ch} c\n')
                want += b'a' + enc + b'b' + str(len(enc)).encode()
                if c < 0x80 and c != 0x27:
                    body.append(f"    write('{ch}'); write(\"{ch}{ch}\"[1] is int);\n")
                    want += enc + str(c).encode()
            data = ('empty @is_you() {\n' + ''.join(body) + '    writeln();\n}\n').encode('utf-8')
            res['evaluations'] += 1
            tag = 'raw characters ' + ' '.join('U+%04X' % c for c in chunk) + ' in a source file'
            case = {'input_bytes': data.decode('latin-1'), 'word': word, 'via': 'SourceCode.from_file', 'what': tag}
            try:
                lines = env.compile_file_bytes(data, word=word, stack=500)
            except Exception as e:  # noqa
                runner.fail(res, 'M-DATA', f'{tag}: {type(e).__name__}: {e}', case)
                continue
            try:
                vm = VM(assemble(lines, []), 2_000_000, [])
                vm.run()
                o = Outcome(vm)
            except Exception as e:  # noqa  AsmError
                runner.fail(res, 'M-ASM', f'{tag}: emitted assembly rejected: {e}', case)
                continue
            want += b'\n'
            if o.out != bytes(want) or o.klass != 'WIN':
                kk = next((i for i, (a, b) in enumerate(zip(o.out, want)) if a != b), min(len(o.out), len(want)))
                runner.fail(res, 'M-DATA', f'{tag}: output differs from the denoted bytes at offset {kk}: got {o.out[max(0, kk - 8):kk + 8]!r}, want {bytes(want[max(0, kk - 8):kk + 8])!r}',
                            case, expected=bytes(want).decode('latin-1'), observed=o.brief())
                continue
            runner.count(res, 'programs_exact')
            runner.count(res, 'bytes_compared', len(want))
            res['nontrivial'].extend(runner.case_id('raw', c, word) for c in chunk)
        # a character literal holds ONE byte: a raw character beyond ASCII (two or more UTF-8 bytes) must be refused, in files and strings alike
        CompilerError, _ = env.compiler_error_types()
        for c in (0x80, 0xa0, 0xe9, 0xff, 0x100, 0x20ac, 0x1F30E):
            for via in ('file', 'string'):
                src = f"empty @is_you() {{ write('{chr(c)}'); }}\n"
                res['evaluations'] += 1
                try:
                    (env.compile_file_bytes(src.encode('utf-8'), word=word) if via == 'file' else env.compile_src(src, word=word))
                    runner.fail(res, 'M-DATA', f"character literal with the raw character U+{c:04X} ({len(chr(c).encode())} bytes) is accepted ({via})", {'source': src, 'via': via})
                except CompilerError:
                    runner.count(res, 'multibyte_char_literals_refused')
                    res['nontrivial'].append(runner.case_id('rawchar', c, via, word))
                except Exception as e:  # noqa
                    runner.fail(res, 'M-EXC', f'raw character U+{c:04X} in a char literal: {type(e).__name__}: {e}', {'source': src, 'via': via})
        res['exhaustive'] = True
    elif k == 'collisions':
        # several constant tables in ONE program whose emitted rows or values coincide although element type,
        # length or constness differ: each must still be its own array (sharing / caching of constant data)
        word = spec['word']
        seqs = [[1, 0, 1], [1, 1], [3], [0], [0, 0, 0], [1], [1, 0, 0], [2, 3, 5, 7], [0, 0, 0, 0, 0, 0, 0, 0, 1], [1, 0, 0, 0, 0, 0, 0, 0, 0], [65, 66], [],
                [0] * 8, [0] * 9, [0] * 16, [0] * 17, [5] + [0] * 8, [0] * 8 + [5], [0] * 32]
        for order in (('int', 'byte', 'bool'), ('bool', 'byte', 'int'), ('byte', 'bool', 'int')):
            gl, body, exp = [], [], bytearray()
            idx = 0
            for seq in seqs:
                for el in order:
                    if el == 'bool' and any(v > 1 for v in seq):
                        continue
                    idx += 1
                    lit = {'int': str, 'byte': str, 'bool': lambda v: 'true' if v else 'false'}[el]
                    text = '[' + ', '.join(lit(v) for v in seq) + ']'
                    for where, const in (('g', True), ('g', False), ('l', True)):
                        nm = f'{where}{idx}{"c" if const else "m"}'
                        decl = f'{"const " if const else ""}{el}[] {nm} = {text};'
                        (gl if where == 'g' else body).append(decl)
                        if el == 'bool':
                            show = f"if ({nm}[i]) {{ write('1'); }} else {{ write('0'); }}"
                            exps = b''.join(b'1' if v else b'0' for v in seq)
                        else:
                            show = f"write({nm}[i] is int); write(',');" if el == 'byte' else f"write({nm}[i]); write(',');"
                            exps = b''.join(str(v).encode() + b',' for v in seq)
                        body.append(f"write({nm}.length); write(':'); for (int i = 0; i < {nm}.length; i += 1) {{ {show} }} write('|');")
                        exp += str(len(seq)).encode() + b':' + exps + b'|'
                        if el == 'byte' and const:
                            body.append(f'write({nm}); write(\'|\');')
                            exp += bytes(seq) + b'|'
            # strings whose bytes coincide with byte tables, and equal strings
            for sidx, sb in enumerate([b'AB', b'\x01\x00\x01', b'AB', b'']):
                body.append(f'write("{render_bytes(sb, chr(34))}"); write("{render_bytes(sb, chr(34))}".length); write(\'|\');')
                exp += sb + str(len(sb)).encode() + b'|'
            src = '\n'.join(gl) + '\nempty @is_you() {\n    ' + '\n    '.join(body) + '\n}\n'
            run_expect(res, src, [], word, bytes(exp), f'coinciding constant tables, order {order}', [runner.case_id('coll', order, word, i) for i in range(idx)])
        res['exhaustive'] = True
    else:
        for i in range(spec['count']):
            strings = []
            for _ in range(r.randint(1, 5)):
                n = r.choice([0, 1, 2, 3, 7, 16, 33, 64])
                c = r.random()
                if c < 0.4:
                    strings.append(bytes(r.randrange(256) for _ in range(n)))
                elif c < 0.7:
                    strings.append(bytes(r.choice(HOSTILE) for _ in range(n)))
                else:
                    strings.append(''.join(r.choice('aé€\U0001F30E "\\;') for _ in range(n // 2)).encode('utf-8'))
            src, args, want = string_program(strings, r)
            run_expect(res, src, args, r.choice([2, 3, 4]), want, 'random strings', [runner.case_id('rand', s) for s in strings])
            if len(res['samples']) < 1:
                res['samples'].append({'random_strings': [s.decode('latin-1') for s in strings], 'args': args})
    flush_esc(res, state, seen)
    if state.calls == 0:
        res['inconclusive'].append('M-ESC contract was never evaluated (early binding bypassed the wrapper?)')
    return res
