"""C09 - operators and casts give the specified result at every boundary value.

Oracle: the printed result of each operator application on the SVM against a
small table of operator semantics computed by the harness (independent of
RefInt's tree walker).  Operands come from the command line, so nothing is
folded.  Three usage positions: value, branch condition, !truth_is_defeat
(under try/stop and try/undo)."""
import itertools

from .. import diff, runner
from . import common

PROPERTY = 'C09'
RULE = ('grid of operand values {0, +-1, +-2, 127, 128, 255, 256, -128, -255, -256, min, min+1, max, max-1, 2^(b-1) and 2^b-1 as unsigned, 10 fixed '
        'pseudo-random} (quick: 14 values) passed on the command line; every binary operator x every ordered pair, every unary operator and cast x every '
        'value, x operand types (int/int, byte/int, int/byte, byte/byte, bool/bool where legal) x positions (value printed; if-branch; '
        '!truth_is_defeat under try/stop and try/undo; and/or/not of conditions) x word sizes 2,3,4; an application is one operator applied to one '
        'operand tuple in one position; the unary/cast grid also over compile-time constants (19 values) and string length/truthiness at lengths 0..1024 incl. multiples of 256; every application is non-trivial; distinct by (program, position in grid)')
ASSUMPTIONS = common.ISA_ASSUMPTIONS[:3] + ['expected results: two\'s-complement wrap-around at the word size, signed comparison, zero-extension of bytes, '
                                            'truncation to the low byte on narrowing, truthiness of non-zero values, strict 0/1 booleans, floor division']
REQUIRED_HIDC_FUNCTIONS = ['codegen/generator:CodeGen.bool_expr_branch', 'codegen/generator:CodeGen.truth_is_defeat', 'codegen/generator:CodeGen.un_op_reg_arg']     # M-COV: deciding code never entered => inconclusive
MIN_NONTRIVIAL = {'quick': 30, 'thorough': 90}

ARITH = ['+', '-', '*', '/', '%']
CMP = ['==', '!=', '<', '<=', '>', '>=']


def grid(bits, quick):
    hi, lo = (1 << (bits - 1)) - 1, -(1 << (bits - 1))
    base = [0, 1, -1, 2, -2, 127, 128, 255, 256, -128, -255, -256, lo, lo + 1, hi, hi - 1]
    rnd = [(x * 2654435761 + 12345) % (1 << bits) + lo for x in range(1, 11)]
    vals = base[:] + ([] if quick else rnd + [hi // 2 + 1, lo // 2, 10, -10, 100, 1000 % hi])
    if quick:
        vals = [0, 1, -1, 2, 127, 128, 255, 256, -128, -256, lo, lo + 1, hi, rnd[0]]
    seen, out = set(), []
    for v in vals:
        if v not in seen:
            seen.add(v)
            out.append(v)
    return out


class Sem:
    """the 40-line table of operator semantics"""
    def __init__(self, bits):
        self.bits = bits
        self.m = 1 << bits

    def wrap(self, v):
        v %= self.m
        return v - self.m if v >= self.m // 2 else v

    def conv(self, v, t):
        return v & 0xFF if t == 'byte' else (v != 0) if t == 'bool' else v

    def binop(self, op, a, b):
        if op == '+': return self.wrap(a + b)
        if op == '-': return self.wrap(a - b)
        if op == '*': return self.wrap(a * b)
        if op == '/': return self.wrap(a // b)
        if op == '%': return self.wrap(a % b)
        return {'==': a == b, '!=': a != b, '<': a < b, '<=': a <= b, '>': a > b, '>=': a >= b}[op]


def fmt(v):
    if isinstance(v, bool):
        return b'T' if v else b'F'
    return str(v).encode()


def operand(name, t):
    return {'int': name, 'byte': f'({name} is byte)', 'bool': f'({name} is bool)'}[t]


def binary_program(ops, ta, tb, position, storage='local'):
    """loops over all ordered pairs of v; prints one result per (pair, op)"""
    body = []
    for op in ops:
        na, nb = ('a', 'b') if storage == 'local' else ('ga', 'gb') if storage == 'global' else ('ea[1]', 'ea[0]')
        e = f'{operand(na, ta)} {op} {operand(nb, tb)}'
        guard = op in '/%'
        if position == 'value':
            s = f'write({e});' if op in ARITH else f'if ({e}) {{ write(\'T\'); }} else {{ write(\'F\'); }}'
            if op not in ARITH:
                s = f'bool r = {e}; if (r == true) {{ write(\'T\'); }} else {{ write(\'F\'); }} write((r is int) + ((r is byte) is int));'
        elif position == 'branch':
            s = f'if ({e}) {{ write(\'T\'); }} else {{ write(\'F\'); }}'
        elif position == 'tid_stop':
            s = f'try {{ !truth_is_defeat({e}); write(\'F\'); }} stop {{ write(\'T\'); }}'
        elif position == 'tid_undo':
            s = f'try {{ !truth_is_defeat({e}); write(\'F\'); }} undo {{ write(\'T\'); }}'
        elif position == 'not_branch':
            s = f'if (not ({e})) {{ write(\'T\'); }} else {{ write(\'F\'); }}'
        elif position == 'tid_not':
            s = f'try {{ !truth_is_defeat(not ({e})); write(\'F\'); }} stop {{ write(\'T\'); }}'
        elif position == 'notnot_branch':
            s = f'if (not not ({e})) {{ write(\'T\'); }} else {{ write(\'F\'); }}'
        elif position == 'tid_notnot':
            s = f'try {{ !truth_is_defeat(not not ({e})); write(\'F\'); }} undo {{ write(\'T\'); }}'
        elif position == 'tid_not3':
            s = f'try {{ !truth_is_defeat(not not not ({e})); write(\'F\'); }} stop {{ write(\'T\'); }}'
        elif position == 'not_and':
            s = (f'if (not ({e} and a != 3)) {{ write(\'T\'); }} else {{ write(\'F\'); }} '
                 f'int m = 0; while (not ({e} and a != 3) and m < 1) {{ m += 1; }} write(m); '
                 f'if (b != 3 and not ({e} and a != 3)) {{ write(\'T\'); }} else {{ write(\'F\'); }} '
                 f'if (not (b == 3 or ({e} and a != 3))) {{ write(\'T\'); }} else {{ write(\'F\'); }}')
        elif position == 'logic':
            s = (f'if ({e} and a != 3) {{ write(\'T\'); }} else {{ write(\'F\'); }} if ({e} or b == 3) {{ write(\'T\'); }} else {{ write(\'F\'); }} '
                 f'try {{ !truth_is_defeat({e} or b == 3); write(\'F\'); }} undo {{ write(\'T\'); }}')
        elif position == 'while':
            s = f'int n = 0; while ({e} and n < 1) {{ n += 1; }} write(n);'
        else:
            raise ValueError(position)
        if guard:
            s = f'if ({operand(nb, tb)} != 0) {{ {s} }} else {{ write(\'z\'); }}'
        body.append(f'{{ {s} }} write(\' \');')
    return ('int ga = 0;\nint gb = 0;\nempty @is_you(const int[] v) {\n  int[] ea = [0, 0];\n  for (int i = 0; i < v.length; i += 1) {\n    for (int j = 0; j < v.length; j += 1) {\n'
            '      int a = v[i]; int b = v[j]; ga = a; gb = b; ea[1] = a; ea[0] = b;\n      ' + '\n      '.join(body) + '\n    }\n    writeln();\n  }\n}\n')


def binary_expected(sem, vals, ops, ta, tb, position):
    out = bytearray()
    for a0 in vals:
        for b0 in vals:
            a, b = sem.conv(a0, ta), sem.conv(b0, tb)
            for op in ops:
                if op in '/%' and b == 0:
                    out += b'z '
                    continue
                if ta == 'bool':
                    r = (a == b) if op == '==' else (a != b)
                else:
                    r = sem.binop(op, int(a), int(b))
                if position == 'value':
                    if op in ARITH:
                        out += fmt(r)
                    else:
                        out += fmt(r) + (b'2' if r else b'0')
                elif position in ('branch', 'tid_stop', 'tid_undo'):
                    out += fmt(bool(r))
                elif position in ('not_branch', 'tid_not', 'tid_not3'):
                    out += fmt(not r)
                elif position in ('notnot_branch', 'tid_notnot'):
                    out += fmt(bool(r))
                elif position == 'not_and':
                    x = not (bool(r) and a0 != 3)
                    out += fmt(x) + (b'1' if x else b'0') + fmt(b0 != 3 and x) + fmt(not (b0 == 3 or (bool(r) and a0 != 3)))
                elif position == 'logic':
                    out += fmt(bool(r) and a0 != 3) + fmt(bool(r) or b0 == 3) + fmt(bool(r) or b0 == 3)
                elif position == 'while':
                    out += b'1' if r else b'0'
                out += b' '
        out += b'\n'
    return bytes(out)


UNARY = [
    # (source expression over int a, function(sem, a) -> printable)
    ('-a', lambda s, a: s.wrap(-a)), ('+a', lambda s, a: a), ('- -a', lambda s, a: s.wrap(a)),
    ('-(a is byte)', lambda s, a: s.wrap(-(a & 0xFF))), ('(a is byte) is int', lambda s, a: a & 0xFF),
    ('((a is byte) + 1) is byte is int' if False else '(((a is byte) + 1) is byte) is int', lambda s, a: ((a & 0xFF) + 1) & 0xFF),
    ('(a is bool) is int', lambda s, a: int(a != 0)), ('(a is bool) is byte is int' if False else '((a is bool) is byte) is int', lambda s, a: int(a != 0)),
    ('((a is byte) is bool) is int', lambda s, a: int(a & 0xFF != 0)), ('(not (a is bool)) is int', lambda s, a: int(a == 0)),
    ('(not a) is int', lambda s, a: int(a == 0)), ('(not not a) is int', lambda s, a: int(a != 0)),
    ('(a and 1) is int', lambda s, a: int(a != 0)), ('(a or 0) is int', lambda s, a: int(a != 0)),
    ('((a is byte) and true) is int', lambda s, a: int(a & 0xFF != 0)),
    ('(a * 256) is byte is int' if False else '((a * 256) is byte) is int', lambda s, a: 0),
    ('((a + 1) is byte) is int', lambda s, a: (a + 1) & 0xFF),
    ('((a is bool) == true) is int', lambda s, a: int(a != 0)), ('((a is bool) != (a is byte is bool))' if False else '((a is bool) != ((a is byte) is bool)) is int',
                                                                  lambda s, a: int((a != 0) != (a & 0xFF != 0))),
]


CONST_VALS = [0, 1, -1, 2, 127, 128, 254, 255, 256, 257, 300, 511, 1000, -2, -128, -255, -256, -257, -300]


def unary_program(storage='local', const_vals=None):
    body = [f'write({e}); write(\' \');' for e, _ in UNARY]
    body.append('byte nb = a is byte; int back = nb; write(back); write(\' \');')           # narrowing store, zero-extending load
    body.append('byte[] q = [a is byte, 1]; write(q[0] + q[1]); write(\' \');')
    body.append('bool f = a is bool; if (f) { write(\'T\'); } else { write(\'F\'); } try { !truth_is_defeat(a is bool); write(\'F\'); } stop { write(\'T\'); }')
    body.append('try { !truth_is_defeat(not (a is bool)); write(\'F\'); } undo { write(\'T\'); } try { !truth_is_defeat(f); write(\'F\'); } stop { write(\'T\'); }')
    body.append('if (a) { write(\'T\'); } else { write(\'F\'); } if (a is byte) { write(\'T\'); } else { write(\'F\'); }')
    # a materialised bool must be a strict 0/1 even when its normalisation is followed by defeat
    body.append('try { bool g2 = a is bool; !truth_is_defeat((g2 is int) == 1); write(\'F\'); } undo { write(\'T\'); }')
    body.append('try { bool g3 = (a is byte) is bool; if (g3 == true) { !is_defeat(); } write(\'F\'); } stop { write(\'T\'); }')
    body.append('try { bool[] g4 = [a is bool, false]; !truth_is_defeat(g4[0] and not g4[1]); write(\'F\'); } undo { write(\'T\'); }')
    body.append('try { !truth_is_defeat((not (a is bool)) == false); write(\'F\'); } undo { write(\'T\'); }')
    # `is byte` of a computed value outside 0..255 used directly as an index / array length
    body.append('byte[] q8 = [10, 11, 12, 13, 14, 15, 16, 17]; q8[(((a % 8) + 8) % 8 + 256) is byte] += 100; write(q8[((a % 8) + 8) % 8] is int); write(\' \');')
    body.append('q8[(((a % 8) + 8) % 8 + 512) is byte] = \'z\'; write(q8[((a % 8) + 8) % 8]); int[] q4 = [1, 2, 3, 4]; q4[(((a % 4) + 4) % 4 + 256) is byte] *= 5; write(q4[((a % 4) + 4) % 4]); write(\' \');')
    body.append('int vb[(((a % 4) + 4) % 4 + 257) is byte]; write(vb.length); bool vf[(((a % 4) + 4) % 4 + 513) is byte]; write(vf.length); write(\' \');')
    # compound assignment on a byte target works on the int values and narrows the RESULT (x /= 300 is x = (x / 300) is byte)
    body.append('byte cb1 = a is byte; cb1 /= 300; write(cb1 is int); byte cb2 = a is byte; cb2 %= 256; write(\' \'); write(cb2 is int); byte cb3 = a is byte; cb3 += 300; write(\' \'); write(cb3 is int); '
                'byte[] ce = [a is byte, 7]; ce[0] /= 257; ce[1] %= 300; write(\' \'); write(ce[0] is int); write(ce[1] is int); byte cb4 = a is byte; cb4 *= 257; write(\' \'); write(cb4 is int); write(\' \');')
    text = '\n    '.join(body)
    if storage == 'const':
        # the same applications on compile-time constants (the type checker substitutes `const` scalars and folds the
        # expressions): one block per value, no run-time operand at all
        blocks = ['  {\n    const int a = %d;\n    %s\n    writeln();\n  }' % (v, text) for v in (const_vals or CONST_VALS)]
        return 'empty @is_you(const int[] v) {\n' + '\n'.join(blocks) + '\n}\n'
    if storage == 'global':
        import re
        text = re.sub(r'\ba\b', 'ga', text)
    return ('int ga = 0;\nempty @is_you(const int[] v) {\n  for (int i = 0; i < v.length; i += 1) {\n    int a = v[i]; ga = a;\n    ' + text + '\n    writeln();\n  }\n}\n')


def unary_expected(sem, vals):
    out = bytearray()
    for a in vals:
        for _, f in UNARY:
            out += fmt(f(sem, a)) + b' '
        out += fmt(a & 0xFF) + b' ' + fmt((a & 0xFF) + 1) + b' '
        t = a != 0
        out += fmt(t) + fmt(t) + fmt(not t) + fmt(t) + fmt(t) + fmt(a & 0xFF != 0)
        out += fmt(t) + fmt(a & 0xFF != 0) + fmt(t) + fmt(t)
        k8, k4 = a % 8, a % 4
        out += fmt((10 + k8 + 100) & 0xFF) + b' ' + b'z' + fmt(sem.wrap((k4 + 1) * 5)) + b' ' + fmt(k4 + 1) + fmt(k4 + 1) + b' '
        ab = a & 0xFF
        out += fmt((ab // 300) & 0xFF) + b' ' + fmt((ab % 256) & 0xFF) + b' ' + fmt((ab + 300) & 0xFF) + b' ' + fmt((ab // 257) & 0xFF) + fmt((7 % 300) & 0xFF) + b' ' + fmt((ab * 257) & 0xFF) + b' '
        out += b'\n'
    return bytes(out)


COMBOS = [('int', 'int'), ('byte', 'int'), ('int', 'byte'), ('byte', 'byte')]
POSITIONS = ['value', 'branch', 'tid_stop', 'tid_undo', 'not_branch', 'tid_not', 'logic', 'while', 'notnot_branch', 'tid_notnot', 'tid_not3', 'not_and']


def plan(tier, seed):
    specs = []
    for word in (2, 3, 4):
        for ta, tb in COMBOS:
            specs.append({'kind': 'binary', 'word': word, 'ta': ta, 'tb': tb, 'ops': ARITH, 'positions': ['value'], 'tier': tier})
            for pos in POSITIONS:
                specs.append({'kind': 'binary', 'word': word, 'ta': ta, 'tb': tb, 'ops': CMP, 'positions': [pos], 'tier': tier})
        specs.append({'kind': 'binary', 'word': word, 'ta': 'bool', 'tb': 'bool', 'ops': ['==', '!='], 'positions': POSITIONS, 'tier': tier})
        specs.append({'kind': 'unary', 'word': word, 'tier': tier})
        specs.append({'kind': 'unary', 'word': word, 'tier': tier, 'storage': 'global'})
        specs.append({'kind': 'unary', 'word': word, 'tier': tier, 'storage': 'const'})
        specs.append({'kind': 'strings', 'word': word, 'tier': tier})
        specs.append({'kind': 'literals', 'word': word, 'tier': tier})
        specs.append({'kind': 'arraytruth', 'word': word, 'tier': tier})
        # the operator semantics do not depend on the run-time checks: the fault-free grids again under --unchecked
        specs.append({'kind': 'unary', 'word': word, 'tier': tier, 'unchecked': True})
        specs.append({'kind': 'unary', 'word': word, 'tier': tier, 'storage': 'const', 'unchecked': True})
        specs.append({'kind': 'binary', 'word': word, 'ta': 'int', 'tb': 'byte', 'ops': ARITH, 'positions': ['value'], 'tier': tier, 'unchecked': True})
        specs.append({'kind': 'binary', 'word': word, 'ta': 'int', 'tb': 'int', 'ops': CMP, 'positions': ['value', 'tid_undo', 'logic'], 'tier': tier, 'unchecked': True})
        specs.append({'kind': 'arraytruth', 'word': word, 'tier': tier, 'unchecked': True})
        for storage in ('global', 'element'):
            specs.append({'kind': 'binary', 'word': word, 'ta': 'int', 'tb': 'int', 'ops': ARITH, 'positions': ['value'], 'tier': tier, 'storage': storage})
            specs.append({'kind': 'binary', 'word': word, 'ta': 'byte', 'tb': 'int', 'ops': CMP, 'positions': ['value', 'branch', 'tid_stop'], 'tier': tier, 'storage': storage})
    return specs


LITERAL_OPERANDS = [0, 1, -1, 2, 10, 255, 256]


def literal_program(L):
    """every arithmetic and comparison operator with the literal L on the left and on the right of a run-time operand
    (int and byte), as value and as branch: identities such as x+0, x*1, 0-x, 1/x must not be confused with one another"""
    body = []
    lt = f'({L})' if L < 0 else str(L)
    for op in ARITH + CMP:
        for x in ('a', '(a is byte)'):
            for e, guard in ((f'{lt} {op} {x}', f'{x} != 0' if op in '/%' else None), (f'{x} {op} {lt}', 'false' if (op in '/%' and L == 0) else None)):
                if guard == 'false':
                    continue
                st = f'write({e});' if op in ARITH else f'if ({e}) {{ write(\'T\'); }} else {{ write(\'F\'); }} bool r = {e}; write(r is int);'
                if guard:
                    st = f'if ({guard}) {{ {st} }} else {{ write(\'z\'); }}'
                body.append(f'{{ {st} }} write(\' \');')
    if L in (0, 1):
        # and / or with a constant operand on either side, over int, byte and bool run-time operands, as value, branch and defeat
        k = 'true' if L else 'false'
        for op in ('and', 'or'):
            for x in ('a', '(a is byte)', '(a is bool)', '(a > 3)'):
                for e in (f'{x} {op} {k}', f'{k} {op} {x}', f'{x} {op} {L}', f'not ({x} {op} {k})'):
                    body.append(f"if ({e}) {{ write('T'); }} else {{ write('F'); }} bool lr{len(body)} = {e}; write(lr{len(body)} is int); "
                                f"try {{ !truth_is_defeat({e}); write('F'); }} undo {{ write('T'); }} write(' ');")
        # == / != of a run-time bool with the literal, on either side, as value, branch and defeat
        for op in ('==', '!='):
            for x in ('(a is bool)', '(a > 3)', '(not (a is bool))'):
                for e in (f'{x} {op} {k}', f'{k} {op} {x}'):
                    body.append(f"if ({e}) {{ write('T'); }} else {{ write('F'); }} bool lq{len(body)} = {e}; write(lq{len(body)} is int); "
                                f"try {{ !truth_is_defeat({e}); write('F'); }} undo {{ write('T'); }} write(' ');")
    return 'empty @is_you(const int[] v) {\n  for (int i = 0; i < v.length; i += 1) {\n    int a = v[i];\n    ' + '\n    '.join(body) + '\n    writeln();\n  }\n}\n'


def literal_logic_expected(a0, L):
    out = bytearray()
    for op in ('and', 'or'):
        for x in (a0 != 0, (a0 & 0xFF) != 0, a0 != 0, a0 > 3):
            for neg in (False, False, False, True):
                r = (x and bool(L)) if op == 'and' else (x or bool(L))
                if neg:
                    r = not r
                out += fmt(r) + (b'1' if r else b'0') + fmt(r) + b' '
    for op in ('==', '!='):
        for x in (a0 != 0, a0 > 3, a0 == 0):
            for _side in (0, 1):
                r = (x == bool(L)) if op == '==' else (x != bool(L))
                out += fmt(r) + (b'1' if r else b'0') + fmt(r) + b' '
    return bytes(out)


def literal_expected(sem, vals, L):
    out = bytearray()
    for a0 in vals:
        for op in ARITH + CMP:
            for x in (a0, a0 & 0xFF):
                for l, r, guard in ((L, x, op in '/%' and x == 0), (x, L, None if (op in '/%' and L == 0) else False)):
                    if guard is None:
                        continue
                    if guard:
                        out += b'z '
                        continue
                    v = sem.binop(op, l, r)
                    out += (fmt(v) if op in ARITH else fmt(bool(v)) + (b'1' if v else b'0')) + b' '
        if L in (0, 1):
            out += literal_logic_expected(a0, L)
        out += b'\n'
    return bytes(out)


def array_truth_program():
    """truthiness of arrays whose length is known to the compiler (0, 1, 2, 3, 9 elements, every element type and storage)
    and of arrays whose length is only known at run time, in every position"""
    decls = [('a0', 'int[] a0 = [];', 0), ('a1', 'int[] a1 = [v.length];', 1), ('a2', 'int[] a2 = [1, 2];', 2), ('b3', "byte[] b3 = ['x', 'y', 'z'];", 3),
             ('c2', 'const int[] c2 = [v.length, 2];', 2), ('f9', 'bool[] f9 = [true, false, true, false, true, false, true, false, false];', 9),
             ('s2', 'string[] s2 = ["", ""];', 2), ('d', 'int d[v.length];', None), ('e', 'byte e[v.length * 2];', None), ('z', 'bool z[0];', 0),
             ('g3', None, 3), ('g0', None, 0), ('v', None, None), ('[7, 8]', None, 2), ('[v.length]', None, 1), ('("ab" is byte[])', None, 2)]
    body = []
    for nm, decl, _ in decls:
        if decl:
            body.append(decl)
    for nm, _, _ in decls:
        body.append(f"if ({nm}) {{ write('T'); }} else {{ write('F'); }} if (not {nm}) {{ write('T'); }} else {{ write('F'); }} "
                    f"write({nm} is bool); write(({nm} is bool) is int); write({nm} and true); write(not {nm}); write({nm} or false); "
                    f"int n{len(body)} = 0; while ({nm} and n{len(body)} < 2) {{ n{len(body)} += 1; }} write(n{len(body)}); "
                    f"try {{ !truth_is_defeat({nm} is bool); write('F'); }} undo {{ write('T'); }} "
                    f"if ({nm} and v.length >= 0) {{ write('T'); }} else {{ write('F'); }} bool k{len(body)} = {nm} is bool; write(k{len(body)} == true); write(' ');")
    return 'int[] g3 = [1, 2, 3];\nint[] g0 = [];\nempty @is_you(const int[] v) {\n  ' + '\n  '.join(body) + '\n  writeln();\n}\n', decls


def array_truth_expected(decls, nargs):
    out = bytearray()
    f = lambda b: b'true' if b else b'false'       # noqa: E731
    c = lambda b: b'T' if b else b'F'              # noqa: E731
    for nm, _, n in decls:
        if n is None:
            n = nargs * 2 if nm == 'e' else nargs
        t = n != 0
        out += c(t) + c(not t) + f(t) + (b'1' if t else b'0') + f(t) + f(not t) + f(t) + (b'2' if t else b'0') + c(t) + c(t) + f(t) + b' '
    return bytes(out) + b'\n'


CONST_BYTES = [201, 1, 255, 7, 0, 128, 127, 254, 2, 200, 65, 90]


def constbytes_program():
    """byte elements of tables in the const section (global const table, all-literal local const table, string viewed as
    bytes, const parameter bound to each) widened to int: value, arithmetic, comparison, equality, index, truthiness"""
    lit = ', '.join(str(b) for b in CONST_BYTES)
    esc = ''.join('\\x%02x' % b for b in CONST_BYTES)
    return ('const byte[] GT = [' + lit + '];\n'
            'empty show(const byte[] p) { for (int i = 0; i < p.length; i += 1) { write(p[i] is int); write(\' \'); write(p[i] + 1); write(\' \'); '
            'write(p[i] < 200); write(p[i] == 201); write(p[i] * 2 - p[i]); write(\' \'); if (p[i]) { write(\'T\'); } else { write(\'F\'); } '
            'int[] q = [10, 20, 30, 40]; write(q[p[i] % 4]); int w = p[i]; write(w); write(\' \'); } writeln(); }\n'
            'empty @is_you() {\n  const byte[] LT = [' + lit + '];\n  string s = "' + esc + '";\n'
            '  show(GT); show(LT); show(s is byte[]); show(s); show("' + esc + '");\n'
            '  for (int i = 0; i < GT.length; i += 1) { write(GT[i] is int); write(\' \'); write((LT[i] is int) + ((s is byte[])[i] is int)); write(\' \'); write(GT[i] > LT[(i + 1) % LT.length]); write(\' \'); }\n  writeln();\n}\n')


def constbytes_expected():
    f = lambda b: b'true' if b else b'false'       # noqa: E731
    row = bytearray()
    for b in CONST_BYTES:
        row += str(b).encode() + b' ' + str(b + 1).encode() + b' ' + f(b < 200) + f(b == 201) + str(b).encode() + b' ' + (b'T' if b else b'F') + \
            str([10, 20, 30, 40][b % 4]).encode() + str(b).encode() + b' '
    row += b'\n'
    out = bytes(row) * 5
    last = bytearray()
    n = len(CONST_BYTES)
    for i, b in enumerate(CONST_BYTES):
        last += str(b).encode() + b' ' + str(2 * b).encode() + b' ' + f(b > CONST_BYTES[(i + 1) % n]) + b' '
    return out + bytes(last) + b'\n'


STRING_LENGTHS = [0, 1, 2, 255, 256, 257, 511, 512, 768, 1024]
STRING_PROG = '''
string gs = "";
bool truth(string s) { return s is bool; }
empty @is_you(const string[] w) {
  for (int i = 0; i < w.length; i += 1) {
    string s = w[i]; gs = s;
    write(s.length); write(' '); write(w[i].length); write(' '); write(gs.length); write(' '); write((s is byte[]).length); write(' ');
    if (s) { write('T'); } else { write('F'); }
    if (not s) { write('T'); } else { write('F'); }
    if (w[i]) { write('T'); } else { write('F'); }
    if (gs) { write('T'); } else { write('F'); }
    write(s is bool); write(' '); write((s is bool) is int); write(truth(s)); write(' ');
    write(s and true); write(s or false); write(not s); write(not not s); write(' ');
    bool keep = s is bool; write(keep); bool[] fa = [s is bool, gs is bool]; write(fa[0] == fa[1]); write(' ');
    try { !truth_is_defeat(s is bool); write('F'); } undo { write('T'); }
    try { !truth_is_defeat(not s); write('F'); } stop { write('T'); }
    int n = 0; while (s and n < 2) { n += 1; } write(n);
    write((s.length > 0) == (s is bool)); write(s.length == 0 or s);
    writeln();
  }
}
'''


def string_expected():
    out = bytearray()
    f = lambda b: b'true' if b else b'false'       # noqa: E731
    c = lambda b: b'T' if b else b'F'              # noqa: E731
    for n in STRING_LENGTHS:
        t = n != 0
        out += (str(n).encode() + b' ') * 4 + c(t) + c(not t) + c(t) + c(t)
        out += f(t) + b' ' + (b'1' if t else b'0') + f(t) + b' ' + f(t) + f(t) + f(not t) + f(t) + b' '
        out += f(t) + f(True) + b' ' + c(t) + c(not t) + (b'2' if t else b'0') + f(True) + f(True) + b'\n'
    return bytes(out)


def run_shard(spec):
    res = runner.new_result()
    word = spec['word']
    sem = Sem(8 * word)
    vals = grid(8 * word, spec['tier'] == 'quick')
    args = [str(v) for v in vals]
    if spec['kind'] == 'arraytruth':
        src, decls = array_truth_program()
        jobs = [('byte elements of const-section tables', constbytes_program(), constbytes_expected(), len(CONST_BYTES) * 50, [])]
        for nargs in (0, 1, 3):
            jobs.append((f'array truthiness with {nargs} arguments', src, array_truth_expected(decls, nargs), len(decls) * 11, [str(k) for k in range(nargs)]))
    elif spec['kind'] == 'literals':
        jobs = [(f'literal {L} as left/right operand', literal_program(L), literal_expected(sem, vals, L), len(vals) * 40) for L in LITERAL_OPERANDS]
    elif spec['kind'] == 'strings':
        # truthiness and length of run-time strings at the sizes where a narrower load would show (multiples of 256)
        args = [bytes(97 + (k % 26) for k in range(n)).decode() for n in STRING_LENGTHS]
        vals = STRING_LENGTHS
        jobs = [('string length and truthiness', STRING_PROG, string_expected(), len(STRING_LENGTHS) * 24)]
    elif spec['kind'] == 'unary':
        st = spec.get('storage', 'local')
        if st == 'const':
            # also constants beyond the word (the immediate wraps like any other value; none of them wraps to 0, where folding on
            # unbounded integers - the recorded finding fold-nowrap - would show in the truthiness tests)
            half, full = 1 << (8 * word - 1), 1 << (8 * word)
            cvals = CONST_VALS + [half, full - 1, full + 5, -half - 1, 3 * half + 1]
            jobs = [(f'unary+casts ({st} operands)', unary_program(st, cvals), unary_expected(sem, [sem.wrap(v) for v in cvals]), len(cvals) * (len(UNARY) + 25))]
            vals = cvals
        else:
            jobs = [(f'unary+casts ({st} operands)', unary_program(st), unary_expected(sem, vals), len(vals) * (len(UNARY) + 25))]
    else:
        jobs = []
        for pos in spec['positions']:
            st = spec.get('storage', 'local')
            src = binary_program(spec['ops'], spec['ta'], spec['tb'], pos, st)
            jobs.append((f'{spec["ta"]} {"".join(spec["ops"])} {spec["tb"]} as {pos} ({st} operands)', src,
                         binary_expected(sem, vals, spec['ops'], spec['ta'], spec['tb'], pos), len(vals) ** 2 * len(spec['ops'])))
    for job in jobs:
        tag, src, want, napps = job[:4]
        if len(job) > 4:
            args = job[4]
        res['evaluations'] += 1
        case = diff.case_dict(src, args, word, diff.GENEROUS_STACK, spec.get('unchecked', False), gen=tag)
        run = diff.compile_and_run(src, args, word=word, stack=diff.GENEROUS_STACK, max_steps=60_000_000, monitors=False, unchecked=spec.get('unchecked', False))
        if spec.get('unchecked'):
            tag += ' --unchecked'
        if run.kind != 'ok':
            runner.fail(res, 'M-OP', f'{tag}: {run.kind}: {run.detail}', case)
            continue
        o = run.outcome
        runner.count(res, 'vm_steps', o.steps)
        if o.klass == 'TIMEOUT':
            res['inconclusive'].append(f'{tag}: step budget')
            continue
        if o.out != want or o.klass != 'WIN':
            got_l, want_l = o.out.split(b'\n'), want.split(b'\n')
            msg = f'{o.klass}'
            for i, (g, w) in enumerate(zip(got_l, want_l)):
                if g != w:
                    gs, ws = g.split(b' '), w.split(b' ')
                    j = next((k for k, (x, y) in enumerate(zip(gs, ws)) if x != y), 0)
                    nops = len(spec.get('ops', [1]))
                    if spec['kind'] == 'binary':
                        msg = (f'a={vals[i] if i < len(vals) else "?"} b={vals[j // nops] if j // nops < len(vals) else "?"} op {spec["ops"][j % nops]}: printed {gs[j]!r}, specified {ws[j]!r}')
                    else:
                        msg = f'a={vals[i] if i < len(vals) else "?"} item {j}: printed {gs[j]!r}, specified {ws[j]!r}'
                    break
            runner.fail(res, 'M-OP', f'{tag} (word {word}): {msg}', case, expected=want[:400].decode('latin-1'), observed=o.brief())
            continue
        runner.count(res, 'applications_checked', napps)
        res['nontrivial'].append(runner.case_id(tag, word))
        if len(res['samples']) < 1:
            res['samples'].append({'program': tag, 'word': word, 'grid': vals, 'first_line_of_output': want.split(b'\n')[0][:200].decode('latin-1')})
    res['exhaustive'] = True
    return res
