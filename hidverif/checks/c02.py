"""C02 - try/undo, try/stop, preempt and ?? follow their time-travel semantics.

Oracle: M-DIFF between the committed SVM timeline and RefInt's replay-DFS
resolution of choice points, on generated *histories* of try blocks; M-BAL at
stop handlers (frame and array stack as at try entry); the author's
time-travel expectations (upstream test_codegen.py) on the SVM."""
import random

from .. import diff, runner, upstream
from ..gen.timegen import TimeGen
from ..gen import idioms
from ..model import ast as A
from . import common

PROPERTY = 'C02'
RULE = ('random histories of 2-5 try blocks per run (undo/stop, inside loops, left by break/continue/return, handlers '
        'containing tries), preempt in try bodies and (recursive) defeat functions 1-3 deep, ?? with side-effecting '
        'operands, infinite loops inside try bodies; each at word sizes 2,3,4, checked and unchecked; non-trivial = the '
        'model needed >= 1 backtrack and executed >= 2 try blocks, or a preempt was forced, or a ?? left side was '
        'skipped; distinct by hash of (source, args); plus the enumerated ?? grid of gen/idioms.py (7 left x 8 right operand '
        'kinds in 13 expression positions, 5 argument vectors) and the preempt-placement / return-expression grid of gen/faultgrid.py; the enumerated try-block histories of gen/idioms.py '
        '(196 ordered pairs of try blocks by kind and defeat source, 128 try-in-loop programs by body and handler exit route)')
ASSUMPTIONS = common.ISA_ASSUMPTIONS
REQUIRED_HIDC_FUNCTIONS = ['codegen/generator:CodeGen.gen_block', 'codegen/generator:CodeGen.truth_is_defeat']     # M-COV: deciding code never entered => inconclusive
MIN_NONTRIVIAL = {'quick': 100, 'thorough': 1000}
MAX_STEPS = 600_000


def plan(tier, seed):
    n, per = (16, 30) if tier == 'quick' else (64, 100)
    specs = [{'kind': 'gen', 'seed': s, 'count': per} for s in common.shard_seeds(seed, n)]
    specs.append({'kind': 'upstream'})
    specs += [{'kind': 'specgrid', 'part': i, 'parts': 4} for i in range(4)]
    specs += [{'kind': 'nonlocal', 'part': i, 'parts': 4} for i in range(4)]
    specs += [{'kind': 'history', 'part': i, 'parts': 8, 'tier': tier} for i in range(8)]
    specs += [{'kind': 'scale', 'part': i, 'parts': 2} for i in range(2)]
    specs += [{'kind': 'examples', 'seed': seed * 100 + j} for j in range(4 if tier == 'quick' else 16)]
    return specs


def handler_reports(o):
    return [r for r in o.reports if r[1] == 'bal' and ('handler' in r[2])]


def check_program(res, prog, args, rng, tag, max_steps=MAX_STEPS):
    src = A.render(prog)
    cid = runner.case_id(src, args)
    nontrivial = False
    ref = None
    for word in common.WORDS_ALL:
        for unchecked in (False, True):
            ref, why = diff.model_run(prog, args, word, checked=not unchecked)
            res['evaluations'] += 1
            run = diff.compile_and_run(src, args, word=word, stack=diff.GENEROUS_STACK, unchecked=unchecked,
                                       max_steps=max_steps)
            case = diff.case_dict(src, args, word, diff.GENEROUS_STACK, unchecked, gen=tag)
            if run.kind == 'reject':
                runner.fail(res, 'M-DIFF', f'well-formed program rejected: {run.detail}', case)
                return
            if run.kind in ('internal', 'asm'):
                runner.fail(res, 'M-EXC' if run.kind == 'internal' else 'M-ASM', run.detail, case)
                return
            o = run.outcome
            common.side_observe(res, run)
            if o.klass == 'TIMEOUT':
                runner.count(res, 'vm_timeouts')
                continue
            hr = handler_reports(o)
            if hr and ref is not None:
                runner.fail(res, 'M-BAL', hr[0][2], case, observed=o.brief())
                return
            if ref is None:
                runner.count(res, 'model_skips')
                runner.note(res, 'model_skip_reasons', why[:60])
                continue
            msg = diff.compare_streams(ref, o)
            if msg:
                runner.fail(res, 'M-DIFF', msg, case, expected=ref.brief(), observed=o.brief())
                return
            runner.count(res, 'agree_' + ref.klass.split(':')[0])
            st = ref.stats
            runner.count(res, 'model_replays', st['replays'])
            runner.count(res, 'model_choice_points', st['choices'])
            runner.count(res, 'model_defeats_caught_by_stop', st['defeats'])
            runner.count(res, 'model_forced_preempts', st['forced_preempts'])
            runner.count(res, 'model_spec_left_skipped', st['spec_skipped'])
            if ref.klass == 'ERROR:nonlocal_preempt':
                runner.count(res, 'nonlocal_preempt_predicted_and_seen')
            if (st['replays'] > 1 and st['tries'] >= 2) or st['forced_preempts'] or st['spec_skipped']:
                nontrivial = True
    if nontrivial:
        res['nontrivial'].append(cid)
        if len(res['samples']) < 2 and ref is not None:
            res['samples'].append({'source': src[:1800], 'args': args, 'model': ref.brief()})


def run_shard(spec):
    res = runner.new_result()
    if spec['kind'] == 'upstream':
        r = upstream.run_upstream('time')
        if r['error']:
            res['inconclusive'].append('upstream expectations: ' + r['error'])
        res['evaluations'] += len(r['passed']) + len(r['failed'])
        runner.count(res, 'upstream_expectations_passed', len(r['passed']))
        for name, msg in r['failed'].items():
            runner.fail(res, 'UPSTREAM', f"author's expectation {name} fails on the SVM: {msg}", {'upstream_test': name})
        return res
    if spec['kind'] == 'examples':
        run_examples(res, spec['seed'])
        return res
    if spec['kind'] == 'history':
        rng = random.Random(0)
        for k, (tag, prog) in enumerate(idioms.history_programs()):
            if k % spec['parts'] == spec['part']:
                argsets = idioms.HISTORY_ARGS if (spec['tier'] != 'quick' or tag.startswith('history-nested')) else [idioms.HISTORY_ARGS[(k // 8) % 4], idioms.HISTORY_ARGS[(k // 8 + 1 + k % 3) % 4]]
                for args in argsets:
                    check_program(res, prog, args, rng, tag)
        return res
    if spec['kind'] == 'scale':
        # 9-34 try blocks in a row (two-digit handler numbers), in one function and spread over many
        rng = random.Random(0)
        for k, tag, prog, argsets in common.scale_items(('tries',)):
            if k % spec['parts'] == spec['part']:
                for args in argsets:
                    check_program(res, prog, args, rng, tag)
        return res
    if spec['kind'] == 'nonlocal':
        # preempt placement x caller shape, and return expressions that call defeat functions (the C05 grid, here judged on
        # the whole committed timeline in both builds)
        from ..gen import faultgrid
        rng = random.Random(0)
        for k, (tag, prog) in enumerate(faultgrid.nonlocal_programs()):
            if k % spec['parts'] == spec['part']:
                for args in (['60', '0'], ['1', '0'], ['3', '1'], ['99', '1']):
                    check_program(res, prog, args, rng, tag)
        return res
    if spec['kind'] == 'specgrid':
        rng = random.Random(0)
        for k, (tag, prog) in enumerate(idioms.spec_programs()):
            if k % spec['parts'] == spec['part']:
                for args in idioms.SPEC_ARGS:
                    check_program(res, prog, args, rng, tag)
        # the same on bool and byte operands, in condition positions, as first and as later statement of a function
        for k, (tag, prog) in enumerate(idioms.spec_bool_programs()):
            if k % spec['parts'] == spec['part']:
                for args in idioms.SPEC_BOOL_ARGS:
                    check_program(res, prog, args, rng, tag)
        return res
    rng = random.Random(spec['seed'])
    for i in range(spec['count']):
        s = spec['seed'] * 100003 + i
        prog, args = TimeGen(s).program()
        check_program(res, prog, args, rng, f'time:{s}')
    return res


# ----------------------------------------------------------------------------
# examples/*.hid as time-travel algorithms with harness-computed oracles
def _decimal_expect(num, den):
    ip, rem = divmod(num, den)
    digits, seen = [], {}
    while rem and rem not in seen:
        seen[rem] = len(digits)
        rem *= 10
        digits.append(str(rem // den))
        rem %= den
    if not rem:
        frac = ''.join(digits)
        return f'{num} / {den} = {ip}' + (f'.{frac}' if frac else '') + '\n'
    k = seen[rem]
    return f'{num} / {den} = {ip}.' + ''.join(digits[:k]) + '(' + ''.join(digits[k:]) + ')\n'


def _is_prime(n):
    return n >= 2 and all(n % d for d in range(2, int(n ** 0.5) + 1))


def _factor_ok(line, n):
    """'Factorization of n: ((2 * 2) * 3)' or 'n -- it's prime!'"""
    head = f'Factorization of {n}: '
    if not line.startswith(head):
        return False
    rest = line[len(head):]
    if rest.endswith(" -- it's prime!"):
        return rest[:-len(" -- it's prime!")] == str(n) and _is_prime(n)
    import re
    leaves = [int(x) for x in re.findall(r'\d+', rest)]
    prod = 1
    for x in leaves:
        prod *= x
    return len(leaves) >= 2 and prod == n and all(_is_prime(x) for x in leaves) and rest.count('(') == rest.count(')') == len(leaves) - 1


def example_cases(r):
    import os
    from .. import env
    ex = os.path.join(env.REPO, 'examples')

    def src(name):
        with open(os.path.join(ex, name)) as f:
            return f.read()
    for _ in range(8):
        v = [r.randint(-50, 50) for _ in range(r.randint(1, 7))]
        yield 'max.hid', src('max.hid'), [str(x) for x in v], lambda out, v=v: out == f'Max value: {max(v)}\n'
        yield 'optional_max.hid', src('optional_max.hid'), [str(x) for x in v], lambda out, v=v: out == f'Max value: {max(v)}\n'
    yield 'optional_max.hid', src('optional_max.hid'), [], lambda out: out == 'Empty array\n'
    for _ in range(6):
        v = [r.randint(-20, 99) for _ in range(r.randint(0, 6))]
        yield 'mergesort.hid', src('mergesort.hid'), [str(x) for x in v], lambda out, v=v: out == 'Sorted: [' + ', '.join(map(str, sorted(v))) + ']\n'
    for _ in range(4):
        v = [r.choice([2, 3, 4, 6, 7, 9, 12, 15, 16, 21, 25, 30, 49, 97]) for _ in range(r.randint(1, 2))]
        yield 'factor.hid', src('factor.hid'), [str(x) for x in v], \
            lambda out, v=v: out.endswith('\n') and len(out.splitlines()) == len(v) and all(_factor_ok(l, n) for l, n in zip(out.splitlines(), v))
    for _ in range(8):
        n, d = r.randint(0, 40), r.choice([1, 2, 3, 4, 6, 7, 8, 9, 11, 12, 13, 14, 25, 27])
        yield 'decimal.hid', src('decimal.hid'), [str(n), str(d)], lambda out, n=n, d=d: out == _decimal_expect(n, d)
    yield 'sat.hid', src('sat.hid'), [], lambda out: out == 'Satisfying solution:\nX1 = false\nX2 = false\nX3 = true\n'
    yield 'hello.hid', src('hello.hid'), [], lambda out: out == 'Hello world!\nSome numbers: 1 2 3 4 5 6 7 8 9 10\n'


def run_examples(res, seed):
    r = random.Random(seed)
    for name, source, args, ok in example_cases(r):
        for word in (2, 3):
            res['evaluations'] += 1
            run = diff.compile_and_run(source, args, word=word, stack=500, max_steps=6_000_000)
            case = diff.case_dict(source, args, word, 500, gen='example:' + name)
            if run.kind != 'ok':
                runner.fail(res, 'EXAMPLE', f'{name} {args}: {run.kind}: {run.detail}', case)
                continue
            o = run.outcome
            common.side_observe(res, run)
            if o.klass == 'TIMEOUT':
                runner.count(res, 'example_timeouts')
                continue
            text = o.out.decode('latin-1')
            if o.klass != 'WIN' or not ok(text):
                runner.fail(res, 'EXAMPLE', f'{name} with arguments {args} (word {word}) prints {text[:120]!r} and ends {o.klass}: not what the algorithm must compute',
                            case, observed=o.brief())
                continue
            runner.count(res, 'example_runs_correct')
            if o.backtracks > 0:
                res['nontrivial'].append(runner.case_id(name, args, word))
