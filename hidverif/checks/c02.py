"""C02 - try/undo, try/stop, preempt and ?? follow their time-travel semantics.

Oracle: M-DIFF between the committed SVM timeline and RefInt's replay-DFS
resolution of choice points, on generated *histories* of try blocks; M-BAL at
stop handlers (frame and array stack as at try entry); the author's
time-travel expectations (upstream test_codegen.py) on the SVM."""
import random

from .. import diff, runner, upstream
from ..gen.timegen import TimeGen
from ..model import ast as A
from . import common

PROPERTY = 'C02'
RULE = ('random histories of 2-5 try blocks per run (undo/stop, inside loops, left by break/continue/return, handlers '
        'containing tries), preempt in try bodies and (recursive) defeat functions 1-3 deep, ?? with side-effecting '
        'operands, infinite loops inside try bodies; each at word sizes 2,3,4, checked and unchecked; non-trivial = the '
        'model needed >= 1 backtrack and executed >= 2 try blocks, or a preempt was forced, or a ?? left side was '
        'skipped; distinct by hash of (source, args)')
ASSUMPTIONS = common.ISA_ASSUMPTIONS
MIN_NONTRIVIAL = {'quick': 100, 'thorough': 1000}
MAX_STEPS = 600_000


def plan(tier, seed):
    n, per = (16, 30) if tier == 'quick' else (64, 100)
    specs = [{'kind': 'gen', 'seed': s, 'count': per} for s in common.shard_seeds(seed, n)]
    specs.append({'kind': 'upstream'})
    return specs


def handler_reports(o):
    return [r for r in o.reports if r[1] == 'bal' and ('handler' in r[2])]


def check_program(res, prog, args, rng, tag, max_steps=MAX_STEPS):
    src = A.render(prog)
    cid = runner.case_id(src, args)
    nontrivial = False
    ref = None
    for word in common.WORDS_ALL:
        for unchecked in (False, True):
            ref, why = diff.model_run(prog, args, word, checked=not unchecked)
            res['evaluations'] += 1
            run = diff.compile_and_run(src, args, word=word, stack=diff.GENEROUS_STACK, unchecked=unchecked,
                                       max_steps=max_steps)
            case = diff.case_dict(src, args, word, diff.GENEROUS_STACK, unchecked, gen=tag)
            if run.kind == 'reject':
                runner.fail(res, 'M-DIFF', f'well-formed program rejected: {run.detail}', case)
                return
            if run.kind in ('internal', 'asm'):
                runner.fail(res, 'M-EXC' if run.kind == 'internal' else 'M-ASM', run.detail, case)
                return
            o = run.outcome
            common.side_observe(res, run)
            if o.klass == 'TIMEOUT':
                runner.count(res, 'vm_timeouts')
                continue
            hr = handler_reports(o)
            if hr and ref is not None:
                runner.fail(res, 'M-BAL', hr[0][2], case, observed=o.brief())
                return
            if ref is None:
                runner.count(res, 'model_skips')
                runner.note(res, 'model_skip_reasons', why[:60])
                continue
            msg = diff.compare_streams(ref, o)
            if msg:
                runner.fail(res, 'M-DIFF', msg, case, expected=ref.brief(), observed=o.brief())
                return
            runner.count(res, 'agree_' + ref.klass.split(':')[0])
            st = ref.stats
            runner.count(res, 'model_replays', st['replays'])
            runner.count(res, 'model_choice_points', st['choices'])
            runner.count(res, 'model_defeats_caught_by_stop', st['defeats'])
            runner.count(res, 'model_forced_preempts', st['forced_preempts'])
            runner.count(res, 'model_spec_left_skipped', st['spec_skipped'])
            if ref.klass == 'ERROR:nonlocal_preempt':
                runner.count(res, 'nonlocal_preempt_predicted_and_seen')
            if (st['replays'] > 1 and st['tries'] >= 2) or st['forced_preempts'] or st['spec_skipped']:
                nontrivial = True
    if nontrivial:
        res['nontrivial'].append(cid)
        if len(res['samples']) < 2 and ref is not None:
            res['samples'].append({'source': src[:1800], 'args': args, 'model': ref.brief()})


def run_shard(spec):
    res = runner.new_result()
    if spec['kind'] == 'upstream':
        r = upstream.run_upstream('time')
        if r['error']:
            res['inconclusive'].append('upstream expectations: ' + r['error'])
        res['evaluations'] += len(r['passed']) + len(r['failed'])
        runner.count(res, 'upstream_expectations_passed', len(r['passed']))
        for name, msg in r['failed'].items():
            runner.fail(res, 'UPSTREAM', f"author's expectation {name} fails on the SVM: {msg}", {'upstream_test': name})
        return res
    rng = random.Random(spec['seed'])
    for i in range(spec['count']):
        s = spec['seed'] * 100003 + i
        prog, args = TimeGen(s).program()
        check_program(res, prog, args, rng, f'time:{s}')
    return res
