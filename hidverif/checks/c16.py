"""C16 - control never runs off the end of a function.

Monitors: M-FALL on the SVM (pc -> pc+1 without a taken jump entering another
function's region), RefInt with the missing-return check turned into an
observation (an *accepted* value-returning function whose body actually
completes on a tested input), and M-DIFF (statements the compiler dropped as
unreachable have effects in the model, or the reverse)."""
import random

from .. import diff, env, runner
from ..gen.exits import ExitGen
from ..model import ast as A
from ..model.refint import RefInt, Skip, FellOff
from . import common

PROPERTY = 'C16'
RULE = ('random function bodies (ordinary, you and defeat flavours; empty and int returns) assembled from constant-true loops whose only '
        'ways out are chosen among break/return/terminal call/defeat, if/else with returning and non-returning arms, try/undo, try/stop, '
        'preempt with return/break/continue, defeat calls, all_is_win/all_is_broken, exits followed by unreachable statements; each accepted '
        'program is run on inputs 0..5 at word sizes 2 and 3, checked and unchecked, followed in memory by a function that prints <NEXT>; '
        'plus the enumerated grid of 392 loop-exit programs (5 loop kinds x 14 body shapes x what follows x return type) and 56 return-path shapes '
        '(open ones, incl. bare `return;`, must be rejected; closed ones accepted and run); '
        'non-trivial = the body nests >= 2 exit constructs; distinct by hash of (source, input)')
ASSUMPTIONS = common.ISA_ASSUMPTIONS + ['accept/reject is compared one-directionally: rejecting a function that cannot complete is conservative, not a violation']
REQUIRED_HIDC_FUNCTIONS = ['ast/blocks:CodeBlock.evaluate', 'ast/blocks:LoopBlock.exit_modes', 'ast/blocks:TryBlock.exit_modes']     # M-COV: deciding code never entered => inconclusive
MIN_NONTRIVIAL = {'quick': 800, 'thorough': 8000}
MAX_STEPS = 200_000
INPUTS = ['0', '1', '2', '3', '4', '5']


def plan(tier, seed):
    n, per = (16, 45) if tier == 'quick' else (64, 160)
    parts = 4 if tier == 'quick' else 8
    return [{'kind': 'gen', 'seed': s, 'count': per} for s in common.shard_seeds(seed, n)] + \
           [{'kind': 'grid', 'part': i, 'parts': parts, 'tier': tier} for i in range(parts)] + [{'kind': 'reject'}]


def nest_exits(stmts, depth=0):
    """number of exit constructs nested at depth >= 1"""
    n = 0
    for s in stmts:
        if isinstance(s, (A.Ret, A.Break, A.Continue)) and depth >= 1:
            n += 1
        if isinstance(s, A.ExprStmt) and isinstance(s.e, A.Call) and depth >= 1 and \
                (s.e.func in ('all_is_win', 'all_is_broken', '!is_defeat') or not isinstance(s.e.func, str)):
            n += 1
        for attr in ('a', 'b', 'body', 'handler'):
            if attr in s.__slots__ and isinstance(getattr(s, attr), list):
                n += nest_exits(getattr(s, attr), depth + 1)
    return n


def check_one(res, prog, ret, tag, words=(2, 3)):
    CompilerError, _ = env.compiler_error_types()
    src = A.render(prog)
    nontrivial = nest_exits(prog.funcs[1].body) >= 2
    try:
        env.compile_src(src, word=2, stack=500)
    except CompilerError as e:
        res['evaluations'] += 1
        if 'Missing return' in str(e) and ret != A.EMPTY:
            runner.count(res, 'rejected_missing_return')
        else:
            runner.fail(res, 'M-DIFF', f'well-formed program rejected: {type(e).__name__}: {e}', diff.case_dict(src, [], 2, 500, gen=tag))
        return
    except Exception as e:  # noqa
        runner.fail(res, 'M-EXC', f'{type(e).__name__}: {e}', diff.case_dict(src, [], 2, 500, gen=tag))
        return
    runner.count(res, 'accepted')
    if ret != A.EMPTY:
        runner.count(res, 'accepted_value_returning')
    bad = False
    for word in words:
        for unchecked in (False, True):
            for x in INPUTS:
                if bad:
                    break
                res['evaluations'] += 1
                case = diff.case_dict(src, [x], word, diff.GENEROUS_STACK, unchecked, gen=tag)
                run = diff.compile_and_run(src, [x], word=word, stack=diff.GENEROUS_STACK, unchecked=unchecked, max_steps=MAX_STEPS)
                if run.kind != 'ok':
                    runner.fail(res, 'M-ASM' if run.kind == 'asm' else 'M-EXC', f'{run.kind}: {run.detail}', case)
                    bad = True
                    break
                o = run.outcome
                common.side_observe(res, run)
                fall = [r for r in o.reports if r[1] == 'fall']
                if fall:
                    runner.fail(res, 'M-FALL', fall[0][2], case, observed=o.brief())
                    bad = True
                    break
                bal = [r for r in o.reports if r[1] == 'bal']
                if bal:
                    # clean-up code dropped as "unreachable" although its path is taken shows as an unbalanced (fp, ap)
                    runner.fail(res, 'M-BAL', bal[0][2], case, observed=o.brief())
                    bad = True
                    break
                if b'<NEXT>' in o.out:
                    runner.fail(res, 'M-FALL', 'the function placed after the one under test ran although it is never called', case, observed=o.brief())
                    bad = True
                    break
                if o.klass == 'TIMEOUT':
                    runner.count(res, 'vm_timeouts')
                    continue
                try:
                    ref = RefInt(prog, word=word, args=[x], checked=not unchecked).run()
                except FellOff as e:
                    runner.fail(res, 'M-ACCEPT', f'accepted, but on input {x} control reaches the end of value-returning function {e.fname}',
                                case, observed=o.brief())
                    bad = True
                    break
                except Skip as sk:
                    runner.count(res, 'model_skips')
                    runner.note(res, 'model_skip_reasons', sk.why[:60])
                    if o.klass in ('HALT', 'TRAP'):
                        runner.fail(res, 'M-HALT', f'{o.klass} {o.trap}', case, observed=o.brief())
                        bad = True
                    continue
                msg = diff.compare_streams(ref, o)
                if msg:
                    runner.fail(res, 'M-DIFF', msg, case, expected=ref.brief(), observed=o.brief())
                    bad = True
                    break
                runner.count(res, 'agree_' + ref.klass.split(':')[0])
                if nontrivial:
                    res['nontrivial'].append(runner.case_id(src, x))
    if len(res['samples']) < 2 and nontrivial and not bad:
        res['samples'].append({'gen': tag, 'source': src[:1500], 'inputs': INPUTS})


def run_shard(spec):
    res = runner.new_result()
    if spec['kind'] == 'reject':
        # value-returning functions that can complete without a value: the end of the body is reachable (25 shapes), or a
        # bare `return;` stands somewhere in it.  Each must be rejected; the closed counterparts must be accepted and,
        # when run under M-FALL, never leave their function
        from ..gen import typing as T
        CompilerError, _ = env.compiler_error_types()
        bare = [('bare_return_' + k, T.program('\n    write(rv(iv));', v + '\n'), False) for k, v in {
            'top': 'int rv(int q) { return; }',
            'in_if': 'int rv(int q) { if (q > 0) { return; } return 1; }',
            'in_else': 'int rv(int q) { if (q > 0) { return 2; } else { return; } }',
            'in_loop': 'int rv(int q) { while (q > 0) { q -= 1; if (q == 3) { return; } } return q; }',
            'in_for': 'int rv(int q) { for (int i = 0; i < q; i += 1) { return; } return 0; }',
            'in_block': 'int rv(int q) { { return; } }',
            'after_value_return': 'int rv(int q) { if (q > 0) { return 1; } return; }',
            'byte_function': 'byte rvb(int q) { return; }\nint rv(int q) { return rvb(q); }',
            'bool_function': 'bool rvf(int q) { if (q > 1) { return; } return true; }\nint rv(int q) { return rvf(q) is int; }',
            'string_function': 'string rvs(int q) { return; }\nint rv(int q) { return rvs(q).length; }',
        }.items()]
        bare += [('bare_return_in_you_try', T.program('\n    write(@rv(iv));', 'int !dz(int k) { !truth_is_defeat(k == 1); return k; }\nint @rv(int q) { try { write(!dz(q)); return; } stop { return 0; } }\n'), False),
                 ('bare_return_in_handler', T.program('\n    write(@rv(iv));', 'int !dz(int k) { !truth_is_defeat(k == 1); return k; }\nint @rv(int q) { try { return !dz(q); } undo { return; } }\n'), False),
                 ('bare_return_in_preempt', T.program('\n    try { write(!rv(iv)); } undo { }', 'int !rv(int q) { preempt { return; } return q; }\n'), False)]
        for tag, src, ok in list(T.return_cases()) + bare:
            res['evaluations'] += 1
            case = diff.case_dict(src, [], 2, 500, gen=tag)
            try:
                env.compile_src(src, word=2, stack=500)
                accepted = True
            except CompilerError as e:
                accepted = False
                why = str(e)
            except Exception as e:  # noqa
                runner.fail(res, 'M-EXC', f'{tag}: {type(e).__name__}: {e}', case)
                continue
            if accepted and not ok:
                runner.fail(res, 'M-ACCEPT', f'{tag}: accepted although the function can complete without returning a value', case)
            elif not accepted and ok:
                runner.fail(res, 'M-DIFF', f'{tag}: every path returns, yet the program is rejected: {why}', case)
            elif accepted:
                run = diff.compile_and_run(src, [], word=2, stack=diff.GENEROUS_STACK, max_steps=MAX_STEPS)
                fall = [r for r in run.outcome.reports if r[1] == 'fall'] if run.kind == 'ok' else []
                if run.kind != 'ok' or fall or run.outcome.klass in ('HALT', 'TRAP'):
                    runner.fail(res, 'M-FALL', f'{tag}: {fall[0][2] if fall else run.kind if run.kind != "ok" else run.outcome.klass}', case)
                else:
                    runner.count(res, 'closed_shapes_run_clean')
                    res['nontrivial'].append(runner.case_id('shape', src))
            else:
                runner.count(res, 'open_shapes_rejected')
                res['nontrivial'].append(runner.case_id('shape', src))
        # the entry point is a function like any other: called again (by itself, or through another you-function) it returns to its caller
        for tag, src, args, want in (
                ('recursive entry point', "empty @is_you(int n) { write('d'); write(n); if (n > 0) { @is_you(n - 1); write('u'); write(n); } else { write('b'); } write(';'); }\n", ['3'],
                 b'd3d2d1d0b;u1;u2;u3;'),
                ('entry point called through another you-function', 'int depth = 0;\nempty @again() { depth += 1; if (depth < 3) { @is_you(depth); } write(depth); }\n'
                 "empty @is_you(int n) { write('e'); write(n); @again(); write('x'); write(n); if (n > 5) { return; } write('.'); }\n", ['9'], b'e9e1e23x2.3x1.3x9'),
                ('early return in a nested activation', "empty @is_you(int n) { if (n == 0) { write('z'); return; } @is_you(n - 1); write(n); }\n", ['4'], b'z1234')):
            for word in (2, 3):
                for unchecked in (False, True):
                    res['evaluations'] += 1
                    run = diff.compile_and_run(src, args, word=word, stack=diff.GENEROUS_STACK, unchecked=unchecked, max_steps=MAX_STEPS)
                    case = diff.case_dict(src, args, word, diff.GENEROUS_STACK, unchecked, gen=tag)
                    if run.kind != 'ok':
                        runner.fail(res, 'M-FALL', f'{tag}: {run.kind}: {run.detail}', case)
                    elif run.outcome.out != want or run.outcome.klass != 'WIN':
                        runner.fail(res, 'M-FALL', f'{tag}: printed {run.outcome.out!r} ({run.outcome.klass}), expected {want!r}: an activation did not return to its caller', case,
                                    expected=want.decode(), observed=run.outcome.brief())
                    else:
                        runner.count(res, 'entry_point_activations_return')
        # the library routines are functions too: no operand (empty, one element, long; every storage kind) may make one of
        # them run on into the routine that follows it
        from .c03 import LIBRARY_PROGRAMS
        for tag, src, argsets in LIBRARY_PROGRAMS:
            for a in argsets:
                for word in (2, 3, 4):
                    for unchecked in (False, True):
                        res['evaluations'] += 1
                        run = diff.compile_and_run(src, a, word=word, stack=diff.GENEROUS_STACK, unchecked=unchecked, max_steps=MAX_STEPS)
                        case = diff.case_dict(src, a, word, diff.GENEROUS_STACK, unchecked, gen='library:' + tag)
                        fall = [r for r in run.outcome.reports if r[1] == 'fall'] if run.kind == 'ok' else []
                        if run.kind != 'ok' or fall or run.outcome.klass in ('HALT', 'TRAP'):
                            runner.fail(res, 'M-FALL', f'library {tag}: {fall[0][2] if fall else (run.kind + ": " + str(run.detail)) if run.kind != "ok" else run.outcome.klass + " " + str(run.outcome.trap)}', case)
                        else:
                            runner.count(res, 'library_runs_clean')
        res['exhaustive'] = True
        return res
    if spec['kind'] == 'grid':
        from ..gen import exits
        for k, (tag, prog, ret) in enumerate(exits.loop_exit_programs()):
            if k % spec['parts'] == spec['part']:
                check_one(res, prog, ret, tag, words=(2,) if spec['tier'] == 'quick' else (2, 3))
        return res
    for i in range(spec['count']):
        s = spec['seed'] * 100003 + i
        prog, flavor, ret = ExitGen(s).program()
        check_one(res, prog, ret, f'exits:{s}:{flavor or "ordinary"}:{ret}')
    return res
