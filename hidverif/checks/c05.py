"""C05 - runtime faults are detected exactly, first, and terminally.

Oracle: M-DIFF against RefInt (which raises the same faults from the source
semantics: flag <kind>, flag error, nothing after) and M-END (terminal-state
discipline), on a boundary grid (every faulting operator x element type x
storage class x access form, operand from the command line) and on random
"fault" profile programs with hostile indices/divisors; nonlocal_preempt is
exercised by the time-travel profile."""
import random

from .. import diff, runner
from ..gen import faultgrid
from ..gen.progs import ProgGen
from ..gen.timegen import TimeGen
from ..model import ast as A
from . import common

PROPERTY = 'C05'
RULE = ('(a) grid: index read/assign/op-assign on int/byte/bool/string arrays as local literal, const literal, VLA, global, const global, '
        'parameter, literal temporary, and on strings (literal, local, global, parameter, element, byte-array view) with ~19 index values '
        'around 0, length, 8*length and the word extremes; / % /= %= in 10 forms with 60 operand pairs; VLA lengths of every element type '
        'with 18 values; two-fault statements where order decides; (b) random programs with 35% hostile indices/divisors; (c) time-travel '
        'programs (nonlocal_preempt; incl. return expressions that call defeat functions) and literal divisors/indices. Word sizes 2,3,4. non-trivial = the model predicts a fault, or the operand is within 2 of a boundary; '
        'distinct by hash of (source, args, word)')
ASSUMPTIONS = common.ISA_ASSUMPTIONS
REQUIRED_HIDC_FUNCTIONS = ['codegen/generator:CodeGen.check_index', 'codegen/generator:CodeGen.arith_op_reg_arg']     # M-COV: deciding code never entered => inconclusive
MIN_NONTRIVIAL = {'quick': 3000, 'thorough': 8000}
MAX_STEPS = 300_000


def plan(tier, seed):
    specs = []
    words = [2, 3, 4]
    for w in words:
        for part in range(4):
            specs.append({'kind': 'grid', 'word': w, 'part': part, 'parts': 4, 'stride': 1, 'offset': 0})
    n, per = (12, 40) if tier == 'quick' else (48, 120)
    for s in common.shard_seeds(seed, n):
        specs.append({'kind': 'gen', 'seed': s, 'count': per})
    return specs


def judge(res, prog, src, lines_cache, args, word, tag, near):
    res['evaluations'] += 1
    ref, why = diff.model_run(prog, args, word)
    key = (src, word)
    if key not in lines_cache:
        run0 = diff.compile_and_run(src, args, word=word, stack=diff.GENEROUS_STACK, max_steps=MAX_STEPS)
        lines_cache[key] = run0.lines if run0.kind == 'ok' else run0
        run = run0
    else:
        c = lines_cache[key]
        run = diff.run_lines(c, args, MAX_STEPS) if isinstance(c, list) else c
    case = diff.case_dict(src, args, word, diff.GENEROUS_STACK, gen=tag)
    if run.kind != 'ok':
        runner.fail(res, {'reject': 'M-DIFF', 'internal': 'M-EXC', 'asm': 'M-ASM'}[run.kind], f'{run.kind}: {run.detail}', case)
        return False
    o = run.outcome
    common.side_observe(res, run)
    if o.klass == 'TIMEOUT':
        runner.count(res, 'vm_timeouts')
        return True
    if o.after_terminal:
        runner.fail(res, 'M-END', f'events after the terminal flag: {o.after_terminal[:3]}', case, observed=o.brief())
        return False
    fl = [f for f in o.flags if f not in ('debug', 'progress')]
    if 'error' in fl and not (len(fl) == 1 or (len(fl) == 2 and fl[1] == 'error')):
        runner.fail(res, 'M-END', f'fault flags do not come as the pair <kind>, error: {o.flags}', case, observed=o.brief())
        return False
    if ref is None:
        runner.count(res, 'model_skips')
        runner.note(res, 'model_skip_reasons', why[:60])
        return True
    msg = diff.compare_streams(ref, o)
    if msg:
        runner.fail(res, 'M-DIFF', msg, case, expected=ref.brief(), observed=o.brief())
        return False
    runner.count(res, 'agree_' + ref.klass.replace(':', '_'))
    if ref.klass.startswith('ERROR:') or near:
        res['nontrivial'].append(runner.case_id(src, args, word))
    return True


def run_shard(spec):
    res = runner.new_result()
    cache = {}
    if spec['kind'] == 'grid':
        word = spec['word']
        bits = 8 * word
        items = []
        for tag, prog, length in faultgrid.index_programs():
            items.append((tag, prog, [[str(i)] for i in faultgrid.index_values(length, bits)],
                          lambda a, L=length: min(abs(int(a[0])), abs(int(a[0]) - L), abs(int(a[0]) - 8 * L)) <= 2))
        for lit in (-1, 0, 4, 5, 6, -(1 << (bits - 1)), (1 << (bits - 1)) - 1, 40):
            for tag, prog, length in faultgrid.index_programs(idx_lit=lit):
                items.append((f'{tag}/literal{lit}', prog, [['0']], lambda a: True))
        for tag, prog in faultgrid.division_programs():
            items.append((tag, prog, [[str(a), str(b)] for a, b in faultgrid.division_values(bits)], lambda a: abs(int(a[1])) <= 2))
        # literal divisors; those beyond the word are the word they wrap to on the target: 2^bits, -2^bits and 3*2^bits ARE zero there
        for lit in (0, 1, -1, 2, 256, 1 << bits, -(1 << bits), 3 << bits, (1 << bits) + 1, (1 << bits) - 1):
            for tag, prog in faultgrid.division_programs(div_lit=lit):
                items.append((f'{tag}/literal{lit}', prog, [[str(a), '1'] for a in (0, 7, -7, 300, -(1 << (bits - 1)))], lambda a, lit=lit: lit % (1 << bits) == 0))
        for tag, prog in faultgrid.order_programs():
            items.append((tag, prog, [[str(i), str(d)] for i in (-1, 0, 2, 3) for d in (0, 1, 3)], lambda a: True))
        for tag, prog in faultgrid.vla_programs():
            items.append((tag, prog, [[str(n)] for n in faultgrid.vla_values(bits)], lambda a: abs(int(a[0])) <= 9))
        for lit in [-(1 << (bits - 1)) + 1, -1000, -9, -8, -7, -1, 0, 1, 8, 9, 100, (1 << (bits - 1)) - 1, (1 << (bits - 1)) - 8, (1 << (bits - 2)), ((1 << bits) + word - 1) // word]:
            if lit > (1 << (bits - 1)) - 1:
                continue
            for tag, prog in faultgrid.vla_programs(len_lit=lit):
                items.append((f'{tag}/literal{lit}', prog, [['0']], lambda a, lit=lit: abs(lit) <= 9))
        for tag, prog in faultgrid.packed_twin_programs():
            items.append((tag, prog, [[str(i)] for i in (0, 1, 2, 3, 4, 7, 8, 9, 10, 11, -1)], lambda a: True))
        from ..gen import idioms
        for tag, prog in idioms.narrowing_programs():
            items.append((tag, prog, idioms.NARROW_ARGS, lambda a: True))
        for tag, prog in faultgrid.nonlocal_programs():
            items.append((tag, prog, [[str(k), str(d)] for k in (0, 1, 3, 60, 99, 600) for d in (0, 1)], lambda a: True))
        for i, (tag, prog, argsets, near) in enumerate(items):
            if i % spec['parts'] != spec['part'] or (i // spec['parts']) % spec['stride'] != spec['offset']:
                continue
            src = A.render(prog)
            for args in argsets:
                if not judge(res, prog, src, cache, args, word, tag, near(args)):
                    break
            if len(res['samples']) < 1:
                res['samples'].append({'grid': tag, 'source': src[:900], 'args_tried': argsets[:12]})
        return res
    for i in range(spec['count']):
        s = spec['seed'] * 100003 + i
        if i % 3 == 2:
            prog, args = TimeGen(s).program()
            tag = f'time:{s}'
        else:
            prog, args = ProgGen(s, 'fault').program()
            tag = f'fault:{s}'
        src = A.render(prog)
        for word in common.WORDS_ALL:
            judge(res, prog, src, cache, args, word, tag, False)
    return res
