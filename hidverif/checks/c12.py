"""C12 - lexing is exact and independent of layout.

Oracles: (1) token sequences *built* by the generator (kind, value, spelling)
and rendered with arbitrary inter-token layout: hidc.lexer.lex must return
exactly those kinds/values, and each reported span must cover exactly the
spelling the renderer wrote; (2) a hand-written reference tokenizer compared
with hidc.lexer.lex on adjacency soups and hostile literal text (both accept
with the same tokens, or both reject); (3) exhaustive literal sets; (4)
re-layout of whole generated programs must leave the emitted instruction
stream unchanged."""
import random

from .. import env, runner
from ..gen.progs import ProgGen
from ..model import ast as A
from ..model import reftok as R

PROPERTY = 'C12'
RULE = ('(1) random token sequences (all symbols, keywords, plain/@/! identifiers, int literals in 4 bases with separators, string and char '
        'literals with every escape form) rendered with random layout (spaces, tabs, CR, newlines, // comments containing quotes, backslashes '
        'and non-ASCII text; separators only where the reference says two spellings would merge); (2) adjacency soups without separators; '
        '(3) exhaustive: int literals of <= 3 digits in every base (+ separators), all 256 \\xHH in strings and chars, every named escape, '
        '\\u{..} over all planes incl. surrogates and > 10FFFF, raw UTF-8; keyword/identifier confusions; every ordered pair of symbols '
        'adjacent; (4) 5 layouts of generated programs compiled end to end. non-trivial = the case contains >= 2 tokens or a literal whose '
        'value is checked; distinct by text')
ASSUMPTIONS = ['ASCII identifiers and ASCII inter-token whitespace only (README does not describe the others)',
               'literal forms as in README "Types" and the escape set spelled out by tests/test_lexer.py']
REQUIRED_HIDC_FUNCTIONS = ['lexer/readers:read_int_token', 'lexer/readers:read_symbol_token', 'lexer/readers:read_char_escape', 'lexer/scanner:Marker.advance']     # M-COV: deciding code never entered => inconclusive
MIN_NONTRIVIAL = {'quick': 8000, 'thorough': 60000}


def plan(tier, seed):
    specs = [{'kind': 'ints'}, {'kind': 'escapes'}, {'kind': 'confusions'}]
    n, per = (5, 400) if tier == 'quick' else (12, 2500)
    for j in range(n):
        specs.append({'kind': 'sequences', 'seed': seed * 1000 + j, 'count': per})
    for j in range(n):
        specs.append({'kind': 'soups', 'seed': seed * 1000 + 500 + j, 'count': per * 3})
    specs.append({'kind': 'files', 'seed': seed * 1000 + 800, 'count': 150 if tier == 'quick' else 1500})
    n2, per2 = (3, 25) if tier == 'quick' else (12, 45)
    for j in range(n2):
        specs.append({'kind': 'programs', 'seed': seed * 1000 + 900 + j, 'count': per2})
    return specs


def lex_outcome(fn, text):
    CompilerError, _ = env.compiler_error_types()
    try:
        return 'ok', fn(text)
    except (CompilerError, R.RefLexError) as e:
        return 'reject', f'{type(e).__name__}: {e}'


def compare_with_reference(res, text, what):
    """hidc.lexer.lex vs the reference tokenizer on arbitrary text"""
    res['evaluations'] += 1
    try:
        h = lex_outcome(R.hidc_lex, text)
    except Exception as e:  # noqa: internal exception escaping the lexer
        runner.fail(res, 'M-EXC', f'{type(e).__name__}: {e} on {text[:80]!r}', {'text': text, 'what': what})
        return None
    r = lex_outcome(R.ref_lex, text)
    if h[0] != r[0]:
        runner.fail(res, 'M-LEX', f'{what}: reference {r[0]} but hidc {h[0]} on {text[:100]!r} ({(r[1] if r[0] == "reject" else h[1])!s:.120})',
                    {'text': text, 'what': what}, expected=str(r[1])[:400], observed=str(h[1])[:400])
        return None
    if h[0] == 'ok' and h[1] != r[1]:
        k = next((i for i, (a, b) in enumerate(zip(h[1], r[1])) if a != b), min(len(h[1]), len(r[1])))
        runner.fail(res, 'M-LEX', f'{what}: token {k} differs on {text[:100]!r}: reference {r[1][k] if k < len(r[1]) else None} vs hidc {h[1][k] if k < len(h[1]) else None}',
                    {'text': text, 'what': what}, expected=str(r[1])[:400], observed=str(h[1])[:400])
        return None
    runner.count(res, 'agree_' + h[0])
    return h


# ------------------------------------------------------------ generators
def spell_int(r, v=None, base=None):
    base = base or r.choice([10, 10, 16, 8, 2])
    if v is None:
        v = r.choice([0, 1, 9, 10, 255, 256, 65535, 65536, r.getrandbits(r.choice([4, 16, 32, 64]))])
    digs = {10: str(v), 16: r.choice(['%x', '%X']) % v, 8: '%o' % v, 2: bin(v)[2:]}[base]
    if r.random() < 0.3:
        digs = '0' * r.randint(1, 2) + digs
    out = digs[0]
    for d in digs[1:]:
        if r.random() < 0.2:
            out += '_'
        out += d
    return {10: '', 16: '0x', 8: '0o', 2: '0b'}[base] + out, v


NAMED = {7: 'a', 8: 'b', 12: 'f', 10: 'n', 13: 'r', 9: 't', 0: '0', 39: "'", 34: '"', 92: '\\'}


def spell_bytes(r, data, quote):
    """random escape spelling of a byte string inside quotes; returns text or None if not spellable"""
    out = []
    i = 0
    while i < len(data):
        b = data[i]
        c = r.random()
        if b in NAMED and c < 0.4:
            out.append('\\' + NAMED[b])
        elif 0x20 <= b <= 0x7e and chr(b) not in ('\\', quote) and c < 0.8:
            out.append(chr(b))
        elif b < 0x80 and c < 0.9:
            out.append('\\u{%x}' % b)
        else:
            out.append(r.choice(['\\x%02x', '\\x%02X']) % b)
        i += 1
    return ''.join(out)


def random_token(r):
    """(kind, value, spelling)"""
    c = r.random()
    if c < 0.3:
        s = r.choice(R.SYMBOLS)
        return ('sym', s, s)
    if c < 0.45:
        k = r.choice(sorted(R.KEYWORDS))
        return ('sym', k, k)
    if c < 0.65:
        name = r.choice(['a', 'x1', '_', '_t', 'iff', 'is_', 'truex', 'Int', 'ifelse', 'orange', 'nota', 'ande', 'string2', 'length',
                         ''.join(r.choice(R.IDCONT) for _ in range(r.randint(1, 8)))])
        if name[0] in '0123456789':
            name = 'v' + name
        if name in R.KEYWORDS:
            name += '_'
        fl = r.choice(['', '', '@', '!'])
        return ('ident', fl + name, fl + name)
    if c < 0.8:
        s, v = spell_int(r)
        return ('int', v, s)
    if c < 0.92:
        n = r.choice([0, 1, 2, 5, 12])
        if r.random() < 0.5:
            data = bytes(r.randint(0, 255) for _ in range(n))
            return ('str', data, '"' + spell_bytes(r, data, '"') + '"')
        txt = ''.join(r.choice(['a', ' ', '/', ';', '#', "'", 'é', 'ß', '€', '\U0001F30E', '\t']) for _ in range(n))
        return ('str', txt.encode('utf-8'), '"' + txt + '"')
    b = r.randint(0, 255)
    return ('char', b, "'" + spell_bytes(r, bytes([b]), "'") + "'")


def layout(r):
    c = r.random()
    if c < 0.35: return ' '
    if c < 0.45: return ''
    if c < 0.55: return '\n'
    if c < 0.62: return '\t '
    if c < 0.68: return ' \r\n'
    if c < 0.8: return '  \n\n   '
    if c < 0.93:
        return r.choice([' ', '']) + '//' + r.choice(['', ' c', ' "quote', " it's", ' \\', ' é€', ' /* */', '//', ' x = 1;']) + '\n' + r.choice(['', '  '])
    return ' ' * r.randint(2, 9)


def safe_sep(prev_spelling, sep):
    """a comment must not start right after a token ending in '/' (it would swallow it)"""
    if sep.lstrip(' \t\r').startswith('//') and prev_spelling.endswith('/') and not sep[:1].isspace():
        return ' ' + sep
    return sep


def needs_separator(a, b):
    """would the reference merge / mis-split the two spellings when adjacent?"""
    try:
        t = R.ref_lex(a[2] + b[2])
    except R.RefLexError:
        return True
    if [(x[0], x[1]) for x in t] != [(a[0], a[1]), (b[0], b[1])]:
        return True
    # same kinds and values, but split at another place (`0b0` + `00655_36` reads as `0b000` + `655_36`): the spans would differ
    return '\n' not in a[2] and t[0][3] != (0, len(a[2]))


def run_shard(spec):
    res = runner.new_result()
    kind = spec['kind']
    if kind == 'ints':
        import itertools
        for base, alphabet, pre in ((10, '0123456789', ''), (16, '0123456789abcdefABCDEF', '0x'), (8, '01234567', '0o'), (2, '01', '0b')):
            for n in (1, 2, 3):
                for digs in itertools.product(alphabet, repeat=n):
                    for sep in ((False,) * n, (True,) * n) if n > 1 else ((False,),):
                        s = digs[0] + ''.join(('_' if sep[i] else '') + d for i, d in enumerate(digs[1:], 1))
                        text = pre + s
                        res['evaluations'] += 1
                        try:
                            h = R.hidc_lex(text)
                        except Exception as e:  # noqa
                            runner.fail(res, 'M-LEX', f'{text!r}: {type(e).__name__}: {e}', {'text': text})
                            continue
                        want = [('int', int(''.join(digs), base), (0, 0), (0, len(text)))]
                        if h != want:
                            runner.fail(res, 'M-LEX', f'int literal {text!r}: expected {want}, got {h}', {'text': text}, expected=str(want), observed=str(h))
                        else:
                            res['nontrivial'].append(runner.case_id(text))
        r = random.Random(1)
        for _ in range(3000):
            s, v = spell_int(r, v=r.getrandbits(r.choice([8, 30, 64, 70])))
            for text in (s, s + '_', s + '__1', '_' + s, s + 'x', s + ' ' + s):
                compare_with_reference(res, text, 'weird int')
            res['nontrivial'].append(runner.case_id(s))
        res['exhaustive'] = True
        res['samples'].append({'int_literals': ['0x_1 (reject/ident split)', '1_000', '0b1_0', '0o7__1']})
    elif kind == 'escapes':
        CompilerError, _ = env.compiler_error_types()
        for b in range(256):
            for fmt in ('\\x%02x', '\\x%02X'):
                for q, k in (('"', 'str'), ("'", 'char')):
                    text = q + (fmt % b) + q
                    res['evaluations'] += 1
                    h = lex_outcome(R.hidc_lex, text)
                    want = [(k, bytes([b]) if k == 'str' else b, (0, 0), (0, len(text)))]
                    if h != ('ok', want):
                        runner.fail(res, 'M-LEX', f'{text!r}: expected {want}, got {h}', {'text': text})
                    else:
                        res['nontrivial'].append(runner.case_id(text))
        cps = [0, 1, 0x41, 0x7f, 0x80, 0xff, 0x7ff, 0x800, 0xd7ff, 0xd800, 0xdbff, 0xdc00, 0xdc7f, 0xdc80, 0xdc81, 0xdcc3, 0xdcfe, 0xdcff, 0xdd00, 0xdfff, 0xe000, 0xfffd, 0xffff, 0x10000, 0x1f30e,
               0x10ffff, 0x110000, 0x7fffffff, 0xffffffffffff]
        r = random.Random(2)
        cps += [r.randrange(0x110000) for _ in range(400)] + [r.randrange(0xd800, 0xe000) for _ in range(60)] + [0x80000000, 0xffffffff, 0x100000000]
        for cp in cps:
            for text in ('"\\u{%x}"' % cp, '"a\\u{%X}b"' % cp, "'\\u{%x}'" % cp, '"\\u{%06x}"' % cp, '"\\u{%07x}"' % cp, '"\\u{%08X}"' % cp, "'\\u{%012x}'" % cp):
                h = compare_with_reference(res, text, 'unicode escape')
                if h is not None:
                    res['nontrivial'].append(runner.case_id(text))
            if cp < 0x110000 and not (0xd800 <= cp <= 0xdfff) and cp not in (0x22, 0x5c, 0x0a, 0x0d):
                text = '"x' + chr(cp) + 'y"'
                h = compare_with_reference(res, text, 'raw text')
                if h is not None and h[0] == 'ok' and h[1][0][1] != ('x' + chr(cp) + 'y').encode('utf-8'):
                    runner.fail(res, 'M-LEX', f'raw U+{cp:04X} in a string is not its UTF-8 encoding', {'text': text})
        for e in list('abfnrt0\'"\\') + list('cdeghijklmopqsvwyzABN1289 (.'):
            for text in ('"\\%s"' % e, "'\\%s'" % e, '"ab\\%scd"' % e):
                compare_with_reference(res, text, 'named escape')
                res['nontrivial'].append(runner.case_id(text))
        for text in ('"\\x4"', '"\\xg0"', '"\\x"', '"\\u{}"', '"\\u{41"', '"\\u41}"', '"\\u"', '"abc', "'a", "''", "'ab'", "'é'", '"\\', "'\\", '"a\nb"', '"\\\n"',
                     "'\\u{e9}'", "'\\u{41}'", '"\t"', "'\t'", "'\"'", '"\'"'):
            compare_with_reference(res, text, 'malformed literal')
        res['exhaustive'] = True
        res['samples'].append({'escapes': ['"\\x00".."\\xFF"', '"\\u{1f30e}"', "'\\u{d800}' (reject)"]})
    elif kind == 'confusions':
        words = sorted(R.KEYWORDS)
        for w in words:
            for text in (w, w + '_', w + '1', '_' + w, w.upper(), w.capitalize(), '@' + w, '!' + w, '@' + w + 'x', '!_' + w, w + w, w[:-1], w + ' ' + w):
                compare_with_reference(res, text, 'keyword/identifier')
                res['nontrivial'].append(runner.case_id(text))
        for a in R.SYMBOLS:
            for b in R.SYMBOLS:
                for text in (a + b, a + ' ' + b, a + b + a, a + 'x' + b, a + '1' + b):
                    compare_with_reference(res, text, 'symbol adjacency')
                    res['nontrivial'].append(runner.case_id(text))
        for text in ('!', '@', '!=', '!x', '! x', '!!x', '@@x', '@!x', '?', '???', '????', '&', '|', '~', '#', '$', '`', '^', '\\', '!=x', 'x!=y', 'x!y', 'a.length',
                     'a . length', '1.5', '1..2', 'x//y', 'x/ /y', '/', '//', '///', '/*x*/', '', ' ', '\n', '\n\n', 'a\r\nb', 'a\rb', '\t', 'a\x0bb', 'a\x0cb', '\x00', 'a\x00b', '\x7f'):
            compare_with_reference(res, text, 'odd text')
        res['exhaustive'] = True
        res['samples'].append({'confusions': ['iff', '@if (reject)', '<==', '!=x', 'x//y']})
    elif kind == 'sequences':
        r = random.Random(spec['seed'])
        for _ in range(spec['count']):
            toks = [random_token(r) for _ in range(r.randint(2, 14))]
            text = layout(r) if r.random() < 0.5 else ''
            exp = []
            line, col = text.count('\n'), len(text) - (text.rfind('\n') + 1)
            for i, t in enumerate(toks):
                exp.append((t[0], t[1], (line, col), (line, col + len(t[2]))))
                text += t[2]
                col += len(t[2])
                if i + 1 < len(toks):
                    sep = layout(r)
                    if needs_separator(t, toks[i + 1]) and not sep.strip(' \t\r\n') and not sep:
                        sep = ' '
                    if sep == '' and needs_separator(t, toks[i + 1]):
                        sep = ' '
                    sep = safe_sep(t[2], sep)
                    text += sep
                    if '\n' in sep:
                        line += sep.count('\n')
                        col = len(sep) - (sep.rfind('\n') + 1)
                    else:
                        col += len(sep)
            if r.random() < 0.5:
                text += r.choice(['', ' ', '\n', ' // end', '\n\n'])
            res['evaluations'] += 1
            try:
                h = lex_outcome(R.hidc_lex, text)
            except Exception as e:  # noqa
                runner.fail(res, 'M-EXC', f'{type(e).__name__}: {e}', {'text': text})
                continue
            if h != ('ok', exp):
                got = h[1]
                k = next((i for i, (a, b) in enumerate(zip(got, exp)) if a != b), '?') if h[0] == 'ok' else '-'
                runner.fail(res, 'M-LEX', f'token sequence not recovered (first difference at token {k}): {str(got)[:200]}', {'text': text},
                            expected=str(exp)[:600], observed=str(got)[:600])
                continue
            # span text == the exact piece the renderer wrote
            lines = text.split('\n')
            for t, (k_, v_, (l0, c0), (l1, c1)) in zip(toks, h[1]):
                if l0 != l1 or lines[l0][c0:c1] != t[2]:
                    runner.fail(res, 'M-SPAN', f'span of {t[2]!r} covers {lines[l0][c0:c1]!r}', {'text': text})
                    break
            else:
                runner.count(res, 'sequences_recovered')
                runner.count(res, 'tokens_checked', len(toks))
                res['nontrivial'].append(runner.case_id(text))
                compare_with_reference(res, text, 'sequence')
            if len(res['samples']) < 2:
                res['samples'].append({'layout_text': text[:300]})
    elif kind == 'files':
        # the same token sequences read through SourceCode.from_file (the command-line path): file endings
        # (no final newline, LF, CRLF, CR, blank, comment) must not change the tokens
        import os
        from hidc.lexer import lex, SourceCode, tokens as TK
        r = random.Random(spec['seed'])
        scratch = os.environ.get('HIDVERIF_SCRATCH') or os.path.join(env.VERIF, '.scratch')
        os.makedirs(scratch, exist_ok=True)
        path = os.path.join(scratch, f'lexfile-{os.getpid()}.hid')
        CompilerError, _ = env.compiler_error_types()
        for _ in range(spec['count']):
            toks = [random_token(r) for _ in range(r.randint(1, 8))]
            toks = [t for t in toks if not (t[0] == 'str' and (b'\r' in t[1] or b'\n' in t[1] or '\r' in t[2]))] or [('ident', 'x', 'x')]
            body = ''
            for i, t in enumerate(toks):
                body += t[2]
                if i + 1 < len(toks):
                    body += r.choice([' ', '\n', '  ', '\n  ']) if not needs_separator(t, toks[i + 1]) or True else ' '
            for ending in ('', '\n', '\r\n', '\r', ' ', '\n\n', ' // c', '\n// c', '\t'):
                text = body + ending
                if ending.startswith(' //') and body.endswith('/'):
                    continue
                with open(path, 'wb') as f:
                    f.write(text.encode('utf-8'))
                res['evaluations'] += 1
                try:
                    got = []
                    for lx in lex(SourceCode.from_file(path)):
                        t = lx.token
                        got.append(('int', t.data) if isinstance(t, TK.IntToken) else ('char', t.data) if isinstance(t, TK.CharToken) else
                                   ('str', t.data) if isinstance(t, TK.StringToken) else ('ident', t.name) if isinstance(t, TK.Ident) else ('sym', str(t)))
                except CompilerError as e:
                    got = f'{type(e).__name__}: {e}'
                except Exception as e:  # noqa
                    runner.fail(res, 'M-EXC', f'from_file: {type(e).__name__}: {e}', {'text': text})
                    continue
                want = [(t[0], t[1]) for t in toks]
                if got != want:
                    runner.fail(res, 'M-LEX', f'file ending {ending!r}: tokens read from the file differ: {str(got)[:160]} instead of {str(want)[:160]}',
                                {'text': text, 'via': 'SourceCode.from_file'}, expected=str(want)[:400], observed=str(got)[:400])
                    break
                res['nontrivial'].append(runner.case_id('file', text))
            else:
                runner.count(res, 'file_texts_recovered')
        try:
            os.remove(path)
        except OSError:
            pass
    elif kind == 'soups':
        r = random.Random(spec['seed'])
        for _ in range(spec['count']):
            toks = [random_token(r) for _ in range(r.randint(2, 6))]
            text = ''.join(t[2] + r.choice(['', '', '', ' ']) for t in toks)
            if r.random() < 0.2:
                i = r.randrange(len(text) + 1)
                text = text[:i] + r.choice(['"', "'", '\\', '//', '@', '!', '?', '_', '0x', '0b', '\n']) + text[i:]
            if compare_with_reference(res, text, 'soup') is not None:
                res['nontrivial'].append(runner.case_id(text))
            if len(res['samples']) < 2:
                res['samples'].append({'soup': text[:200]})
    else:
        CompilerError, _ = env.compiler_error_types()
        r = random.Random(spec['seed'])
        for i in range(spec['count']):
            prog, args = ProgGen(spec['seed'] * 7919 + i, 'sequential').program()
            src = A.render(prog)
            try:
                base = [l.strip() for l in env.compile_src(src) if not l.strip().startswith(b';')]
                toks = R.ref_lex(src)
            except (CompilerError, R.RefLexError) as e:
                runner.count(res, 'program_not_usable')
                continue
            lines = src.split('\n')
            pieces = [(k, v, lines[l0][c0:c1]) for k, v, (l0, c0), (l1, c1) in toks]
            for variant in range(5):
                out = layout(r) if variant else ''
                for j, p in enumerate(pieces):
                    out += p[2]
                    if j + 1 < len(pieces):
                        if variant == 0:
                            sep = ' ' if needs_separator(p, pieces[j + 1]) else ''
                        else:
                            sep = layout(r)
                            if sep == '' and needs_separator(p, pieces[j + 1]):
                                sep = '\n'
                            sep = safe_sep(p[2], sep)
                        out += sep
                res['evaluations'] += 1
                try:
                    got = [l.strip() for l in env.compile_src(out) if not l.strip().startswith(b';')]
                except Exception as e:  # noqa
                    runner.fail(res, 'M-LAYOUT', f're-layout (variant {variant}) no longer compiles: {type(e).__name__}: {e}', {'source': out, 'original': src})
                    break
                if got != base:
                    k = next((n for n, (a, b) in enumerate(zip(got, base)) if a != b), '?')
                    runner.fail(res, 'M-LAYOUT', f're-layout (variant {variant}) changes the instruction stream at line {k}', {'source': out, 'original': src})
                    break
                runner.count(res, 'relayouts_identical')
                res['nontrivial'].append(runner.case_id(out))
    return res
