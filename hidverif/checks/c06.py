"""C06 - flavour and context rules are enforced on every program.

Oracle: accept/reject of the real parser + typechecker on an enumeration of
placements, against an independent context checker that implements the five
clauses of the property statement literally on the path of enclosing
constructs (it shares no code with BlockContext)."""
import random

from .. import env, runner
from ..gen import contexts

PROPERTY = 'C06'
RULE = ('placement enumeration: 11 statement constructs + 5 expression constructs in 11 expression positions behind 0..k expression wrappers '
        '(parentheses, index, array literal, unary, binary, cast, and, argument, ?? left, ?? right), inside every path of statement wrappers (if, else, '
        'while, for, block, try/undo body, try/stop body, undo handler, stop handler, preempt) of depth <= D in ordinary, you and defeat functions, plus '
        'global initialisers; quick: D=2,k=1 exhaustive; thorough: D=3,k=1 exhaustive + D<=6,k<=3 random; everything else in each program is '
        'well-typed so the placement is the only possible reason for rejection; every case is a distinct placement (non-trivial)')
ASSUMPTIONS = ['legality is the literal reading of the five clauses of the property statement; a ?? nested inside an operand of ?? is illegal: README '
               '"the operands of ?? must be ordinary expressions", and speculation "can only be used by you"']
REQUIRED_HIDC_FUNCTIONS = ['parser/grammar:ps_block', 'parser/grammar:ps_func_call', 'parser/grammar:ps_expr']     # M-COV: deciding code never entered => inconclusive
MIN_NONTRIVIAL = {'quick': 100000, 'thorough': 1000000}


def plan(tier, seed):
    parts = 16 if tier == 'quick' else 64
    depth = 2 if tier == 'quick' else 3
    specs = [{'kind': 'enum', 'depth': depth, 'expr_depth': 1, 'part': i, 'parts': parts} for i in range(parts)]
    n, per = (4, 1500) if tier == 'quick' else (16, 12000)
    for j in range(n):
        specs.append({'kind': 'random', 'seed': seed * 1000 + j, 'count': per})
    return specs


def judge(res, tag, src, legal, why, matrix):
    CompilerError, _ = env.compiler_error_types()
    res['evaluations'] += 1
    try:
        env.typecheck_src(src)
        acc, msg = True, ''
    except CompilerError as e:
        acc, msg = False, f'{type(e).__name__}: {e}'
    except RecursionError:
        acc, msg = False, 'RecursionError'
    except Exception as e:  # noqa
        runner.fail(res, 'M-EXC', f'{tag}: {type(e).__name__}: {e}', {'source': src, 'placement': tag})
        return
    res['nontrivial'].append(runner.case_id(tag))
    key = ('legal' if legal else 'illegal') + '_' + ('accepted' if acc else 'rejected')
    matrix[key] = matrix.get(key, 0) + 1
    if acc != legal:
        what = (f'accepted although: {why}' if acc else f'rejected ({msg}) although it respects all five clauses')
        runner.fail(res, 'M-CTX', f'{tag}: {what}', {'source': src, 'placement': tag}, expected='accept' if legal else 'reject',
                    observed='accept' if acc else msg)


def random_case(r):
    fl = r.choice(list(contexts.FLAVORS))
    path = tuple(r.choice(list(contexts.STMT_WRAPPERS)) for _ in range(r.randint(3, 6)))
    # bias towards legal prefixes: otherwise nearly every deep path is illegal for a boring reason
    c, ok, why = contexts.walk(fl, path)
    tries = 0
    while not ok and tries < 6:
        path = tuple(r.choice(list(contexts.STMT_WRAPPERS)) for _ in range(r.randint(3, 6)))
        c, ok, why = contexts.walk(fl, path)
        tries += 1
    ptag = f'{fl}/' + '>'.join(path)
    if r.random() < 0.35:
        cn = r.choice(list(contexts.STMT_CONSTRUCTS))
        text, rule = contexts.STMT_CONSTRUCTS[cn]
        ok2, why2 = rule(c)
        return f'{ptag}/{cn}', contexts.build(fl, path, text), ok and ok2, (why if not ok else why2)
    pn = r.choice(list(contexts.EXPR_POSITIONS))
    epath = tuple(r.choice(list(contexts.EXPR_WRAPPERS)) for _ in range(r.randint(0, 3)))
    ce, oke, whye = c, ok, why
    for w in epath:
        o, wh, ce2 = contexts.EXPR_WRAPPERS[w][1](ce)
        if oke and not o:
            oke, whye = False, f'{w}: {wh}'
        ce = ce2
    cn = r.choice(list(contexts.EXPR_CONSTRUCTS))
    text, rule = contexts.EXPR_CONSTRUCTS[cn]
    ok2, why2 = rule(ce)
    e = text
    for w in reversed(epath):
        e = contexts.EXPR_WRAPPERS[w][0].replace('E', e)
    return (f'{ptag}/{pn}/' + '>'.join(epath) + f'/{cn}', contexts.build(fl, path, contexts.EXPR_POSITIONS[pn].replace('E', e)),
            oke and ok2, (whye if not oke else why2))


def run_shard(spec):
    res = runner.new_result()
    matrix = {}
    if spec['kind'] == 'enum':
        for tag, src, legal, why in contexts.cases(spec['depth'], spec['expr_depth'], spec['part'], spec['parts']):
            judge(res, tag, src, legal, why, matrix)
            if len(res['samples']) < 2 and legal and tag.count('>') >= 1:
                res['samples'].append({'placement': tag, 'expected': 'accept', 'source': src[len(contexts.HELPERS):]})
        res['exhaustive'] = True
    else:
        r = random.Random(spec['seed'])
        for _ in range(spec['count']):
            c = random_case(r)
            if c is None:
                continue
            judge(res, *c, matrix)
    for k, v in matrix.items():
        runner.count(res, k, v)
    return res
