"""C07 - the typechecker accepts exactly the well-typed programs.

Oracles: (1) an independent implementation of the documented coercion / cast /
operator typing rules decides accept/reject for every provider x position;
(2) single ill-typing mutations, each guaranteed illegal by the README, must be
rejected with a compile error; (3) overload resolution: every overload prints
a unique tag and the output on the SVM must name the overload the documented
rule selects; (4) every accepted program must also get through code
generation (a typechecked tree the generator asserts against is a miss of the
typechecker)."""
import itertools
import random

from .. import diff, env, runner
from ..gen import typing as T

PROPERTY = 'C07'
RULE = ('(a) 60 value providers (variables, literals, shrinkable and non-shrinkable arithmetic, const scalars, casts, elements, calls, arrays, '
        'array literals) x 12 target types x 8 positions (argument, declaration, const declaration, assignment, element assignment, return, '
        'literal element); every operator / cast / ?? / index / length / VLA-length operand typing; (b) 125 single-rule ill-typing mutations and 43 return-path shapes (25 whose end is reachable, 18 closed counterparts); (b2) every provider x target type x position again under no-op spellings (parentheses, cast to its own type): same verdict; '
        '(c) overload sets of 1-4 signatures over 9 parameter types in every declaration order, called with every provider; '
        'non-trivial = every case (distinct rule x position); distinct by tag')
ASSUMPTIONS = ['expected accept/reject is my implementation of README "Types" / "Arrays and strings" / "The speculation operator"; cases the '
               'documentation does not decide (binding a mutable array to a const array variable) are not judged']
REQUIRED_HIDC_FUNCTIONS = ['ast/expressions:FuncCall.evaluate', 'ast/expressions:Expression.coerce', 'ast/statements:Declaration.evaluate']     # M-COV: deciding code never entered => inconclusive
MIN_NONTRIVIAL = {'quick': 4000, 'thorough': 6000}


def plan(tier, seed):
    specs = [{'kind': 'coercions', 'part': i, 'parts': 6} for i in range(6)]
    specs += [{'kind': 'operators', 'part': i, 'parts': 4} for i in range(4)]
    specs.append({'kind': 'mutations'})
    specs.append({'kind': 'returns'})
    specs += [{'kind': 'spellings', 'part': i, 'parts': 4} for i in range(4)]
    n = 4 if tier == 'quick' else 16
    for j in range(n):
        specs.append({'kind': 'overloads', 'seed': seed * 1000 + j, 'count': 60 if tier == 'quick' else 200})
    return specs


def verdict(src):
    """-> ('accept'|'reject'|'internal', message)"""
    CompilerError, Internal = env.compiler_error_types()
    try:
        env.typecheck_src(src)
    except Internal as e:
        return 'internal', f'{type(e).__name__}: {e}'
    except CompilerError as e:
        return 'reject', f'{type(e).__name__}: {e}'
    except RecursionError:
        return 'reject', 'RecursionError'
    except Exception as e:  # noqa
        return 'internal', f'{type(e).__name__}: {e} @ {diff.innermost_hidc_frame(e)}'
    try:
        env.compile_src(src, word=2, stack=500)
    except Internal as e:
        return 'internal', f'accepted by the typechecker, then {type(e).__name__}: {e}'
    except CompilerError as e:
        return 'accept', f'(code generation: {type(e).__name__}: {e})'
    except Exception as e:  # noqa
        return 'internal', f'accepted by the typechecker, then {type(e).__name__}: {e} @ {diff.innermost_hidc_frame(e)}'
    return 'accept', ''


def judge(res, tag, src, expect):
    res['evaluations'] += 1
    v, msg = verdict(src)
    res['nontrivial'].append(runner.case_id(tag))
    if expect is None:
        runner.count(res, 'undecided_by_documentation_' + v)
        if v == 'internal':
            runner.fail(res, 'M-EXC', f'{tag}: {msg}', {'source': src, 'rule': tag})
        return
    runner.count(res, ('welltyped_' if expect else 'illtyped_') + v)
    if v == 'internal':
        runner.fail(res, 'M-EXC', f'{tag}: {msg}', {'source': src, 'rule': tag})
    elif expect and v == 'reject':
        runner.fail(res, 'M-TYPE', f'{tag}: well-typed by the documented rules but rejected: {msg}', {'source': src, 'rule': tag},
                    expected='accept', observed=msg)
    elif not expect and v == 'accept':
        runner.fail(res, 'M-TYPE', f'{tag}: breaks a documented typing rule but is accepted', {'source': src, 'rule': tag},
                    expected='reject', observed='accept')


def run_shard(spec):
    res = runner.new_result()
    k = spec['kind']
    if k == 'coercions':
        for i, (tag, src, exp) in enumerate(T.positive_and_negative_coercions()):
            if src is None or i % spec['parts'] != spec['part']:
                continue
            judge(res, tag, src, exp)
            if len(res['samples']) < 2 and exp:
                res['samples'].append({'rule': tag, 'expected': 'accept', 'source_tail': src[-160:]})
        res['exhaustive'] = True
    elif k == 'operators':
        for i, (tag, src, exp) in enumerate(T.operator_cases()):
            if src is None or i % spec['parts'] != spec['part']:
                continue
            judge(res, tag, src, exp)
        res['exhaustive'] = True
    elif k == 'spellings':
        cache = {}
        for i, (tag, plain, variant) in enumerate(T.spelling_variants()):
            if i % spec['parts'] != spec['part']:
                continue
            res['evaluations'] += 1
            if plain not in cache:
                cache[plain] = verdict(plain)
            v0, m0 = cache[plain]
            v1, m1 = verdict(variant)
            res['nontrivial'].append(runner.case_id(tag))
            if 'internal' in (v0, v1):
                runner.fail(res, 'M-EXC', f'{tag}: {m0 if v0 == "internal" else m1}', {'source': variant, 'rule': tag})
            elif v0 != v1:
                runner.fail(res, 'M-TYPE', f'{tag}: acceptance depends on a spelling that changes neither value nor type: plain form {v0}, variant {v1} ({m1 or m0})',
                            {'source': variant, 'plain': plain, 'rule': tag}, expected=v0, observed=v1)
            else:
                runner.count(res, 'spelling_pairs_' + v0)
        res['exhaustive'] = True
    elif k == 'returns':
        for tag, src, exp in list(T.return_cases()) + list(T.builtin_cases()):
            judge(res, tag, src, exp)
        res['exhaustive'] = True
    elif k == 'mutations':
        for tag, src in T.mutation_cases():
            judge(res, 'mutation/' + tag, src, False)
            if len(res['samples']) < 3:
                res['samples'].append({'mutation': tag, 'expected': 'reject', 'source_tail': src[-120:]})
        res['exhaustive'] = True
    else:
        r = random.Random(spec['seed'])
        provs = [p for p in T.ALL]
        for _ in range(spec['count']):
            n = r.randint(1, 4)
            arity = r.choice([1, 1, 1, 2])
            sigs = []
            while len(sigs) < n:
                s = tuple(r.choice(T.OVER_PARAMS) for _ in range(arity))
                if s not in sigs:
                    sigs.append(s)
            calls, expect = [], []
            for _ in range(14):
                c = tuple(r.choice(provs) for _ in range(arity))
                w = T.resolve(sigs, c)
                if w is None:
                    continue
                calls.append(c)
                expect.append(w)
            if not calls:
                continue
            src = T.overload_program(sigs, calls, caller_at=r.choice([None, 0, 1, len(sigs) - 1, r.randrange(len(sigs) + 1)]))
            res['evaluations'] += 1
            tag = 'overload/' + '|'.join(','.join(T.tname(t) for t in s) for s in sigs)
            run = diff.compile_and_run(src, (), word=2, stack=2000, max_steps=200_000)
            case = {'source': src, 'args': [], 'word': 2, 'stack': 2000, 'unchecked': False, 'rule': tag}
            if run.kind != 'ok':
                runner.fail(res, 'M-TYPE' if run.kind == 'reject' else 'M-EXC',
                            f'{tag}: calls that the documented rule resolves are not compiled: {run.kind}: {run.detail}', case)
                continue
            want = ''.join(f'o{w};' for w in expect).encode()
            got = run.outcome.out
            res['nontrivial'].append(runner.case_id(tag, [tuple(p.name for p in c) for c in calls]))
            runner.count(res, 'overload_calls_checked', len(calls))
            if got != want or run.outcome.klass != 'WIN':
                k2 = next((i for i, (a, b) in enumerate(zip(got.split(b';'), want.split(b';'))) if a != b), 0)
                cn = ', '.join(p.name for p in calls[min(k2, len(calls) - 1)])
                runner.fail(res, 'M-OVERLOAD', f'{tag}: call #{k2} with ({cn}) reached {got.split(b";")[k2:k2 + 1]} but the rule selects o{expect[min(k2, len(expect) - 1)]}',
                            case, expected=want.decode(), observed=run.outcome.brief())
            if len(res['samples']) < 1:
                res['samples'].append({'overloads': [[T.tname(t) for t in s] for s in sigs], 'calls': [[p.text for p in c] for c in calls[:6]], 'expected_tags': expect[:6]})
    return res
