"""C08 - every scope exit releases exactly what the scope allocated.

Monitors: M-BAL ((fp, ap) at loop heads, continue/break arrivals, call returns
and after stop-handler restore must equal what the same activation saw at the
most recent entry), M-SAN use-after-release / release into the middle of a
segment, and the peak-ap twin test (the stack footprint of a loop does not
depend on how many iterations ran: n=3 and n=40 reach the same highest ap)."""
import random

from .. import diff, env, runner
from ..gen import scopes
from ..gen.progs import ProgGen
from ..gen.timegen import TimeGen
from ..model import ast as A
from ..monitors.san import SanMonitor
from ..monitors.bal import BalMonitor, FallMonitor
from ..monitors.guards import PeakMonitor
from ..svm.asm import assemble, AsmError
from ..svm.vm import FAULT_FLAGS, VM, Outcome
from . import common

PROPERTY = 'C08'
RULE = ('(a) enumeration: 8 array kinds (literal, dynamic VLA, bool VLA, const stack literal, string VLA, literal with allocating calls, alias, two '
        'arrays) x 11 exit routes (fallthrough, break, continue, return, defeat caught by stop from 0-3 calls deep, preempt+break/continue) x '
        'for/while x 5 nesting shapes x 4 try placements, run for n = 1, 2, 7 iterations and as twins n=3 / n=40 whose peak ap must agree; '
        '(b) random memory-profile and time-travel programs under M-BAL/M-SAN; non-trivial = an array was live at an abrupt exit '
        '(enumeration: by construction; random: the run executed a break/continue/stop handler/early return with ap above the stack base); '
        '(c) the scale grids of gen/scale.py: nesting depth 3-10 x 4 exit routes x literal/dynamic arrays, locals spread over nested blocks, 9-34 try blocks and 9-111 loops per program, checked and unchecked, under M-BAL / M-SAN / M-DIFF; distinct by hash of (source, args)')
ASSUMPTIONS = common.ISA_ASSUMPTIONS[:3] + ['observation points are the labels the compiler always emits (loop_N, continue_N, break_N, end_call_N, try_handler_N)']
REQUIRED_HIDC_FUNCTIONS = ['codegen/generator:CodeGen.reset_ap', 'codegen/generator:CodeGen.pop']     # M-COV: deciding code never entered => inconclusive
MIN_NONTRIVIAL = {'quick': 300, 'thorough': 3000}
MAX_STEPS = 600_000
RELEASE_MSGS = ('no live object', 'released into the middle', 'ap=')


def plan(tier, seed):
    specs = []
    parts = 16
    stride = 2 if tier == 'quick' else 1
    for i in range(parts):
        specs.append({'kind': 'enum', 'part': i, 'parts': parts, 'stride': stride, 'offset': seed % stride})
    n, per = (8, 16) if tier == 'quick' else (48, 60)
    for s in common.shard_seeds(seed, n):
        specs.append({'kind': 'gen', 'seed': s, 'count': per})
    specs += [{'kind': 'scale', 'part': i, 'parts': 4, 'tier': tier} for i in range(4)]
    return specs


def run_monitored(lines, args):
    prog = assemble(lines, args)
    mons = [SanMonitor(), BalMonitor(), FallMonitor(), PeakMonitor()]
    vm = VM(prog, MAX_STEPS, mons)
    vm.run()
    return Outcome(vm), mons


def judge(res, src, lines, args, word, tag):
    res['evaluations'] += 1
    case = diff.case_dict(src, args, word, diff.GENEROUS_STACK, gen=tag)
    try:
        o, mons = run_monitored(lines, args)
    except AsmError as e:
        runner.fail(res, 'M-ASM', str(e), case)
        return None, None
    runner.count(res, 'vm_steps', o.steps)
    for k, v in mons[1].stats.items():
        runner.count(res, 'arrivals_' + k, v)
    if o.klass == 'TIMEOUT':
        runner.count(res, 'vm_timeouts')
        return None, None
    bal = [r for r in o.reports if r[1] == 'bal']
    san = [r for r in o.reports if r[1] == 'san' and any(m in r[2] for m in RELEASE_MSGS)]
    if bal:
        runner.fail(res, 'M-BAL', bal[0][2] + f' (asm line {bal[0][4]})', case, observed=o.brief())
        return None, None
    if san:
        runner.fail(res, 'M-SAN', san[0][2] + f' (asm line {san[0][4]})', case, observed=o.brief())
        return None, None
    if o.klass in ('HALT', 'TRAP'):
        runner.fail(res, 'M-BAL', f'{o.klass} {o.trap}', case, observed=o.brief())
        return None, None
    return o, mons


def run_shard(spec):
    res = runner.new_result()
    CompilerError, _ = env.compiler_error_types()
    if spec['kind'] == 'scale':
        # nesting depth 3-10 x exit route x array kind, frames of many locals spread over nested blocks, 9-34 try blocks in a row: (fp, ap)
        # at every loop head / continue / break / call return / handler (M-BAL), release rules of M-SAN, model output (M-DIFF)
        for k, tag, prog, argsets in common.scale_items(('nesting', 'locals', 'tries', 'labels')):
            if k % spec['parts'] != spec['part'] or (tag.startswith('scale-locals') and '/flat/' in tag):
                continue
            for unchecked in (False, True):
                for args in (argsets if spec['tier'] != 'quick' else argsets[:1]):
                    if common.check_scale(res, prog, args, (2, 3, 4, 8)[(k // spec['parts']) % 4], tag, unchecked=unchecked, monitors=('bal', 'san')):
                        runner.count(res, 'scale_runs_balanced')
        return res
    if spec['kind'] == 'enum':
        for i, (tag, src, abrupt) in enumerate(scopes.programs()):
            if i % spec['parts'] != spec['part'] or (i // spec['parts']) % spec['stride'] != spec['offset']:
                continue
            try:
                lines = env.compile_src(src, word=2, stack=diff.GENEROUS_STACK)
            except CompilerError as e:
                runner.count(res, 'rejected')
                runner.note(res, 'rejections', f'{tag}: {e}'[:120])
                continue
            except Exception as e:  # noqa
                runner.fail(res, 'M-EXC', f'{type(e).__name__}: {e}', diff.case_dict(src, [], 2, diff.GENEROUS_STACK, gen=tag))
                continue
            ok = True
            for n in ('1', '2', '7'):
                o, _ = judge(res, src, lines, ['1', n], 2, tag)
                if o is None:
                    ok = False
                    break
                if abrupt:
                    res['nontrivial'].append(runner.case_id(src, n))
            if ok:
                # the same under --unchecked: releasing is not a check, the rules hold there too
                try:
                    ulines = env.compile_src(src, word=2, stack=diff.GENEROUS_STACK, unchecked=True)
                    for n in ('2', '7'):
                        o, _ = judge(res, src, ulines, ['1', n], 2, tag + ' --unchecked')
                        if o is None:
                            ok = False
                            break
                        runner.count(res, 'unchecked_runs_balanced')
                except CompilerError as e:
                    runner.count(res, 'rejected_unchecked')
            if not ok:
                continue
            # peak-ap twins
            pk = {}
            for n in ('3', '40'):
                o, mons = judge(res, src, lines, ['1', n], 2, tag)
                if o is None:
                    break
                pk[n] = mons[3].peak_array_bytes()
            if len(pk) == 2:
                runner.count(res, 'peak_twins_compared')
                if pk['3'] != pk['40']:
                    runner.fail(res, 'M-PEAK', f'peak array-region use depends on the iteration count: {pk["3"]} bytes for n=3, {pk["40"]} bytes for n=40',
                                diff.case_dict(src, ['1', '40'], 2, diff.GENEROUS_STACK, gen=tag))
            if len(res['samples']) < 1:
                res['samples'].append({'enum': tag, 'source': src[len(scopes.HEAD):], 'peak_bytes': pk})
        return res
    for i in range(spec['count']):
        s = spec['seed'] * 100003 + i
        if i % 2:
            prog, args = TimeGen(s, p_arrays_in_try=1.0, vla=0.7).program()
            tag = f'time:{s}'
        else:
            prog, args = ProgGen(s, 'memory').program()
            tag = f'memory:{s}'
        src = A.render(prog)
        for word in common.WORDS_ALL:
            try:
                lines = env.compile_src(src, word=word, stack=diff.GENEROUS_STACK)
            except CompilerError:
                runner.count(res, 'rejected')
                break
            except Exception as e:  # noqa
                runner.fail(res, 'M-EXC', f'{type(e).__name__}: {e}', diff.case_dict(src, args, word, diff.GENEROUS_STACK, gen=tag))
                break
            o, mons = judge(res, src, lines, args, word, tag)
            if o is None:
                break
            if word == 2 and not any(f in FAULT_FLAGS for f in o.flags):
                ou, _ = judge(res, src, env.compile_src(src, word=word, stack=diff.GENEROUS_STACK, unchecked=True), args, word, tag + ' --unchecked')
                if ou is None:
                    break
                runner.count(res, 'unchecked_runs_balanced')
            st = mons[1].stats
            if mons[3].peak_array_bytes() and (st['break'] or st['continue'] or st['handler'] or st['ret']):
                res['nontrivial'].append(runner.case_id(src, args))
    return res
