"""C01 - compiled code computes what the source program says (sequential core).

Oracle: M-DIFF between the committed SVM timeline of the real compiler's output
and RefInt, on generated programs without time travel, at word sizes {2,3,4}
(8 on a sample), generous and tight stacks; plus the author's own expectations
(upstream tests/test_codegen.py, sequential part) on the SVM."""
import random

from .. import diff, runner, upstream
from ..gen.progs import ProgGen
from ..gen import idioms
from ..model import ast as A
from . import common

PROPERTY = 'C01'
RULE = ('grammar-directed random programs (profiles sequential/deep: 1-5 functions, side-effecting calls in operand '
        'positions, global shadowing, by-reference arrays, recursion, entry-point arguments), each run at word sizes '
        '2,3,4 (8 on a sample) x generous stack + 2 tight stacks; a case is one (program, args); non-trivial = the '
        'model executed >= 1 user call and the committed output has >= 20 bytes; distinct by hash of (source, args); plus the enumerated idiom grids of gen/idioms.py '
        '(204 scoping/shadowing programs, 96 left-operand x right-operand programs, 448 + 51 value-capture programs, 48 narrowing programs, 8 fresh-literal programs, 15 expression-statement and 9 tail-call programs, neighbouring globals of every type, 20-element bit-vectors, overloads by arity in every declaration order, 12 programs of coinciding constant tables, 319 entry-point signatures), each with 2-3 argument vectors, at word sizes 2, 3, 4, 8 and in rotation 5, 6, 7, 12, 16 bytes; plus the scale grids of gen/scale.py (1-257 locals per frame in 3 shapes, 1-65 parameters, arrays of 7-1000 elements x 3 element types x 3 storage classes, 9-111 loops/ifs/tables/strings per program, nesting depth 3-10 x 4 exit routes, 10-257 globals, expressions nested 6-28 deep in 5 forms x 6 usages)')
ASSUMPTIONS = common.ISA_ASSUMPTIONS
REQUIRED_HIDC_FUNCTIONS = ['codegen/generator:CodeGen.eval_expr', 'codegen/generator:CodeGen.eval_func_call', 'codegen/generator:CodeGen.lookup_var']     # M-COV: deciding code never entered => inconclusive
MIN_NONTRIVIAL = {'quick': 100, 'thorough': 1000}
MAX_STEPS = 400_000


def plan(tier, seed):
    n, per = (16, 36) if tier == 'quick' else (64, 110)
    specs = [{'kind': 'gen', 'seed': s, 'count': per, 'tier': tier} for s in common.shard_seeds(seed, n)]
    specs.append({'kind': 'upstream'})
    parts = 8 if tier == 'quick' else 16
    specs += [{'kind': 'idioms', 'part': i, 'parts': parts, 'tier': tier} for i in range(parts)]
    specs += [{'kind': 'scale', 'part': i, 'parts': 16, 'tier': tier} for i in range(16)]
    return specs


def check_program(res, prog, args, rng, tier, tag):
    src = A.render(prog)
    cid = runner.case_id(src, args)
    words = list(common.WORDS_ALL) + ([8] if rng.random() < 0.15 else [])
    nontrivial = False
    for word in words:
        ref, why = diff.model_run(prog, args, word)
        stacks = [diff.GENEROUS_STACK] + (common.tight_stacks(rng, 2) if word != 8 else [])
        for stack in stacks:
            res['evaluations'] += 1
            run = diff.compile_and_run(src, args, word=word, stack=stack, max_steps=MAX_STEPS)
            case = diff.case_dict(src, args, word, stack, gen=tag)
            if run.kind == 'reject':
                runner.fail(res, 'M-DIFF', f'well-typed program rejected: {run.detail}', case)
                return
            if run.kind in ('internal', 'asm'):
                runner.fail(res, 'M-EXC' if run.kind == 'internal' else 'M-ASM', run.detail, case)
                return
            o = run.outcome
            common.side_observe(res, run)
            if o.klass == 'TIMEOUT':
                runner.count(res, 'vm_timeouts')
                continue
            if ref is None:
                runner.count(res, 'model_skips')
                runner.note(res, 'model_skip_reasons', why[:60])
                if o.klass in ('HALT', 'TRAP'):
                    runner.fail(res, 'M-HALT', f'VM {o.klass} pc={o.halt_pc} {o.trap}', case, observed=o.brief())
                continue
            msg = diff.compare_streams(ref, o)
            if msg and stack != diff.GENEROUS_STACK and common.overflow_prefix_ok(ref, o):
                runner.count(res, 'tight_stack_overflows')
                msg = None
            elif msg is None and stack != diff.GENEROUS_STACK:
                runner.count(res, 'tight_stack_agreements')
            if msg:
                mech = None
                if common.twin_triage(prog, args, word, stack, False, ref, MAX_STEPS) == 'fold':
                    mech = 'fold-nowrap'
                runner.fail(res, 'M-DIFF', msg, case, expected=ref.brief(), observed=o.brief(), mechanism=mech)
                return
            runner.count(res, 'agree_' + ref.klass.split(':')[0])
            if ref.stats.get('max_depth', 0) >= 2 and len(ref.out) >= 20:
                nontrivial = True
    if nontrivial:
        res['nontrivial'].append(cid)
    if len(res['samples']) < 2 and nontrivial:
        res['samples'].append({'source': src[:1500], 'args': args, 'model': ref.brief() if ref else None})


def check_idiom(res, prog, argsets, tier, tag, k):
    """generous stack only; quick tier pairs argument vectors with word sizes round-robin, thorough runs the product"""
    src = A.render(prog)
    words = tuple(common.WORDS_ALL) + (8,)
    if tier == 'quick':
        pairs = [(argsets[(k + j) % len(argsets)], words[j % len(words)]) for j in range(max(len(argsets), len(words)))]
        pairs.append((argsets[k % len(argsets)], common.ODD_WORDS[k % len(common.ODD_WORDS)]))      # 40-, 48-, 56-, 96-, 128-bit words in rotation
    else:
        pairs = [(a, w) for a in argsets for w in words + common.ODD_WORDS]
    for args, word in pairs:
        res['evaluations'] += 1
        ref, why = diff.model_run(prog, args, word)
        run = diff.compile_and_run(src, args, word=word, stack=diff.GENEROUS_STACK, max_steps=MAX_STEPS)
        case = diff.case_dict(src, args, word, diff.GENEROUS_STACK, gen='idiom:' + tag)
        if run.kind != 'ok':
            runner.fail(res, {'reject': 'M-DIFF', 'internal': 'M-EXC', 'asm': 'M-ASM'}[run.kind], f'idiom {tag}: {run.kind}: {run.detail}', case)
            return
        o = run.outcome
        common.side_observe(res, run)
        if ref is None or o.klass == 'TIMEOUT':
            runner.count(res, 'model_skips' if ref is None else 'vm_timeouts')
            continue
        msg = diff.compare_streams(ref, o)
        if msg:
            runner.fail(res, 'M-DIFF', f'idiom {tag}: {msg}', case, expected=ref.brief(), observed=o.brief())
            return
        runner.count(res, 'idiom_agree_' + tag.split('/')[0])
        res['nontrivial'].append(runner.case_id(src, args, word))


def run_shard(spec):
    res = runner.new_result()
    if spec['kind'] == 'upstream':
        r = upstream.run_upstream('sequential')
        if r['error']:
            res['inconclusive'].append('upstream expectations: ' + r['error'])
        res['evaluations'] += len(r['passed']) + len(r['failed'])
        runner.count(res, 'upstream_expectations_passed', len(r['passed']))
        for name, msg in r['failed'].items():
            runner.fail(res, 'UPSTREAM', f"author's expectation {name} fails on the SVM: {msg}",
                        {'upstream_test': name})
        return res
    if spec['kind'] == 'scale':
        # scale grids (gen/scale.py): counts and sizes across the thresholds of frame offsets, element counts and label numbers
        words = (2, 3, 4, 8)
        for k, tag, prog, argsets in common.scale_items(('locals', 'params', 'array', 'labels', 'nesting', 'globals', 'entry', 'expr')):
            if k % spec['parts'] != spec['part']:
                continue
            j = k // spec['parts']
            if spec['tier'] == 'quick':
                pairs = [(argsets[j % len(argsets)], words[j % 4]), (argsets[(j + 1) % len(argsets)], words[(j + 2) % 4]),
                         (argsets[j % len(argsets)], common.ODD_WORDS[j % len(common.ODD_WORDS)])]
            else:
                pairs = [(a, w) for a in argsets for w in words + common.ODD_WORDS]
            for args, word in pairs:
                if not common.check_scale(res, prog, args, word, tag, monitors=()) and res['failures']:
                    break
        return res
    if spec['kind'] == 'idioms':
        k = 0
        for gen, argsets in ((idioms.shadow_programs, idioms.SHADOW_ARGS), (idioms.operand_programs, idioms.OPERAND_ARGS),
                             (idioms.capture_programs, idioms.CAPTURE_ARGS), (idioms.table_programs, idioms.TABLE_ARGS),
                             (idioms.capture_scalar_programs, [['1']]), (idioms.narrowing_programs, idioms.NARROW_ARGS),
                             (idioms.fresh_literal_programs, idioms.FRESH_ARGS), (idioms.exprstmt_programs, idioms.EXPRSTMT_ARGS),
                             (idioms.tailcall_programs, idioms.TAILCALL_ARGS), (idioms.global_neighbour_programs, idioms.NEIGHBOUR_ARGS),
                             (idioms.bitvector_programs, idioms.BITVECTOR_ARGS), (idioms.overload_arity_programs, [['7'], ['300']]), (idioms.const_shadow_programs, idioms.CONST_SHADOW_ARGS)):
            for tag, prog in gen():
                k += 1
                if k % spec['parts'] == spec['part']:
                    check_idiom(res, prog, argsets, spec['tier'], tag, k)
        for tag, prog, args in idioms.entry_programs():
            k += 1
            if k % spec['parts'] == spec['part']:
                check_idiom(res, prog, [args], spec['tier'], tag, k)
        return res
    rng = random.Random(spec['seed'])
    for i in range(spec['count']):
        s = spec['seed'] * 100003 + i
        profile = 'deep' if i % 3 == 2 else 'sequential'
        prog, args = ProgGen(s, profile, hostile=0.02).program()
        check_program(res, prog, args, rng, spec['tier'], f'{profile}:{s}')
    return res
