"""C17 - the write family prints canonically for every value.

Oracle: str(int) / b'true' / raw bytes computed by the harness against the
bytes printed on the SVM; M-SAN inside the write routines; caller variables and
arrays re-printed after every call, at generous and exactly-sufficient stacks."""
import random

from .. import diff, env, runner
from . import common
from .c04 import with_stack

PROPERTY = 'C17'
RULE = ('write/writeln(int) for all 65536 values at 16 bits (16 shards of 4096 values passed as int[] arguments); at 24/32/64 bits +-40 around '
        'every power of ten and of two plus random values; bool; all 256 bytes; byte arrays and strings of every length 0..64 as const global, '
        'mutable local, parameter and string-converted; every call surrounded by live caller scalars and arrays that are re-printed afterwards, '
        'at a generous stack and at the smallest stack that does not overflow, also from inside try bodies that are undone, committed and stopped; non-trivial = every value / length; distinct by (kind, value, word)')
ASSUMPTIONS = common.ISA_ASSUMPTIONS[:3]
REQUIRED_HIDC_FUNCTIONS = ['codegen/generator:CodeGen.eval_func_call']     # M-COV: deciding code never entered => inconclusive
MIN_NONTRIVIAL = {'quick': 66000, 'thorough': 90000}

INT_PROG = '''
empty @is_you(const int[] v) {
    for (int i = 0; i < v.length; i += 1) {
        write(v[i]);
        write(' ');
    }
    writeln(v.length);
}
'''

CALLER_PROG = '''
int g = 4242;
empty @is_you(const int[] v) {
    int before = -777;
    byte[] arr = ['k', 'e', 'e', 'p'];
    bool flag = true;
    for (int i = 0; i < v.length; i += 1) {
        int[] top = [11, 22, 33];
        byte t2[3];
        t2[0] = 'x'; t2[1] = 'y'; t2[2] = 'z';
        writeln(v[i]);
        write(top[0] + top[1] + top[2]); write(t2); write(before); write(arr); write(flag); write(g); write(';');
        write(v[i] == 0); write(t2[2]); writeln();
        write(top[2]); write(' ');
    }
}
'''

ORDER_PROG = '''
int deep(int a, int b, int c, int d) { write(a + b + c + d); write(' '); return a; }
empty tight(int n, int big) { byte buf[n]; buf[n - 1] = 'X'; write(big); write(' '); write(buf[n - 1]); writeln(); }
empty @is_you(int n, int big) { int keep = deep(n, deep(1, 2, 3, 4), 5, 6); tight(n, big); tight(n - 1, big); write(keep); }
'''

# the same within ONE function: earlier write(int) calls at a greater and at the same frame depth, then the exactly fitting array, then the long write
ORDER2_PROG = '''
empty tight2(int n, int big) {
    { int p = n; int q = 2; int r = 3; write(p + q + r - n); write(' '); }
    write(7); write(' ');
    byte buf[n]; buf[n - 1] = 'X'; buf[n - 2] = 'Y';
    write(big); write(' '); write(buf[n - 2]); write(buf[n - 1]); writeln();
}
empty @is_you(int n, int big) { tight2(n, big); tight2(n - 1, big); write(n); }
'''

# the same inside try bodies: one that is undone (whatever the write routines do on that doomed path must not leak into
# the committed timeline, e.g. by overwriting the array the defeat condition reads), one that commits, one that is stopped
CALLER_TT_PROG = '''
int g = 4242;
empty @is_you(const int[] v) {
    int before = -777;
    byte[] arr = ['k', 'e', 'e', 'p'];
    for (int i = 0; i < v.length; i += 1) {
        byte[] guard = [0, 1];
        int[] top = [11, 22, 33];
        try { write(v[i]); write(arr); !truth_is_defeat(guard[0] == 0); write('!'); } undo { write('u'); }
        try { write(v[i]); write(true); !truth_is_defeat(guard[1] == 0); write(';'); } undo { write('U'); }
        try { writeln(v[i]); !truth_is_defeat(guard[0] == 0); write('!'); } stop { write('s'); }
        write(guard[0] is int); write(guard[1] is int); write(top[0] + top[2]); write(before); write(arr); write(g); writeln();
    }
}
'''


def plan(tier, seed):
    specs = [{'kind': 'int16', 'part': i} for i in range(16)]
    specs += [{'kind': 'intwide', 'word': w, 'seed': seed, 'random': 1500 if tier == 'quick' else 7000} for w in (3, 4, 8)]
    specs += [{'kind': 'bytes_and_bools', 'word': w} for w in (2, 3)]
    specs += [{'kind': 'arrays', 'word': 2 + (i % 3), 'part': i, 'parts': 4, 'seed': seed} for i in range(4)]
    specs += [{'kind': 'constants', 'word': w} for w in (2, 3, 4)]
    specs += [{'kind': 'single', 'word': w} for w in (2, 3)]
    specs += [{'kind': 'caller', 'word': w, 'seed': seed} for w in (2, 3, 4, 8)]
    return specs


def expect_run(res, src, args, word, want, tag, ids, steps=8_000_000, lines=None, stack=diff.GENEROUS_STACK):
    res['evaluations'] += 1
    case = diff.case_dict(src, args if len(args) < 50 else args[:50] + ['...'], word, stack, gen=tag)
    if lines is None:
        run = diff.compile_and_run(src, args, word=word, stack=stack, max_steps=steps)
    else:
        run = diff.run_lines(lines, args, steps)
    if run.kind != 'ok':
        runner.fail(res, 'M-WRITE', f'{tag}: {run.kind}: {run.detail}', case)
        return None
    o = run.outcome
    common.side_observe(res, run)
    san = [x for x in o.reports if x[1] == 'san']
    if san:
        runner.fail(res, 'M-SAN', f'{tag}: {san[0][2]} (asm line {san[0][4]})', case, observed=o.brief())
        return None
    if o.klass == 'TIMEOUT':
        res['inconclusive'].append(f'{tag}: step budget exhausted')
        return None
    if want is not None and (o.out != want or o.klass != 'WIN'):
        k = next((i for i, (a, b) in enumerate(zip(o.out, want)) if a != b), min(len(o.out), len(want)))
        runner.fail(res, 'M-WRITE', f'{tag}: printed text differs from the canonical text at offset {k}: got {o.out[max(0, k - 12):k + 12]!r}, '
                                    f'want {want[max(0, k - 12):k + 12]!r} ({o.klass})', case, expected=want[max(0, k - 60):k + 60].decode('latin-1'), observed=o.brief())
        return None
    runner.count(res, 'bytes_compared', len(o.out))
    res['nontrivial'].extend(ids)
    return run


def int_values(bits, r, nrandom):
    hi, lo = (1 << (bits - 1)) - 1, -(1 << (bits - 1))
    vals = set()
    p = 1
    while p <= hi * 10:
        for d in range(-40, 41):
            for s in (1, -1):
                v = s * p + d
                if lo <= v <= hi:
                    vals.add(v)
        p *= 10
    p = 1
    while p <= hi + 1:
        for d in range(-40, 41):
            for s in (1, -1):
                v = s * p + d
                if lo <= v <= hi:
                    vals.add(v)
        p *= 2
    vals.update([lo, lo + 1, hi, hi - 1, 0])
    for _ in range(nrandom):
        vals.add(r.randint(lo, hi))
        vals.add(r.randint(-10 ** r.randint(1, 19), 10 ** r.randint(1, 19)) % (hi - lo + 1) + lo)
    return sorted(vals)


def run_shard(spec):
    res = runner.new_result()
    k = spec['kind']
    if k == 'int16':
        vals = [((spec['part'] * 4096 + i) ^ 0x8000) - 0x8000 for i in range(4096)]     # all of -32768..32767 over the 16 shards
        vals = [v - 65536 if v > 32767 else v for v in [spec['part'] * 4096 + i for i in range(4096)]]
        want = b''.join(str(v).encode() + b' ' for v in vals) + str(len(vals)).encode() + b'\n'
        expect_run(res, INT_PROG, [str(v) for v in vals], 2, want, f'write(int) 16-bit shard {spec["part"]}', [runner.case_id('i16', v) for v in vals])
        res['exhaustive'] = True
        res['samples'].append({'write_int_16bit': vals[:6] + vals[-3:]})
    elif k == 'single':
        # programs that use exactly ONE of the write routines (the routines share loops and exits with one another: a
        # library trimmed to what a program uses must still contain everything that routine jumps to)
        word = spec['word']
        progs = [
            ('const byte table only', "const byte[] T = ['o', 'k'];\nempty @is_you() { write(T); }\n", [], b'ok'),
            ('string as bytes only', 'empty @is_you(string s) { write(s is byte[]); }\n', ['converted'], b'converted'),
            ('const byte[] parameter only', 'empty show(const byte[] p) { writeln(p); }\nempty @is_you(const byte[] a) { show(a); }\n', ['104', '105'], b'hi\n'),
            ('mutable byte array only', "empty @is_you() { byte[] m = ['m', 'u']; write(m); }\n", [], b'mu'),
            ('dynamic byte array only', "empty @is_you(int n) { byte d[n]; d[0] = 'd'; d[1] = 'y'; writeln(d); }\n", ['2'], b'dy\n'),
            ('string only', 'empty @is_you(string s) { write(s); }\n', ['text'], b'text'),
            ('int only', 'empty @is_you(int n) { write(n); }\n', ['-120'], b'-120'),
            ('bool only', 'empty @is_you(int n) { write(n > 1); }\n', ['5'], b'true'),
            ('byte only', 'empty @is_you(int n) { write(n is byte); }\n', ['65'], b'A'),
            ('newline only', 'empty @is_you() { writeln(); }\n', [], b'\n'),
            ('nothing written', 'empty @is_you(int n) { n += 1; }\n', ['1'], b''),
        ]
        for tag, src, args, want in progs:
            for unchecked in (False, True):
                res['evaluations'] += 1
                run = diff.compile_and_run(src, args, word=word, unchecked=unchecked, max_steps=200_000)
                case = diff.case_dict(src, args, word, diff.GENEROUS_STACK, unchecked, gen='single routine: ' + tag)
                if run.kind != 'ok':
                    runner.fail(res, 'M-WRITE', f'{tag}: {run.kind}: {run.detail}', case)
                elif run.outcome.out != want or run.outcome.klass != 'WIN':
                    runner.fail(res, 'M-WRITE', f'{tag}: printed {run.outcome.out!r} ({run.outcome.klass}), expected {want!r}', case, expected=want.decode('latin-1'), observed=run.outcome.brief())
                else:
                    res['nontrivial'].append(runner.case_id('single', tag, word, unchecked))
        res['exhaustive'] = True
    elif k == 'constants':
        # write(int) / writeln(int) of compile-time constants: literals (also beyond the word: the assembler wraps immediates,
        # as upstream's writeln(32768) -> -32768 expects), const variables, folded expressions, byte and bool constants
        word = spec['word']
        bits = 8 * word
        full, half = 1 << bits, 1 << (bits - 1)
        wrap = lambda v: ((v + half) % full) - half         # noqa: E731
        lits = sorted({0, 1, -1, 9, 10, -10, 99, 100, 12345, -12345, half - 1, -half, half, -half - 1, half + 1, full - 1, full, full + 1, -full, 3 * half, 3 * half + 7,
                       -3 * half, 2 * full + 5, -2 * full - 5, 40000, -40000, 100000, -100000, 60000})
        lines, want = [], bytearray()
        for v in lits:
            t = f'({v})' if v < 0 else str(v)
            lines.append(f'write({t}); write(\' \'); writeln({t});')
            want += str(wrap(v)).encode() + b' ' + str(wrap(v)).encode() + b'\n'
        inr = [v for v in lits if -half <= v < half]
        decls = []
        for i, v in enumerate(inr[:12]):
            decls.append(f'const int K{i} = {v};')
            lines.append(f'write(K{i}); write(\' \'); write(K{i} + 0); write(\' \'); writeln(-(-K{i}));')
            want += (str(v).encode() + b' ') * 2 + str(v).encode() + b'\n'
        lines.append("write(2 + 3 * 4); write(' '); write(100 / 7); write(' '); write(-100 / 7); write(' '); write(-100 % 7); write(' '); writeln(7 - 7);")
        want += b'14 14 -15 5 0\n'
        lines.append("write('A' is int); write(' '); write(true is int); write(' '); write(('\\xff' is int) + 1); write(' '); write(false); write(' '); write('z'); writeln(true);")
        want += b'65 1 256 false ztrue\n'
        src = '\n'.join(decls) + '\nempty @is_you() {\n    ' + '\n    '.join(lines) + '\n}\n'
        expect_run(res, src, [], word, bytes(want), f'write of compile-time constants, word {word}', [runner.case_id('const', word, v) for v in lits])
        res['exhaustive'] = True
    elif k == 'intwide':
        r = random.Random(spec['seed'] * 31 + spec['word'])
        vals = int_values(8 * spec['word'], r, spec['random'])
        for lo in range(0, len(vals), 3000):
            chunk = vals[lo:lo + 3000]
            want = b''.join(str(v).encode() + b' ' for v in chunk) + str(len(chunk)).encode() + b'\n'
            expect_run(res, INT_PROG, [str(v) for v in chunk], spec['word'], want, f'write(int) {8 * spec["word"]}-bit', [runner.case_id('iw', spec['word'], v) for v in chunk], steps=20_000_000)
        res['samples'].append({'write_int_wide': vals[:3] + vals[-3:], 'word': spec['word']})
    elif k == 'bytes_and_bools':
        src = ('empty @is_you(const byte[] v) { for (int i = 0; i < v.length; i += 1) { write(v[i]); writeln(v[i]); write(v[i] > 127); '
               'write(\' \'); writeln(v[i] % 2 == 0); writeln(); } write(true); write(false); writeln(true); writeln(false); }\n')
        want = b''.join(bytes([b]) + bytes([b]) + b'\n' + (b'true' if b > 127 else b'false') + b' ' + (b'true' if b % 2 == 0 else b'false') + b'\n\n' for b in range(256))
        want += b'truefalsetrue\nfalse\n'
        expect_run(res, src, [str(b) for b in range(256)], spec['word'], want, 'write(byte)/write(bool)', [runner.case_id('byte', b, spec['word']) for b in range(256)])
        # write(bool) of values that were converted to bool (ints, bytes, lengths): every non-zero value prints true, whatever its low byte
        bits = 8 * spec['word']
        hi, lo = (1 << (bits - 1)) - 1, -(1 << (bits - 1))
        ints = [0, 1, 2, 255, 256, 257, 512, -1, -255, -256, -257, -512, 1 << (bits - 2), hi, lo, lo + 1, lo + 256, hi - 255]
        src2 = ('empty show(bool b) { write(b); write(\' \'); }\nempty @is_you(const int[] v) { for (int i = 0; i < v.length; i += 1) { write(v[i] is bool); write(\' \'); '
                'bool k = v[i] is bool; writeln(k); show(v[i] is bool); write((v[i] is byte) is bool); write(\' \'); writeln(not (v[i] is bool)); } }\n')
        want2 = b''.join((b'true true\ntrue ' if v else b'false false\nfalse ') + (b'true ' if v & 0xFF else b'false ') + (b'false\n' if v else b'true\n') for v in ints)
        expect_run(res, src2, [str(v) for v in ints], spec['word'], want2, 'write(bool) of converted values', [runner.case_id('boolconv', v, spec['word']) for v in ints])
        res['exhaustive'] = True
    elif k == 'arrays':
        r = random.Random(spec['seed'] * 17 + spec['part'])
        for n in list(range(0, 65)) + [255, 256, 257, 300, 700, 1025]:
            if n % spec['parts'] != spec['part']:
                continue
            data = bytes(r.choice([0, 10, 13, 34, 39, 92, 127, 128, 255, r.randrange(256)]) for _ in range(n))
            from .c13 import spell
            lit = '"' + spell(r, data) + '"'
            ad = bytes((x * 7 + 3) & 0xFF for x in data)      # the byte arrays hold other bytes than the string
            arr = '[' + ', '.join(str(b) for b in ad) + ']'
            ty_pad = f'const byte[] GC = {arr};\n' if n else 'const byte[] GC = [];\n'
            src = (ty_pad + f'string GS = {lit};\n'
                   'empty viaparam(const byte[] p, string s, byte[] m) { write(p); write(\'|\'); write(s); write(\'|\'); writeln(m); writeln(p); writeln(s); }\n'
                   'string pick(string s) { return s; }\n'
                   'empty conv(string ps) { write(ps is byte[]); write(\'|\'); writeln((ps is byte[]).length); }\n'
                   + (f'const int[] ITAB = {arr};\n' if n else '') +
                   'empty @is_you(const byte[] arg) {\n'
                   f'    byte[] LM = {arr if n else "[]"};\n'
                   '    int keep = 31337;\n'
                   '    write(GC); write(\'|\'); write(GS); write(\'|\'); write(LM); write(\'|\'); write(GS is byte[]); write(\'|\'); write(arg); write(\'|\');\n'
                   f'    write({lit}); write(\'|\'); write({arr if n else "GC"}); write(\'|\');\n'
                   '    viaparam(GC, GS, LM); viaparam(LM, GS, LM); viaparam(arg, GS, LM);\n'
                   '    writeln(GC); writeln(GS); writeln(LM); writeln(); write(keep); write(LM.length);\n'
                   '    string ls = GS; write(\'@\'); write(ls is byte[]); write(pick(ls) is byte[]); conv(ls); conv(pick(GS));\n'
                   + ('    write(ITAB.length); const byte[] BTAB = ' + arr + '; write(BTAB); write(ITAB[0]);\n' if n else '')
                   + (('    const byte[] LC = [' + ', '.join(f'LM[{i}]' for i in range(n)) + ']; write(\'#\'); write(LC); writeln(LC); viaparam(LC, GS, LM);\n'
                       '    write([LM[0], \'x\', LM[' + str(n - 1) + ']]); write(LC.length);\n') if 1 <= n <= 9 else '')
                   + '}\n')
            d = data
            want = ad + b'|' + d + b'|' + ad + b'|' + d + b'|' + ad + b'|' + d + b'|' + ad + b'|'
            for _ in range(3):
                want += ad + b'|' + d + b'|' + ad + b'\n' + ad + b'\n' + d + b'\n'
            want += ad + b'\n' + d + b'\n' + ad + b'\n\n' + b'31337' + str(n).encode()
            want += b'@' + d + d + (d + b'|' + str(n).encode() + b'\n') * 2
            if n:
                want += str(n).encode() + ad + str(ad[0]).encode()
            if 1 <= n <= 9:
                want += b'#' + ad + ad + b'\n' + ad + b'|' + d + b'|' + ad + b'\n' + ad + b'\n' + d + b'\n' + bytes([ad[0]]) + b'x' + bytes([ad[-1]]) + str(n).encode()
            expect_run(res, src, [str(b) for b in ad], spec['word'], want, f'write(byte array / string) of length {n}', [runner.case_id('arr', n, spec['word'], i) for i in range(4)])
        res['exhaustive'] = True
        res['samples'].append({'write_arrays': 'lengths 0..64 as const global, string, mutable local, string-converted, argument, parameter'})
    else:
        word = spec['word']
        bits = 8 * word
        hi, lo = (1 << (bits - 1)) - 1, -(1 << (bits - 1))
        r = random.Random(spec['seed'] + word)
        vals = [0, 5, -5, 9, 10, 99, 100, -100, hi, lo, hi - 1, lo + 1, 12345, -12345] + [r.randint(lo, hi) for _ in range(30)]
        for PROG, tt in ((CALLER_PROG, False), (CALLER_TT_PROG, True), (ORDER_PROG, 'order'), (ORDER2_PROG, 'order2')):
            want = b''
            if tt == 'order':
                # the reserve for the digit buffer in a function compiled AFTER one whose write(int) sat deeper: array of exactly
                # fitting length, most negative value (longest text)
                lo = -(1 << (bits - 1))
                want = b'10 19 ' + (str(lo).encode() + b' X\n') * 2 + b'7'        # deep(1,2,3,4) prints 10 and returns 1; 7 + 1 + 5 + 6 = 19
            if tt == 'order2':
                lo = -(1 << (bits - 1))
                want = (b'5 7 ' + str(lo).encode() + b' YX\n') * 2 + b'7'
            for v in (vals if tt not in ('order', 'order2') else []):
                if tt:
                    want += b'u' + str(v).encode() + b'true;' + str(v).encode() + b'\ns' + b'0144-777keep4242\n'
                else:
                    want += str(v).encode() + b'\n' + b'66xyz-777keeptrue4242;' + (b'true' if v == 0 else b'false') + b'z\n' + b'33 '
            CompilerError, _ = env.compiler_error_types()
            base = env.compile_src(PROG, word=word, stack=diff.GENEROUS_STACK)
            top = 48 if tt is True else diff.GENEROUS_STACK       # inside try bodies a doomed path may wander through the whole stack: keep it small
            args = [str(v) for v in vals] if tt not in ('order', 'order2') else ['7', str(-(1 << (bits - 1)))]
            ids = [runner.case_id('caller', tt, word, v) for v in (vals if tt not in ('order', 'order2') else [0])]
            g = expect_run(res, PROG, args, word, want, f'caller state around write(int){" inside try blocks" if tt is True else " in a function compiled after a deeper write(int)" if tt else ""}, word {word}', ids, lines=with_stack(base, top) if tt is True else base)
            if g is not None:
                # smallest stack that reproduces the generous outcome, then the sizes around it
                lo_s, hi_s = 0, top
                while lo_s + 1 < hi_s:
                    mid = (lo_s + hi_s) // 2
                    rr = diff.run_lines(with_stack(base, mid), args, 3_000_000)
                    if rr.kind == 'ok' and rr.outcome.out == want and rr.outcome.klass == 'WIN':
                        hi_s = mid
                    else:
                        lo_s = mid
                runner.count(res, 'smallest_sufficient_stack_words_w%d' % word, hi_s)
                for s in range(max(1, hi_s - 3), hi_s + 4):
                    lines = with_stack(base, s)
                    res['evaluations'] += 1
                    rr = diff.run_lines(lines, args, 3_000_000)
                    o = rr.outcome
                    case = diff.case_dict(PROG, args, word, s)
                    san = [x for x in o.reports if x[1] == 'san']
                    if san:
                        runner.fail(res, 'M-SAN', f'write routine at stack {s}: {san[0][2]} (asm line {san[0][4]})', case, observed=o.brief())
                        break
                    if s >= hi_s and (o.out != want or o.klass != 'WIN'):
                        runner.fail(res, 'M-WRITE', f'caller state disturbed at exactly-sufficient stack {s}', case, expected=want[:200].decode(), observed=o.brief())
                        break
                    if s < hi_s and tt is not True and not (o.klass == 'ERROR:stack_overflow' and want.startswith(o.out)):
                        runner.fail(res, 'M-WRITE', f'at stack {s} (below the smallest sufficient size {hi_s}) the run neither overflows cleanly nor prints a prefix: {o.klass} {o.out[-40:]!r}',
                                    case, observed=o.brief())
                        break
                    runner.count(res, 'tight_stack_runs_ok')
        res['samples'].append({'caller_state': 'writeln(v[i]) between live caller scalars/arrays, re-printed afterwards', 'word': word, 'values': vals[:8]})
    return res
