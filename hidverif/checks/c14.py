"""C14 - compile-time evaluation is invisible.

Oracle: metamorphic M-DIFF between two compiled programs: the constant form of
an expression (literals / const variables, which hidc folds) and its run-time
twin (the same GenAST rendered with every literal routed through a mutable
global, so nothing can be folded); RefInt acts as tie-breaker saying which side
is wrong.  A compile-time rejection is legitimate only if the expression
contains a constant sub-expression whose divisor is zero."""
import random

from .. import diff, env, runner
from ..gen.progs import is_const, const_eval, const_exact
from ..model.ast import *  # noqa: F401,F403
from ..model import ast as A
from . import common

PROPERTY = 'C14'
RULE = ('random constant expressions of depth <= 5 over all arithmetic, comparison, equality, logical and unary operators, every legal `is` cast, '
        '?? and const-variable references, literals from the boundary grid of the word size (in range for the word), used as printed value, '
        'branch condition, declaration initialiser and !truth_is_defeat argument; each compiled in constant form and as run-time twin at word '
        'sizes 2,3,4; 40% of the programs also mix run-time operands (an effectful call tick(), a variable) into the constant expressions, use constant (sometimes zero) divisors under run-time dividends, and loops whose condition folds to false; a `forms` shard enumerates constant indices (in range, negative, out of range) into constant strings, array literals and local arrays, computed left operands next to array[constant], and dynamic arrays of constant length at the boundaries of the size arithmetic; non-trivial = the program has >= 2 operators over constant operands; distinct by (program text, word)')
ASSUMPTIONS = common.ISA_ASSUMPTIONS[:3] + ['the twin replaces each literal v by (zz + v) / ((zz + v) is byte) / (zz == 0) with a mutable global zz = 0']
REQUIRED_HIDC_FUNCTIONS = ['ast/operators:ArithmeticOp.simplify', 'ast/operators:BooleanOp.simplify']     # M-COV: deciding code never entered => inconclusive
MIN_NONTRIVIAL = {'quick': 1200, 'thorough': 10000}
MAX_STEPS = 300_000


def plan(tier, seed):
    n, per = (16, 110) if tier == 'quick' else (64, 260)
    specs = [{'kind': 'gen', 'seed': s, 'count': per, 'word': 2 + (i % 3)} for i, s in enumerate(common.shard_seeds(seed, n))]
    return specs + [{'kind': 'witness', 'seed': 0, 'word': w} for w in (2, 3, 4)] + [{'kind': 'forms', 'seed': 0, 'word': w} for w in (2, 3, 4)]


class CGen:
    def __init__(self, r, bits, safe):
        self.r = r
        self.bits = bits
        self.safe = safe        # keep every constant intermediate inside the word range / bytes inside 0..255
        hi, lo = (1 << (bits - 1)) - 1, -(1 << (bits - 1))
        self.ints = [0, 1, 2, 3, 7, 10, 100, 127, 128, 255, 256, 1000, hi, hi - 1, hi // 2, 12345 % hi]
        self.lo, self.hi = lo, hi
        self.consts = {}
        self.runtime = False
        self.tick = Func('tick', [('k', INT, False)], INT, [ExprStmt(Call('write', [Lit(BYTE, ord('t'), keep=True)])),
                                                               OpAssign(Var('tn', INT), '+', Lit(INT, 1, keep=True)),
                                                               Ret(Bin('+', Bin('%', Var('tn', INT), Lit(INT, 3, keep=True)), Var('k', INT)))])

    def lit(self, t):
        r = self.r
        if t == INT:
            if self.consts and r.random() < 0.2:
                n = r.choice([k for k, v in self.consts.items() if v[0] == INT] or [None])
                if n:
                    return Var(n, INT, self.consts[n][1])
            v = r.choice(self.ints)
            if r.random() < 0.3:
                return Un('-', Lit(INT, v)) if r.random() < 0.5 or v == 0 else Lit(INT, -v)
            return Lit(INT, v)
        if t == BYTE:
            if self.consts and r.random() < 0.2:
                n = r.choice([k for k, v in self.consts.items() if v[0] == BYTE] or [None])
                if n:
                    return Var(n, BYTE, self.consts[n][1])
            return Lit(BYTE, r.choice([0, 1, 2, 9, 65, 127, 128, 200, 255]))
        if self.consts and r.random() < 0.2:
            n = r.choice([k for k, v in self.consts.items() if v[0] == BOOL] or [None])
            if n:
                return Var(n, BOOL, self.consts[n][1])
        return Lit(BOOL, r.random() < 0.5)

    def num(self, d):
        r = self.r
        if self.runtime and r.random() < 0.18:
            # a run-time operand next to constants: an effectful call or a variable hidc cannot fold
            k = r.random()
            if k < 0.5:
                return Call(self.tick, [Lit(INT, r.randint(0, 3))])
            if k < 0.8:
                return Var('rv', INT)
            return Bin(r.choice(['+', '*']), Var('rv', INT), Lit(INT, r.randint(0, 2)))
        return self.expr(r.choice([INT, INT, BYTE]), d)

    def expr(self, t, d):
        for _ in range(20):
            e = self._expr(t, d)
            if not is_const(e):
                if self.safe and not self.exact(e):
                    continue
                return e
            v = const_eval(e)
            if v is None:
                if self.r.random() < 0.03:
                    return e          # constant division by zero: must be rejected
                continue
            if self.safe and not self.exact(e):
                continue
            return e
        return self.lit(t)

    def exact(self, e):
        for x in A.walk_expr(e):
            if getattr(x, 't', None) in (INT, BYTE) and is_const(x):
                v = const_eval(x)
                if v is None:
                    return False
                if x.t == BYTE and not (0 <= int(v) <= 255):
                    return False
                if not (self.lo <= int(v) <= self.hi):
                    return False
        return True

    def _expr(self, t, d):
        r = self.r
        if d <= 0 or r.random() < 0.15:
            return self.lit(t)
        c = r.random()
        if t == INT:
            if c < 0.55:
                op = r.choice(['+', '-', '*', '/', '%', '+', '-', '*'])
                if op in '/%' and self.runtime and r.random() < 0.25:
                    # run-time dividend, constant divisor (sometimes zero: must then fault at run time in both forms)
                    return Bin(op, Var('rv', INT), r.choice([Lit(INT, 0), Bin('-', Lit(INT, 2), Lit(INT, 2)), Lit(INT, 3), Lit(INT, 1), Lit(INT, 65536), Lit(INT, -(1 << 24)), Lit(INT, 3 << 32), Bin('*', Lit(INT, 256), Lit(INT, 256))]))   # the last four are zero on the target at some word sizes
                return Bin(op, self.num(d - 1), self.num(d - 1))
            if c < 0.7:
                return Un(r.choice(['-', '+']), self.num(d - 1))
            if c < 0.85:
                return Cast(self.expr(r.choice([BYTE, BOOL]), d - 1), INT)
            return Spec(self.expr(INT, d - 1), self.expr(INT, d - 1)) if d < 3 else self.lit(INT)
        if t == BYTE:
            if c < 0.8:
                return Cast(self.expr(r.choice([INT, INT, BOOL]), d - 1), BYTE)
            return self.lit(BYTE)
        if c < 0.4:
            return Bin(r.choice(['<', '<=', '>', '>=', '==', '!=']), self.num(d - 1), self.num(d - 1))
        if c < 0.5:
            return Bin(r.choice(['==', '!=']), self.expr(BOOL, d - 1), self.expr(BOOL, d - 1))
        if c < 0.7:
            return Bin(r.choice(['and', 'or']), self.expr(r.choice([BOOL, BOOL, INT, BYTE]), d - 1), self.expr(r.choice([BOOL, BOOL, INT]), d - 1))
        if c < 0.8:
            return Un('not', self.expr(r.choice([BOOL, INT]), d - 1))
        return Cast(self.expr(r.choice([INT, BYTE]), d - 1), BOOL)


BYTE_PAIRS = [
    ('sum beyond 255', 'byte a = 200 + 100; write(a is int);', 'byte a = p + q; write(a is int);'),
    ('intermediate beyond 255', 'byte a = 200 + 100 - 100; write(a is int);', 'byte a = p + q - q; write(a is int);'),
    ('product of 16s', 'byte a = 16 * 16; write(a is int);', 'byte a = s * s; write(a is int);'),
    ('negative result', 'byte a = 100 - 200; write(a is int);', 'byte a = q - p; write(a is int);'),
    ('assignment', 'byte a = 1; a = 200 + 100; write(a is int);', 'byte a = 1; a = p + q; write(a is int);'),
    ('compound assignment', 'byte a = 250; a += 200; write(a is int);', 'byte a = 250; a += p; write(a is int);'),
    ('array element', 'byte[] e = [1, 2, 200 + 100]; write(e[2] is int);', 'byte[] e = [1, 2, p + q]; write(e[2] is int);'),
    ('element store', 'byte e[2]; e[1] = 200 * 2; write(e[1] is int);', 'byte e[2]; e[1] = p * 2; write(e[1] is int);'),
    ('argument', 'ov(200 + 100);', 'ov(p + q);'),
    ('large literal', 'byte a = 300; byte b = 256; byte c = 511; write(a is int); write(b is int); write(c is int);',
     'byte a = p + q; byte b = s * s; byte c = p + q + p + 11; write(a is int); write(b is int); write(c is int);'),
    ('in range', 'byte a = 100 + 100; write(a is int);', 'byte a = q + q; write(a is int);'),
]
BYTE_PAIRS = [(t, c, v) for t, c, v in BYTE_PAIRS if 'ov(' not in c]


def forms(word, bits, hi):
    """constant-dependent decisions other than arithmetic folding, enumerated: constant indices (in and out of range,
    negative) into constant strings, const string variables, constant array literals and local arrays; a computed left
    operand next to `array[constant]`; dynamic arrays whose length is a constant at the boundaries of the size arithmetic.
    yields (tag, [(expr, usage)], consts)"""
    digits = b'0123456789'
    S = lambda: Lit(STRING, digits)                                    # noqa: E731
    ks = {'ks': (STRING, digits, Lit(STRING, digits))}
    for k in list(range(-12, 13)) + [hi, -hi - 1, 255, 256, -256]:
        yield f'literal string [{k}]', [(Index(S(), Lit(INT, k)), 'value')], {}
        yield f'const string [{k}]', [(Index(Var('ks', STRING, digits), Lit(INT, k)), 'value')], ks
        if -5 <= k <= 5 or abs(k) > 200:
            yield f'constant int literal [{k}]', [(Index(ArrLit([Lit(INT, 10), Lit(INT, 20), Lit(INT, 30)], INT, True), Lit(INT, k)), 'value')], {}
            yield f'constant bool literal [{k}]', [(Index(ArrLit([Lit(BOOL, True), Lit(BOOL, False), Lit(BOOL, True)], BOOL, True), Lit(INT, k)), 'branch')], {}
            yield f'local array [{k}]', [(Index(Var('ra', Arr(INT, False)), Lit(INT, k)), 'value')], {}
        if 0 <= k <= 11:
            # a bit-vector element read through a constant index and used as a VALUE (strict 0/1), from a constant table, a stack
            # literal with a run-time element, and a dynamic array
            bits12 = [True, False, True, True, False, False, True, False, True, True, False, True]
            ct = ArrLit([Lit(BOOL, b) for b in bits12], BOOL, True)
            yield f'constant bool table [{k}] as value', [(Cast(Index(ct, Lit(INT, k)), INT), 'value'), (Bin('==', Index(ArrLit([Lit(BOOL, b) for b in bits12], BOOL, True), Lit(INT, k)), Lit(BOOL, True)), 'value'),
                                                          (Un('not', Index(ArrLit([Lit(BOOL, b) for b in bits12], BOOL, True), Lit(INT, k))), 'decl')], {}
            st = lambda: ArrLit([Bin('>', Var('rv', INT), Lit(INT, 0))] + [Lit(BOOL, b) for b in bits12[1:]], BOOL, True)      # noqa: E731
            yield f'stack bool literal [{k}] as value', [(Cast(Index(st(), Lit(INT, k)), INT), 'value'), (Bin('==', Index(st(), Lit(INT, k)), Lit(BOOL, True)), 'value'),
                                                         (Bin('+', Cast(Index(st(), Lit(INT, k)), INT), Cast(Cast(Index(st(), Lit(INT, k)), BYTE), INT)), 'value')], {}
        if -3 <= k <= 3:
            yield f'length of string slice [{k}]', [(Bin('+', Len(S()), Cast(Index(S(), Lit(INT, k)), INT)), 'value')], {}
    tk = CGen(random.Random(0), bits, True).tick
    T_ = lambda k: Call(tk, [Lit(INT, k)])       # noqa: E731
    yield 'length / truthiness / index of literals whose elements have effects', [
        (Len(ArrLit([T_(1), T_(2), Lit(INT, 7)], INT, True)), 'value'), (Bin('+', Len(ArrLit([T_(3)], INT, True)), Len(Lit(STRING, b'abc'))), 'value'),
        (Cast(ArrLit([T_(4), Lit(INT, 0)], INT, True), BOOL), 'branch'), (Index(ArrLit([T_(5), T_(6), Lit(INT, 9)], INT, True), Lit(INT, 2)), 'value'),
        (Len(ArrLit([Bin('>', T_(7), Lit(INT, 0)), Lit(BOOL, False)], BOOL, True)), 'decl')], {}
    rv = Var('rv', INT)
    ra = Var('ra', Arr(INT, False))
    pf = Func('pf', [('p', Arr(INT, True), False), ('x', INT, False)], INT,
              [Ret(Bin('-', Bin('*', Bin('+', Var('x', INT), Lit(INT, 1)), Index(Var('p', Arr(INT, True)), Lit(INT, 2))), Index(Var('p', Arr(INT, True)), Lit(INT, 0))))])
    tick = CGen(random.Random(0), bits, True).tick
    lefts = [lambda: Bin('+', rv, Lit(INT, 3)), lambda: Bin('*', rv, rv), lambda: Call(tick, [Lit(INT, 1)]), lambda: Un('-', rv),
             lambda: Index(ra, Lit(INT, 0)), lambda: Cast(Cast(rv, BYTE), INT)]
    for li, L in enumerate(lefts):
        items = []
        for op in ('+', '-', '*', '/', '%', '<', '>=', '==', '!='):
            for k in (0, 1, 2):
                e = Bin(op, L(), Index(ra, Lit(INT, k)))
                items.append((e, 'value' if op in '+-*/%' else 'branch'))
                if op in '+<':
                    items.append((e, 'decl'))
        items.append((Call(pf, [ra, L()]), 'value'))
        yield f'computed left operand #{li} next to array[constant]', items, {}
    w = word
    full = 1 << bits
    lens = {0, 1, 7, 8, 9, hi // w, hi // w + 1, hi // 2 + 1, hi - 7, hi, (full + w - 1) // w, (full + w - 1) // w + 1, (full // 2) // w, (full // 2) // w + 1,
            (2 * full + w - 1) // w, 3 * ((full + w - 1) // w)}
    # a run-time dividend over a constant divisor that is (or is not) zero ON THE TARGET: literals beyond the word, written, folded, or held in a const variable
    for d in (full, -full, 3 * full, 2 * full, full + 1, full - 1, hi + 1, 1, -1, 7):
        for op in ('/', '%'):
            yield f'run-time dividend {op} literal {d}', [(Bin(op, rv, Lit(INT, d)), 'value')], {}
            yield f'run-time dividend {op} const variable {d}', [(Bin(op, rv, Var('kd', INT, d)), 'decl')], {'kd': (INT, d, Lit(INT, d))}
        half = 1 << (bits // 2)
        if d % half == 0 and d > 0:
            yield f'run-time dividend / folded product {d}', [(Bin('/', rv, Bin('*', Lit(INT, half), Lit(INT, d // half))), 'value')], {}
    for el in (INT, BOOL, BYTE, STRING):
        for n in sorted(x for x in lens if 0 <= x <= hi):
            yield f'{el} array of constant length {n}', [(Lit(INT, n), ('vla', el))], {}
        for n in (-1, -8, -hi - 1, -hi):
            yield f'{el} array of constant length {n}', [(Un('-', Lit(INT, -n)) if n != -hi - 1 else Bin('-', Un('-', Lit(INT, hi)), Lit(INT, 1)), ('vla', el))], {}


def spec_problem(e, usage):
    """?? may not appear inside a try body nor inside an operand of another ??"""
    specs = [x for x in A.walk_expr(e) if isinstance(x, Spec)]
    if usage == 'tid' and specs:
        return True
    for sp in specs:
        for side in (sp.a, sp.b):
            if any(isinstance(x, Spec) for x in A.walk_expr(side)):
                return True
    return False


def has_zero_divisor(e):
    for x in A.walk_expr(e):
        if isinstance(x, Bin) and x.op in '/%' and is_const(x.b):
            v = const_eval(x.b)
            if v is not None and int(v) == 0:
                return True
            if v is None:
                return True
    return False


def nowrap_suspect(e, lo, hi):
    """the constant form contains a sub-expression whose exact value leaves the signed word range, or an `is byte` / byte-typed constant outside 0..255"""
    # only an OPERATION evaluated at compile time can be an instance of the finding (the folder computes on unbounded integers): its own
    # value or one of its operands leaves the range.  A bare out-of-range literal or const variable that meets a run-time operand is not
    # folded at all - it reaches the assembler as an immediate and wraps there, like every other immediate.
    def out(x):
        if getattr(x, 't', None) not in (INT, BYTE) or not is_const(x):
            return False
        v = const_eval(x)
        if v is None:
            return False
        return not (lo <= int(v) <= hi) or (x.t == BYTE and not (0 <= int(v) <= 255))
    for x in A.walk_expr(e):
        if isinstance(x, (Bin, Un, Cast, Spec)) and is_const(x):
            kids = [getattr(x, a) for a in ('a', 'b', 'e') if a in x.__slots__]
            if out(x) or any(out(k) for k in kids):
                return 'fold-nowrap'
    return None


def _ov(t, tag):
    q = Var('q', t)
    return Func('ov', [('q', t, False)], EMPTY, [ExprStmt(Call('write', [Lit(BYTE, ord(tag), keep=True)])), ExprStmt(Call('write', [Cast(q, INT) if t != INT else q]))], tag='ov')


# one function name, one overload per scalar type: which one a constant selects must not depend on folding
OV = {INT: _ov(INT, 'i'), BYTE: _ov(BYTE, 'b'), BOOL: _ov(BOOL, 'f')}


def count_ops(e):
    return sum(1 for x in A.walk_expr(e) if isinstance(x, (Bin, Un, Cast, Spec)))


def build(stmts_exprs, consts, tick):
    """one program: const declarations + for each (expr, usage) a statement printing it"""
    body = []
    for n, (t, _, init) in consts.items():
        body.append(Decl(n, t, init, const=True))
    W = lambda *a: ExprStmt(Call('write', list(a)))     # noqa: E731
    sep = W(Lit(BYTE, ord(';'), keep=True))
    body.insert(0, Decl('rv', INT, Lit(INT, 5, keep=True)))
    funcs = []
    if any(isinstance(x, Var) and x.name == 'ra' for e, _ in stmts_exprs for x in A.walk_expr(e)):
        body.insert(1, Decl('ra', Arr(INT, False), ArrLit([Bin('+', Var('rv', INT), Lit(INT, 10 * j, keep=True)) for j in (1, 2, 3)], INT, False)))
    for e, _ in stmts_exprs:
        for x in A.walk_expr(e):
            if isinstance(x, Call) and isinstance(x.func, Func) and x.func.name != 'tick' and x.func not in funcs:
                funcs.append(x.func)
    k = 0
    for e, usage in stmts_exprs:
        k += 1
        if isinstance(usage, tuple) and usage[0] == 'vla':
            # a dynamic array whose length is a compile-time constant: same guards, same outcome as with a run-time length
            nm = f'va{k}'
            t = Arr(usage[1], False)
            body += [VLA(nm, usage[1], e), W(Len(Var(nm, t))), sep]
            continue
        if usage == 'loop':
            # a loop whose condition folds to false must simply be skipped (and what follows it must still run)
            body += [While(e, [W(Lit(BYTE, ord('L'), keep=True))]), W(Lit(BYTE, ord('a'), keep=True)), sep]
            continue
        if usage == 'raw':
            body += [W(e), sep]                      # write(byte) emits the raw byte, write(bool) the word: the static type shows
            continue
        if usage == 'overload':
            body += [ExprStmt(Call(OV[e.t], [e])), sep]
            continue
        pr = e if e.t != BYTE else Cast(e, INT)
        if usage == 'value' or e.t != BOOL:
            if usage == 'decl':
                nm = f'd{k}'
                body += [Decl(nm, e.t, e), W(Var(nm, e.t) if e.t != BYTE else Cast(Var(nm, BYTE), INT))]
            else:
                body.append(W(pr))
        elif usage == 'branch':
            body.append(If(e, [W(Lit(BYTE, ord('T'), keep=True))], [W(Lit(BYTE, ord('F'), keep=True))]))
        elif usage == 'decl':
            nm = f'd{k}'
            body += [Decl(nm, BOOL, e), W(Var(nm, BOOL))]
        else:
            body.append(Try([ExprStmt(Call('!truth_is_defeat', [e])), W(Lit(BYTE, ord('F'), keep=True))], 'stop', [W(Lit(BYTE, ord('T'), keep=True))]))
        body.append(sep)
    if any(u == 'overload' for _, u in stmts_exprs):
        funcs = funcs + list(OV.values())       # the whole overload family, in a fixed order
    return Program([Decl('tn', INT, Lit(INT, 0, keep=True))], [Func('@is_you', [], EMPTY, body), tick] + funcs)


def check_items(res, items, consts, word, lo, hi, with_model=False):
    CompilerError, _ = env.compiler_error_types()
    if True:
        prog = build(items, consts, CGen(random.Random(0), 8 * word, True).tick)
        src_c = A.render(prog)
        src_v = A.render(prog, opaque=True)
        res['evaluations'] += 1
        all_exprs = [e for e, _ in items] + [c[2] for c in consts.values()]
        zero = any(has_zero_divisor(e) for e in all_exprs)
        suspect = next((m for m in (nowrap_suspect(e, lo, hi) for e in all_exprs) if m), None)
        case = diff.case_dict(src_c, [], word, diff.GENEROUS_STACK, twin=src_v)
        rc = diff.compile_and_run(src_c, (), word=word, max_steps=MAX_STEPS, monitors=False)
        rv = diff.compile_and_run(src_v, (), word=word, max_steps=MAX_STEPS, monitors=False)
        if rv.kind != 'ok':
            runner.fail(res, 'M-EXC' if rv.kind == 'internal' else 'M-FOLD', f'the run-time twin does not compile: {rv.kind}: {rv.detail}', case)
            return
        ov = rv.outcome
        if rc.kind == 'reject':
            if zero:
                runner.count(res, 'rejected_constant_zero_divisor')
            else:
                runner.fail(res, 'M-FOLD', f'constant form rejected ({rc.detail}) although no constant sub-expression divides by zero; the twin runs: {ov.klass}',
                            case, observed=ov.brief())
            return
        if rc.kind != 'ok':
            runner.fail(res, 'M-EXC' if rc.kind == 'internal' else 'M-ASM', f'constant form: {rc.kind}: {rc.detail}', case)
            return
        oc = rc.outcome
        if zero:
            # accepted although a constant divisor is zero: legitimate only if it is never... the twin must fault there
            runner.count(res, 'accepted_with_constant_zero_divisor')
        if oc.stream == ov.stream and oc.klass == ov.klass:
            if with_model:
                # a fold that does not depend on the operands being constant hits both forms alike: ask the reference interpreter too
                ref, why = diff.model_run(prog, [], word)
                if ref is not None and diff.compare_streams(ref, oc) is not None:
                    runner.fail(res, 'M-FOLD', f'constant form and run-time twin agree ({oc.out[:60]!r}) but the source semantics give {ref.out[:60]!r}: {diff.compare_streams(ref, oc)}',
                                case, expected=ref.brief(), observed=oc.brief())
                    return
            runner.count(res, 'pairs_identical')
            if sum(count_ops(e) for e, _ in items) >= 2:
                res['nontrivial'].append(runner.case_id(src_c, word))
                if len(res['samples']) < 2:
                    res['samples'].append({'constant_form': src_c[:700], 'twin': src_v[:500], 'word': word, 'output': oc.out[:80].decode('latin-1')})
            return
        # disagreement: who is wrong?
        ref, why = diff.model_run(prog, [], word)
        mech = None
        if ref is not None and diff.compare_streams(ref, ov) is None and suspect and oc.klass not in ('TRAP', 'HALT'):
            mech = suspect          # (a trap or a committed halt is never explained by arithmetic on the wrong integers)
        who = 'the twin agrees with wrapped arithmetic' if (ref is not None and diff.compare_streams(ref, ov) is None) else \
              'the constant form agrees with the model' if (ref is not None and diff.compare_streams(ref, oc) is None) else 'neither side agrees with the model'
        runner.fail(res, 'M-FOLD', f'constant form prints {oc.out[:60]!r} ({oc.klass}) but its run-time twin prints {ov.out[:60]!r} ({ov.klass}); {who}',
                    case, expected=ov.brief(), observed=oc.brief(), mechanism=mech)


def check_twins(res, prog, args, word, tag, with_model=False):
    """a whole GenAST program in its written form and with every literal routed through the mutable global: same timeline"""
    src_c, src_v = A.render(prog), A.render(prog, opaque=True)
    res['evaluations'] += 1
    case = diff.case_dict(src_c, args, word, diff.GENEROUS_STACK, twin=src_v, gen=tag)
    rc = diff.compile_and_run(src_c, args, word=word, max_steps=MAX_STEPS, monitors=False)
    rv = diff.compile_and_run(src_v, args, word=word, max_steps=MAX_STEPS, monitors=False)
    if rc.kind != 'ok' or rv.kind != 'ok':
        runner.fail(res, 'M-FOLD', f'{tag}: written form: {rc.kind} {rc.detail or ""}; run-time twin: {rv.kind} {rv.detail or ""}', case)
        return
    oc, ov = rc.outcome, rv.outcome
    if oc.stream != ov.stream or oc.klass != ov.klass:
        runner.fail(res, 'M-FOLD', f'{tag}: written form prints {oc.out[:60]!r} ({oc.klass}) but its run-time twin prints {ov.out[:60]!r} ({ov.klass})',
                    case, expected=ov.brief(), observed=oc.brief())
        return
    if with_model:
        ref, why = diff.model_run(prog, args, word)
        if ref is not None and diff.compare_streams(ref, oc) is not None:
            runner.fail(res, 'M-FOLD', f'{tag}: written form and run-time twin agree but the source semantics differ: {diff.compare_streams(ref, oc)}', case, expected=ref.brief(), observed=oc.brief())
            return
    runner.count(res, 'program_twins_identical')
    res['nontrivial'].append(runner.case_id(src_c, tuple(args), word))


def run_shard(spec):
    res = runner.new_result()
    word = spec['word']
    bits = 8 * word
    lo, hi = -(1 << (bits - 1)), (1 << (bits - 1)) - 1
    r = random.Random(spec['seed'])
    if spec['kind'] == 'witness':
        # deterministic witnesses of the recorded finding fold-nowrap (one per shape)
        for e in (Bin('>', Bin('+', Lit(INT, hi), Lit(INT, 1)), Lit(INT, 0)),
                  Bin('*', Lit(INT, hi), Lit(INT, 2)),
                  Bin('==', Bin('-', Lit(INT, lo), Lit(INT, 1)), Lit(INT, hi))):
            check_items(res, [(e, 'value')], {}, word, lo, hi)
        return res
    if spec['kind'] == 'forms':
        for tag, items, consts in forms(word, bits, hi):
            check_items(res, items, consts, word, lo, hi, with_model=True)
        # constant byte arithmetic that leaves the byte range against the same arithmetic on byte variables (an int literal is
        # coercible to byte, and so is arithmetic over operands that all are: neither form faults, both keep the low byte)
        for tag, c_src, v_src in BYTE_PAIRS:
            res['evaluations'] += 1
            mk = lambda b: 'empty @is_you() {\n    byte p = 200; byte q = 100; byte s = 16; byte z = 0;\n    ' + b + '\n}\n'      # noqa: E731
            case = diff.case_dict(mk(c_src), [], word, diff.GENEROUS_STACK, twin=mk(v_src), gen=tag)
            rc = diff.compile_and_run(mk(c_src), (), word=word, max_steps=MAX_STEPS, monitors=False)
            rv = diff.compile_and_run(mk(v_src), (), word=word, max_steps=MAX_STEPS, monitors=False)
            if rv.kind != 'ok':
                runner.fail(res, 'M-FOLD', f'{tag}: the variable form does not compile: {rv.detail}', case)
            elif rc.kind != 'ok':
                runner.fail(res, 'M-FOLD', f'{tag}: constant form {rc.kind} ({rc.detail}) although the same arithmetic on byte variables runs: {rv.outcome.out!r}', case)
            elif rc.outcome.stream != rv.outcome.stream:
                runner.fail(res, 'M-FOLD', f'{tag}: constant form prints {rc.outcome.out!r}, variable form {rv.outcome.out!r}', case,
                            expected=rv.outcome.brief(), observed=rc.outcome.brief())
            else:
                runner.count(res, 'byte_pairs_identical')
                res['nontrivial'].append(runner.case_id(tag, word))
        # const variables are substituted at compile time: a local constant must not replace a global one of the same name outside its scope
        from ..gen import idioms as _idioms
        for k, (tag, prog) in enumerate(_idioms.const_shadow_programs()):
            if k % 3 == word % 3 or spec.get('tier') == 'thorough':
                check_twins(res, prog, _idioms.CONST_SHADOW_ARGS[0], word, tag, with_model=True)
        # whole programs whose literals decide where data lives and which code is emitted (array literals made of constants
        # bound to mutable arrays, constant indices, literal operands next to calls): written form vs run-time twin
        from ..gen import idioms
        for gen, argsets, stride in ((idioms.fresh_literal_programs, idioms.FRESH_ARGS, 1), (idioms.capture_programs, idioms.CAPTURE_ARGS[:1], 9),
                                     (idioms.operand_programs, idioms.OPERAND_ARGS[:1], 4), (idioms.narrowing_programs, idioms.NARROW_ARGS[:2], 3),
                                     (lambda: idioms.table_programs(keep=False), idioms.TABLE_ARGS, 1), (idioms.bitvector_programs, idioms.BITVECTOR_ARGS[:2], 1)):
            for k, (tag, prog) in enumerate(gen()):
                if k % stride == 0:
                    for args in argsets:
                        check_twins(res, prog, args, word, tag)
        res['exhaustive'] = True
        return res
    for i in range(spec['count']):
        safe = r.random() < 0.75
        g = CGen(r, bits, safe)
        for j in range(r.randint(0, 3)):
            t = r.choice([INT, INT, BYTE, BOOL])
            init = g.expr(t, 2)
            v = const_eval(init)
            if v is None or spec_problem(init, 'decl'):
                continue
            if t == BOOL:
                v = bool(v) if not isinstance(v, (bytes, bytearray)) else len(v) != 0
            g.consts[f'k{j}'] = (t, v, init)
        items = []
        g.runtime = r.random() < 0.4
        for _ in range(r.randint(3, 8)):
            t = r.choice([INT, INT, BYTE, BOOL, BOOL])
            usage = r.choice(['value', 'branch', 'decl', 'tid', 'overload'] + (['raw', 'raw'] if t != INT else []))
            if t == BOOL and r.random() < 0.15:
                was = g.runtime
                g.runtime = False
                e = g.expr(BOOL, r.randint(1, 4))
                g.runtime = was
                if is_const(e) and const_eval(e) is False and not spec_problem(e, 'tid') and g.exact(e) and \
                        (g.safe or not any(isinstance(x, Var) for x in A.walk_expr(e))):      # (inexact, also through a const variable whose initialiser is: the twin may loop for ever - fold-nowrap - and no model run could triage that)
                    items.append((e, 'loop'))
                    continue
            e = g.expr(t, r.randint(1, 5))
            for _ in range(10):
                if not spec_problem(e, usage):
                    break
                e = g.expr(t, r.randint(1, 4))
            else:
                e = g.lit(t)
            items.append((e, usage))
        check_items(res, items, g.consts, word, lo, hi)
    return res
