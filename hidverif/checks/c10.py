"""C10 - the compiler is total: every input yields assembly or a located diagnostic.

Monitor M-EXC: any exception escaping lex/parse/evaluate/CodeGen/gen_lines that
is not a CompilerError (AssertionError, InternalCompilerError, RecursionError
below the nesting bound, ...), a diagnostic whose position lies outside the
source or cannot be rendered; M-ASM on every successful compile; CLI contract:
exit 0 <=> complete output file that assembles, non-zero => no output file and
no traceback."""
import glob
import os
import random
import signal
import subprocess
import sys

from .. import diff, env, runner
from ..gen.progs import ProgGen
from ..gen.timegen import TimeGen
from ..gen import typing as T
from ..model import ast as A
from ..model import reftok as R
from ..svm.asm import assemble, AsmError

PROPERTY = 'C10'
RULE = ('(a) random Unicode text and raw bytes (invalid UTF-8, NUL, CR, BOM) through the command line; (b) token soups from the token table inside '
        'and outside a function wrapper; (c) character/token mutations (delete, duplicate, swap, replace) and every-prefix truncations of '
        'examples/*.hid and of generated programs; (d) generated well-typed programs and the C07 ill-typing mutants through code generation; '
        '(e) option matrix -m {0,7,8,16,24,32,64,-8} x -s {-5,0,1,3,500,16378,16379,1000000} x --unchecked/--lint/--dump-ast, -o into a '
        'directory / missing directory; nesting depth <= 40; non-trivial = distinct (outcome class, innermost hidc function or diagnostic text '
        'prefix) pairs are counted separately; every input is a distinct case')
ASSUMPTIONS = ['inputs nested deeper than 40 levels are outside the property\'s stated bound (Python recursion limit in the coroutine parser)',
               'per-input wall-clock watchdog of 10 s only ever yields "inconclusive"']
REQUIRED_HIDC_FUNCTIONS = ['errors:CompilerError.get_info', 'parser/rules:expect']     # M-COV: deciding code never entered => inconclusive
MIN_NONTRIVIAL = {'quick': 3000, 'thorough': 20000}


class Slow(Exception):
    pass


def _alarm(signum, frame):
    raise Slow()


def plan(tier, seed):
    n, per = (10, 260) if tier == 'quick' else (40, 900)
    specs = [{'kind': 'api', 'seed': seed * 1000 + j, 'count': per} for j in range(n)]
    specs += [{'kind': 'truncations', 'part': i, 'parts': 4, 'seed': seed} for i in range(4)]
    specs += [{'kind': 'corpus', 'part': i, 'parts': 4} for i in range(4)]
    specs += [{'kind': 'sequence'}]
    specs += [{'kind': 'cli', 'seed': seed * 1000 + 700 + j, 'count': 14 if tier == 'quick' else 50} for j in range(4)]
    specs += [{'kind': 'options', 'part': i, 'parts': 6} for i in range(6)]
    specs += [{'kind': 'encoding', 'part': i, 'parts': 2} for i in range(2)]
    return specs


def api_case(res, src, what, outcomes, assemble_it=True):
    """compile through the public API; classify the outcome"""
    from hidc.lexer import SourceCode
    from hidc.parser import parse
    from hidc.ast import Environment
    from hidc.codegen import CodeGen
    CompilerError, _ = env.compiler_error_types()
    res['evaluations'] += 1
    res['nontrivial'].append(runner.case_id(src))
    source = SourceCode.from_string(src)
    signal.setitimer(signal.ITIMER_REAL, 10)
    try:
        try:
            envr = Environment.empty()
            parse(source).evaluate(envr)
            lines = list(CodeGen(envr, 2, 500, False).gen_lines())
        finally:
            signal.setitimer(signal.ITIMER_REAL, 0)
    except CompilerError as e:
        key = f'{type(e).__name__}: {str(e)[:28]}'
        outcomes[key] = outcomes.get(key, 0) + 1
        # the diagnostic must be renderable and point inside the source
        try:
            info = e.get_info(source)
            nl = len(source.lines)
            for span in e.context:
                for c in (span.start, span.end):
                    if not (0 <= c.line < max(nl, 1) and 0 <= c.col <= len(source.lines[c.line]) if nl else c.line == 0):
                        runner.fail(res, 'M-EXC', f'{what}: diagnostic position {c} lies outside the source ({nl} lines): {e}', {'source': src, 'what': what})
                        return
            if not isinstance(info, str) or not info:
                raise ValueError('empty diagnostic')
        except Exception as e2:  # noqa
            runner.fail(res, 'M-EXC', f'{what}: the diagnostic {type(e).__name__}({e}) cannot be rendered: {type(e2).__name__}: {e2}', {'source': src, 'what': what})
        return 'rejected: ' + str(e)[:80]
    except Slow:
        res['inconclusive'].append(f'{what}: compile exceeded the 10 s watchdog') if len(res['inconclusive']) < 3 else None
        runner.count(res, 'watchdog')
        return
    except RecursionError:
        depth = max_nesting(src)
        if depth > 40:
            runner.count(res, 'recursion_beyond_bound')
            return
        runner.fail(res, 'M-EXC', f'{what}: RecursionError at nesting depth {depth}', {'source': src, 'what': what})
        return
    except Exception as e:  # noqa  M-EXC
        where = diff.innermost_hidc_frame(e)
        key = f'INTERNAL {type(e).__name__} @ {where}'
        outcomes[key] = outcomes.get(key, 0) + 1
        mech = 'int-str-digit-limit' if isinstance(e, ValueError) and 'Exceeds the limit' in str(e) and 'integer string conversion' in str(e) else None
        runner.fail(res, 'M-EXC', f'{what}: {type(e).__name__}: {str(e)[:100]} escapes from {where}', {'source': src[:3000], 'what': what},
                    mechanism=mech)
        return
    outcomes['compiled'] = outcomes.get('compiled', 0) + 1
    if assemble_it:
        try:
            assemble(lines, [])
        except AsmError as e:
            if 'wrong number of arguments' in str(e) or 'takes no arguments' in str(e):
                return
            runner.fail(res, 'M-ASM', f'{what}: successful compile but the assembler rejects the output: {e}', {'source': src, 'what': what})
    return 'compiled'


def max_nesting(src):
    d = m = 0
    for ch in src:
        if ch in '([{':
            d += 1
            m = max(m, d)
        elif ch in ')]}':
            d -= 1
    return max(m, src.count('not ') + src.count('- -') // 2)


# ------------------------------------------------------------- generators
def random_text(r):
    n = r.choice([0, 1, 3, 10, 40, 120])
    alphabet = [chr(r.randrange(0x20, 0x7f)) for _ in range(20)] + list('{}()[];=+-*/%<>!?@"\'\\,. \n\t\r') + ['é', '€', '\U0001F30E', '\x00', '﻿', '\x0b', '\x85', ' ']
    return ''.join(r.choice(alphabet) for _ in range(n))


HOSTILE_FRAGMENTS = ['0xFF__FF', '0x__1', '0x_1', '0xF_', '0b1__0', '0o7__7', '0b_1', '0o_7', '1__0', '0_', '007', '0_10', '08', 'x is 5', 'x is empty', 'x is foo', 'x is',
                     'x is int[', 'x is []', 'x is is', '1 is int is', '"\\u{FFFFFFFFFFFF}"', '"\\u{110000}"', '"\\u{d800}"', "'\\u{e9}'", '"\\x4"', '"\\q"', "''", "'ab'", '"abc', "'a", '0x', '0b2', '1_', '1__0',
                     '@if', '!', '@', '!!x', '??', '? ?', '$', '#', '`', '\\', '"\\', '//', '/* */', '\x00', '\ufeff', '[', ']', '{', '}', '(', ')',
                     'is is', 'is empty', 'empty x', 'const', 'const const int x = 1;', 'int[] [] a', 'a[', 'f(', '[1,', '.length', '. length', 'x.y',
                     's[0] = 1', '[f()]', '[[1]]', '[]', '[].length', '[][0]', '"s"[0]', '"s".length', '(1).length', '1[0]', 'write(write(1))',
                     'return return', 'break', 'preempt {}', 'try {} undo {}', 'try {}', 'undo {}', 'stop {}', 'else {}', 'if () {}', 'while () {}',
                     'for (;;) {}', 'for (;;;) {}', 'for (int i = 0) {}', '@is_you()', '!is_defeat()', '!truth_is_defeat()', 'all_is_win', 'int x[ -1 ];',
                     'int x[1][2];', 'int[] x[3];', 'const int x[3];', 'x = = 1', 'x +=+ 1', 'x ++', '1 +', '+ + + 1', 'not', 'not not', 'a ?? b ?? c',
                     'int @x = 1;', 'int !x = 1;', 'empty @f() {} empty @f() {}', 'empty @is_you(bool b) {}', 'empty @is_you(int[] a, int[] b) {}',
                     'empty @is_you(string[] s) {}', 'int @is_you() { return 1; }']


def token_soup(r, wrapped):
    toks = []
    if r.random() < 0.5:
        toks = [r.choice(HOSTILE_FRAGMENTS) for _ in range(r.randint(1, 3))]
    for _ in range(r.randint(0 if toks else 1, 25 if not toks else 6)):
        c = r.random()
        if c < 0.4:
            toks.append(r.choice(R.SYMBOLS))
        elif c < 0.7:
            toks.append(r.choice(sorted(R.KEYWORDS)))
        elif c < 0.85:
            toks.append(r.choice(['x', 'y', 'f', '@g', '!h', '@is_you', '!is_defeat', 'write', 'length', 'arr']))
        else:
            toks.append(r.choice(['0', '1', '255', '0x10', '"s"', "'c'", '""', '1_0']))
    s = ' '.join(toks)
    if wrapped == 1:
        return 'empty @is_you() { ' + s + ' }'
    if wrapped == 2:
        return 'int x = 1; int[] arr = [1, 2]; int f(int y) { return y; } empty @is_you() { ' + s + ' ; }'
    return s


def mutate(r, src):
    if not src:
        return src
    k = r.random()
    i = r.randrange(len(src))
    j = min(len(src), i + r.choice([1, 1, 2, 5, 20]))
    if k < 0.3:
        return src[:i] + src[j:]
    if k < 0.5:
        return src[:i] + src[i:j] * 2 + src[j:]
    if k < 0.7:
        return src[:i] + r.choice(list('{}()[];=+-*/%<>!?@"\'\\,.') + [' ', '\n', 'try', 'stop', 'undo', 'preempt', 'const', 'empty', 'is', '??', '0', 'x'] + HOSTILE_FRAGMENTS) + src[j:]
    if k < 0.85:
        a, b = sorted((i, r.randrange(len(src))))
        return src[:a] + src[b:b + 5] + src[a + 5:b] + src[a:a + 5] + src[b + 5:]
    toks = src.split(' ')
    if len(toks) > 2:
        a = r.randrange(len(toks))
        b = r.randrange(len(toks))
        toks[a], toks[b] = toks[b], toks[a]
    return ' '.join(toks)


def deep(r):
    d = r.randint(5, 38)
    k = r.random()
    if k < 0.3:
        return 'empty @is_you() { int x = ' + '(' * d + '1' + ')' * d + '; }'
    if k < 0.5:
        return 'empty @is_you() { ' + '{ ' * d + 'write(1);' + ' }' * d + ' }'
    if k < 0.7:
        return 'empty @is_you() { int x = ' + '- ' * d + '1; bool b = ' + 'not ' * d + 'true; }'
    if k < 0.85:
        return 'empty @is_you() { ' + 'if (true) { ' * d + 'write(1);' + ' }' * d + ' }'
    return 'empty @is_you() { int[] a = [1]; int x = ' + 'a[' * d + '0' + ']' * d + '; }'


def corpus(r, seed, n):
    out = []
    for path in sorted(glob.glob(os.path.join(env.REPO, 'examples', '*.hid'))):
        with open(path, encoding='utf-8') as f:
            out.append(f.read())
    for i in range(n):
        g = TimeGen(seed * 31 + i) if i % 2 else ProgGen(seed * 31 + i, 'sequential')
        prog, _ = g.program()
        out.append(A.render(prog))
    return out


def run_cli(res, data, opts, what, expect_ok=None, out_mode='file'):
    """run `python -m hidc` in a scratch directory; check the exit/output-file contract"""
    scratch = os.environ.get('HIDVERIF_SCRATCH') or os.path.join(env.VERIF, '.scratch')
    d = os.path.join(scratch, f'cli-{os.getpid()}-{res["evaluations"]}')
    os.makedirs(d, exist_ok=True)
    inp = os.path.join(d, 'in.hid')
    with open(inp, 'wb') as f:
        f.write(data)
    out = os.path.join(d, 'out.s')
    if out_mode == 'dir':
        out = d
    elif out_mode == 'missing':
        out = os.path.join(d, 'no', 'such', 'dir', 'out.s')
    e = dict(os.environ)
    e['PYTHONPATH'] = env.REPO
    res['evaluations'] += 1
    res['nontrivial'].append(runner.case_id(data, opts, out_mode))
    case = {'input_bytes': data[:2000].decode('latin-1'), 'options': opts, 'output': out_mode, 'what': what}
    try:
        p = subprocess.run([sys.executable, '-m', 'hidc', inp, '-o', out] + opts, cwd=d, env=e, capture_output=True, timeout=60)
    except subprocess.TimeoutExpired:
        res['inconclusive'].append(f'{what}: CLI run exceeded 60 s')
        return
    finally:
        pass
    err = p.stderr.decode('utf-8', 'replace')
    runner.count(res, f'cli_exit_{p.returncode}')
    try:
        if 'Traceback (most recent call last)' in err:
            last = err.strip().splitlines()[-1][:160]
            runner.fail(res, 'M-EXC', f'{what}: the command-line tool dies with a traceback: {last}', case)
            return
        exists = out_mode == 'file' and os.path.exists(out)
        if p.returncode == 0:
            if '--dump-ast' in opts:
                if exists:
                    runner.fail(res, 'M-CLI', f'{what}: --dump-ast wrote an output file', case)
                return
            if out_mode != 'file':
                runner.fail(res, 'M-CLI', f'{what}: exit 0 although the output path is not writable', case)
                return
            if not exists:
                runner.fail(res, 'M-CLI', f'{what}: exit 0 but no output file', case)
                return
            with open(out, 'rb') as f:
                text = f.read()
            if not text.endswith(b'\n') or b'%section code' not in text:
                runner.fail(res, 'M-CLI', f'{what}: exit 0 but the output file is incomplete ({len(text)} bytes)', case)
                return
            try:
                assemble(text.split(b'\n')[:-1], [])
            except AsmError as ex:
                if 'arguments' not in str(ex):
                    runner.fail(res, 'M-ASM', f'{what}: exit 0 but the assembler rejects the output: {ex}', case)
                    return
            if expect_ok is False:
                runner.fail(res, 'M-CLI', f'{what}: expected a failure, got exit 0', case)
        else:
            if exists:
                runner.fail(res, 'M-CLI', f'{what}: exit {p.returncode} but an output file was left behind', case)
                return
            if not err.strip():
                runner.fail(res, 'M-CLI', f'{what}: exit {p.returncode} without any diagnostic', case)
                return
            if expect_ok is True:
                runner.fail(res, 'M-CLI', f'{what}: expected success, got exit {p.returncode}: {err.strip()[:160]}', case)
    finally:
        import shutil
        shutil.rmtree(d, ignore_errors=True)


# unusual but legal (or cleanly illegal) programs: empty literals in every role, calls of names that resemble builtins,
# flavoured spellings of undefined functions, degenerate declarations
UNUSUAL = [
    'empty fill(int[] a) { for (int i = 0; i < a.length; i += 1) { a[i] = i; } }\nint sum(const int[] a) { return a.length; }\n'
    'empty @is_you() { int[] nothing = []; fill(nothing); writeln(sum(nothing)); fill([]); writeln(sum([])); writeln(nothing.length); }\n',
    'empty @is_you(int n) { bool[] e = []; byte[] b = []; string[] s = []; if (n > 100) { e[0] = true; b[0] += 1; s[0] = "x"; } write(e.length + b.length + s.length); }\n',
    'empty @is_you() { const int[] c = []; write(c.length); if (c) { write(1); } if ([]) { write(2); } write([].length); write(([] is int[]).length); }\n',
    'empty takem(byte[] m) { write(m); }\nempty takec(const byte[] m) { write(m); }\nempty @is_you() { takem([]); takec([]); takec(""); write([] is byte[]); }\n',
    'int[] g = [];\nempty @is_you() { write(g.length); for (int i = 0; i < g.length; i += 1) { g[i] = 1; } }\n',
] + ['empty @is_you() { try { %s } undo { } }\n' % call for call in
     ('print("x");', 'println("x");', '!print("x");', '!println(5);', '!writ(1);', '!write(1);', '!writeln();', '!is_defea();', '!truth_is_defeat();', '!all_is_win();')] + \
    ['empty @is_you() { %s }\n' % call for call in
     ('@print("x");', '@println(5);', '@write(1);', '@is_you();', '@all_is_win();', 'print(1, 2);', 'println();', 'is_you();', 'all_is_win(1);', 'all_is_broken("why");',
      'sleep();', 'debug(1);', 'progress("x");', 'write();', 'writeln(1, 2);')]

UNUSUAL += ['empty ping() { write(1); }\nempty pong() { write(2); }\nint one() { return 1; }\nempty @is_you() { %s }\n' % st for st in
            ('ping() ?? pong();', 'int x = ping() ?? pong();', 'ping() ?? 1;', '1 ?? ping();', 'write(one() ?? 1);', 'write(("a" ?? "a").length);', 'write(([1] ?? [1]).length);',
             'write(one() ?? true);', "write(one() ?? 'c');", 'bool b = true ?? false; write(b);', "byte c = 'a' ?? 'b'; write(c);", 'ping() ?? ping() ?? ping();',
             'if (ping() ?? pong()) { write(1); }', 'while (ping() ?? pong()) { }', 'write(not (ping() ?? pong()));', 'int[] q = [ping() ?? pong()];', 'return ping() ?? pong();')]

GOOD = b'empty @is_you() { writeln("ok"); int[] a = [1, 2]; write(a[1]); }\n'


def run_shard(spec):
    res = runner.new_result()
    env.load()
    signal.signal(signal.SIGALRM, _alarm)
    outcomes = {}
    k = spec['kind']
    r = random.Random(spec.get('seed', 0))
    if k == 'api':
        base = corpus(r, spec['seed'], 6)
        muts = [src for _, src in T.mutation_cases()]
        for i in range(spec['count']):
            c = i % 10
            if c == 0:
                api_case(res, random_text(r), 'random text', outcomes)
            elif c in (1, 2):
                api_case(res, token_soup(r, r.randrange(3)), 'token soup', outcomes)
            elif c in (3, 4, 5, 6):
                src = r.choice(base)
                for _ in range(r.randint(1, 3)):
                    src = mutate(r, src)
                api_case(res, src, 'mutated program', outcomes)
            elif c == 7:
                api_case(res, deep(r), 'deep nesting', outcomes)
            elif c == 8:
                api_case(res, mutate(r, r.choice(muts)), 'mutated ill-typed program', outcomes)
            else:
                api_case(res, r.choice(base), 'generated program', outcomes)
        for src in muts:
            api_case(res, src, 'C07 mutant', outcomes)
        if spec['seed'] % 1000 == 0:
            # deterministic witnesses of the recorded finding int-str-digit-limit, and their in-range neighbours
            api_case(res, 'empty @is_you() { write(' + '9' * 5000 + '); }', 'decimal literal with 5000 digits', outcomes)
            api_case(res, 'empty @is_you() { write(0x' + 'F' * 4000 + '); }', 'hex literal with 4000 digits', outcomes)
            api_case(res, 'empty @is_you() { write(' + '9' * 4000 + '); }', 'decimal literal with 4000 digits', outcomes)
            api_case(res, 'empty @is_you() { write(0x' + 'F' * 3000 + ' % 7); }', 'hex literal with 3000 digits', outcomes)
    elif k == 'corpus':
        # the template families of the other checks (operator grid in every position, placements, scope exits, memory and
        # fault templates, typing tables): each must compile to something the assembler accepts, or be rejected cleanly
        from . import c09, c17
        from ..gen import placement, scopes, memprogs, faultgrid
        srcs = []
        for pos in c09.POSITIONS:
            for ta, tb in c09.COMBOS[:2]:
                srcs.append(c09.binary_program(c09.CMP, ta, tb, pos))
        srcs += [c09.binary_program(c09.ARITH, 'byte', 'int', 'value', 'global'), c09.unary_program(), c09.unary_program('global'), c17.CALLER_PROG, c17.INT_PROG]
        srcs += [src for i, (t, src) in enumerate(placement.programs()) if i % 11 == 0]
        srcs += [src for t, src in placement.illegal_programs()]
        srcs += [src for i, (t, src, ab) in enumerate(scopes.programs()) if i % 17 == 0]
        srcs += [src for t, src, a in memprogs.cases(0, 0)]
        for gen in (faultgrid.index_programs(), faultgrid.division_programs(), faultgrid.order_programs(), faultgrid.vla_programs(), faultgrid.nonlocal_programs()):
            srcs += [A.render(item[1]) for item in gen]
        srcs += [src for i, (t, src, e) in enumerate(T.operator_cases()) if src and i % 9 == 0]
        srcs += [src for t, src, ok in T.return_cases()]
        srcs += [c09.array_truth_program()[0], c09.STRING_PROG, c09.literal_program(0), c09.literal_program(-1), c09.unary_program('const')]
        from ..gen import idioms, exits
        for gen, stride in ((idioms.shadow_programs, 9), (idioms.operand_programs, 7), (idioms.capture_programs, 23), (idioms.capture_scalar_programs, 3),
                            (idioms.narrowing_programs, 5), (idioms.fresh_literal_programs, 1), (idioms.spec_programs, 5), (idioms.history_programs, 13),
                            (idioms.table_programs, 4), (exits.loop_exit_programs, 11)):
            srcs += [A.render(item[1]) for i, item in enumerate(gen()) if i % stride == 0]
        srcs += UNUSUAL
        seen = set()
        for i, src in enumerate(srcs):
            if i % spec['parts'] != spec['part'] or src in seen:
                continue
            seen.add(src)
            api_case(res, src, 'template corpus', outcomes)
    elif k == 'sequence':
        # one process, many compilations: what an earlier compilation declared (user overloads of library names, globals, functions)
        # must not be visible to a later one - a valid program compiles every time it is compiled, before and after its neighbours,
        # and a diagnostic about a short program never points into a longer one compiled earlier
        seqs = []
        goods = [(t, src) for t, src, ok in T.builtin_cases() if ok]
        bads = [(t, src) for t, src, ok in T.builtin_cases() if not ok]
        pad = '// padding\n' * 30
        for (t, src) in goods:
            seqs += [(t + ' (padded)', pad + src, True), (t, src, True), (t + ' (again)', src, True)]
        for j, (t, src) in enumerate(bads):
            seqs.append((t, src, False))
            seqs.append(goods[j % len(goods)] + (True,))
        own = 'int helper(int a) { return a + 1; }\nint g = 4;\nempty @is_you() { write(helper(g)); }\n'
        seqs += [('own names', pad + own, True), ('own names again', own, True), ('uses names of the previous program', 'empty @is_you() { write(helper(g)); }\n', False),
                 ('own names, other signature', 'bool helper(int a, int b) { return a > b; }\nstring g = "s";\nempty @is_you() { write(helper(1, 2)); write(g); }\n', True)]
        for rnd in range(2):
            for t, src, ok in seqs:
                out = api_case(res, src, f'compilation history: {t}', outcomes)
                if out is None:
                    continue
                if ok and out != 'compiled':
                    runner.fail(res, 'M-EXC', f'compilation history: the valid program "{t}" is no longer compiled after the compilations before it: {out}', {'source': src, 'what': 'sequence of compilations in one process'})
                elif not ok and out == 'compiled':
                    runner.fail(res, 'M-EXC', f'compilation history: the ill-formed program "{t}" is accepted after the compilations before it', {'source': src, 'what': 'sequence of compilations in one process'})
                else:
                    runner.count(res, 'history_verdicts_stable')
    elif k == 'truncations':
        base = corpus(r, spec['seed'], 3)
        for n, src in enumerate(base):
            if n % spec['parts'] != spec['part']:
                continue
            step = max(1, len(src) // 400)
            for cut in range(0, len(src), step):
                api_case(res, src[:cut], f'prefix of length {cut}', outcomes, assemble_it=False)
        res['exhaustive'] = True
    elif k == 'encoding':
        # byte sequences (invalid, overlong, surrogate, truncated UTF-8; BOM; valid multi-byte) at every kind of place in a
        # source FILE: the file path (SourceCode.from_file -> parse -> evaluate -> generate) in-process and through the CLI
        from hidc.lexer import SourceCode
        from hidc.parser import parse
        from hidc.ast import Environment
        from hidc.codegen import CodeGen
        CompilerError, _ = env.compiler_error_types()
        seqs = [b'\xe9', b'\xff', b'\xc3', b'\x80', b'\xed\xa0\x80', b'\xf8\x88\x80\x80\x80', b'\xc0\xaf', b'\xf4\x90\x80\x80', b'\xe2\x82',
                '\u00e9'.encode(), '\U0001F30E'.encode(), b'\xef\xbb\xbf', b'\x00', b'\x1a', b'\x7f']
        places = {
            'string literal': lambda x: b'empty @is_you() { writeln("a' + x + b'b"); }\n',
            'char literal': lambda x: b"empty @is_you() { write('" + x + b"'); }\n",
            'comment': lambda x: b'// c ' + x + b'\nempty @is_you() { writeln("ok"); }\n',
            'trailing comment without newline': lambda x: b'empty @is_you() { writeln("ok"); } // ' + x,
            'identifier': lambda x: b'empty @is_you() { int v' + x + b' = 1; write(v' + x + b'); }\n',
            'between tokens': lambda x: b'empty @is_you() { ' + x + b' writeln("ok"); }\n',
            'start of file': lambda x: x + GOOD,
            'end of file': lambda x: GOOD + x,
            'inside a number': lambda x: b'empty @is_you() { write(1' + x + b'2); }\n',
            'after a backslash in a string': lambda x: b'empty @is_you() { writeln("a\\' + x + b'"); }\n',
        }
        scratch = os.environ.get('HIDVERIF_SCRATCH') or os.path.join(env.VERIF, '.scratch')
        os.makedirs(scratch, exist_ok=True)
        path = os.path.join(scratch, f'enc-{os.getpid()}.hid')
        n = 0
        for pn, mk in places.items():
            for x in seqs:
                n += 1
                if n % spec['parts'] != spec['part']:
                    continue
                data = mk(x)
                with open(path, 'wb') as f:
                    f.write(data)
                res['evaluations'] += 1
                res['nontrivial'].append(runner.case_id('enc', data))
                case = {'input_bytes': data.decode('latin-1'), 'what': f'{x!r} in {pn}', 'via': 'SourceCode.from_file'}
                try:
                    source = SourceCode.from_file(path)
                except (OSError, UnicodeError):
                    runner.count(res, 'file_refused_on_reading')          # the refusal the command-line tool reports cleanly
                    source = None
                except Exception as e:  # noqa
                    runner.fail(res, 'M-EXC', f'{x!r} in {pn}: from_file: {type(e).__name__}: {e}', case)
                    continue
                if source is not None:
                    try:
                        envr = Environment.empty()
                        parse(source).evaluate(envr)
                        list(CodeGen(envr, 2, 500, False).gen_lines())
                        runner.count(res, 'file_compiled')
                    except CompilerError as e:
                        try:
                            e.get_info(source)
                            runner.count(res, 'file_rejected_with_diagnostic')
                        except Exception as e2:  # noqa
                            runner.fail(res, 'M-EXC', f'{x!r} in {pn}: the diagnostic {type(e).__name__}({e}) cannot be rendered: {type(e2).__name__}: {e2}', case)
                    except Exception as e:  # noqa
                        runner.fail(res, 'M-EXC', f'{x!r} in {pn}: {type(e).__name__}: {str(e)[:100]} escapes from {diff.innermost_hidc_frame(e)}', case)
                if n % 5 == 0:
                    run_cli(res, data, [], f'{x!r} in {pn}')
        try:
            os.remove(path)
        except OSError:
            pass
        res['exhaustive'] = True
    elif k == 'cli':
        base = corpus(r, spec['seed'], 3)
        for i in range(spec['count']):
            c = i % 7
            if c == 0:
                data = bytes(r.randrange(256) for _ in range(r.choice([1, 5, 40])))
                run_cli(res, data, [], 'raw bytes')
            elif c == 1:
                data = r.choice([b'\xff\xfe', b'\xef\xbb\xbf', b'\xc3', b'ab\x80cd', b'\xed\xa0\x80', b'\xf8\x88\x80\x80\x80']) + GOOD
                run_cli(res, data, [], 'invalid UTF-8 / BOM prefix')
            elif c == 2:
                run_cli(res, GOOD.replace(b'\n', r.choice([b'\r\n', b'\r', b'\n\n', b'\x00\n'])), [], 'line endings / NUL')
            elif c == 3:
                run_cli(res, mutate(r, r.choice(base)).encode('utf-8', 'surrogatepass'), r.choice([[], ['--lint'], ['--unchecked']]), 'mutated program')
            elif c == 4:
                run_cli(res, random_text(r).encode('utf-8', 'replace'), [], 'random text')
            elif c == 5:
                run_cli(res, r.choice(base).encode(), r.choice([[], ['--unchecked'], ['-m', '24'], ['-m', '64', '-s', '2000']]), 'generated program', expect_ok=None)
            else:
                run_cli(res, token_soup(r, 1).encode(), [], 'token soup')
    else:
        n = 0
        for m in ('0', '7', '8', '16', '24', '32', '64', '-8'):
            for s in ('-5', '0', '1', '3', '500', '16378', '16379', '1000000'):
                for extra in ([], ['--unchecked'], ['--lint']):
                    n += 1
                    if n % spec['parts'] == spec['part']:
                        run_cli(res, GOOD, ['-m', m, '-s', s] + extra, f'options -m {m} -s {s} {" ".join(extra)}')
        if spec['part'] != 0:
            res['exhaustive'] = True
            return res
        run_cli(res, GOOD, ['--dump-ast'], '--dump-ast')
        run_cli(res, GOOD, [], 'output into a directory', out_mode='dir')
        run_cli(res, GOOD, [], 'output into a missing directory', out_mode='missing')
        # every kind of CodeGenError: the tool must fail cleanly and leave no output file behind
        for what, src, opts in (
                ('no entry point', b'int f() { return 1; }\n', []),
                ('two entry points', b'empty @is_you() { }\nempty @is_you(int x) { }\n', []),
                ('entry point returns a value', b'int @is_you() { return 1; }\n', []),
                ('bool entry parameter', b'empty @is_you(bool b) { }\n', []),
                ('two array entry parameters', b'empty @is_you(int[] a, int[] b) { }\n', []),
                ('mutable string[] entry parameter', b'empty @is_you(string[] s) { }\n', []),
                ('bool[] entry parameter', b'empty @is_you(bool[] b) { }\n', []),
                ('used global array too large for the word', b'int big[20000];\nempty @is_you() { big[0] = 7; write(big[0]); }\n', []),
                ('used global byte array too large', b'byte big[40000];\nempty @is_you() { big[0] = 7; write(big[0]); }\n', []),
                ('global array with a non-constant length', b'int n = 3;\nint arr[n + 1];\nempty @is_you() { write(arr.length); }\n', []),
                ('global array literal with a variable element', b'int n = 3;\nint[] arr = [n, 2];\nempty @is_you() { n = 4; write(arr[0]); }\n', []),
                ('global initialised from an array element', b'const int[] t = [1, 2];\nint g = t[0];\nempty @is_you() { write(g); }\n', []),
                ('global initialised from a length', b'const int[] t = [1, 2];\nint g = t.length;\nempty @is_you() { write(g); }\n', []),
                ('global string cast', b'string s = "ab";\nconst byte[] b = s is byte[];\nempty @is_you() { write(b); }\n', []),
                ('stack too large for the word', GOOD, ['-s', '16380']),
                ('word size 8 bits', GOOD, ['-m', '8']),
        ):
            run_cli(res, src, opts, 'code generation error: ' + what, expect_ok=None)
        run_cli(res, b'int big[20000];\nempty @is_you() { big[0] = 7; write(big[0]); }\n', ['-m', '32'], 'large global array at 32 bits', expect_ok=True)
        run_cli(res, b'', [], 'empty file')
        run_cli(res, b'\n', [], 'newline only')
        run_cli(res, b'empty @is_you() { write(1 / 0); }', [], 'constant division by zero', expect_ok=False)
        run_cli(res, GOOD, ['-m', '16', '-s', '500'], 'defaults', expect_ok=True)
        res['exhaustive'] = True
    for key, v in outcomes.items():
        runner.note(res, 'outcome_classes', key)
    runner.count(res, 'distinct_outcome_classes_in_shard', len(outcomes))
    if len(res['samples']) < 1:
        res['samples'].append({'kind': k, 'outcome_classes': sorted(outcomes)[:12]})
    return res
