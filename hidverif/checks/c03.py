"""C03 - halt is defeat: a compiled program never halts.

Oracle: M-HALT (a halt executed with an empty choice stack on the SVM) and
traps; needs no reference model, so it also runs on programs RefInt cannot
judge.  Workload: defeat-placement enumeration (every defeat-capable construct
x wrapper x try kind x exit route x following try), generated sequential and
time-travel programs at all word sizes (checked always, unchecked when the
checked run was fault-free), and examples/*.hid."""
import glob
import os
import random

from .. import diff, env, runner
from ..gen import placement
from ..gen.progs import ProgGen
from ..gen.timegen import TimeGen
from ..gen.exits import ExitGen
from ..model import ast as A
from ..svm.vm import FAULT_FLAGS
from . import common

PROPERTY = 'C03'
RULE = ('(a) enumeration of defeat placements: 24 defeat-capable constructs x 7 wrappers x try/undo|stop x 4 exit routes '
        'x 3 following tries x 2 handler shapes x 6 inputs; (b) random sequential + time-travel programs at word sizes '
        '2,3,4, checked, and unchecked when the checked run raised no fault; (c) examples/*.hid with small inputs; (d) every library routine on empty / one-element / long operands of every storage kind, plain and inside try bodies; '
        'non-trivial = at least one speculative halt was executed and averted in the run; distinct by hash of '
        '(source, args, word, unchecked)')
ASSUMPTIONS = common.ISA_ASSUMPTIONS[:3] + ['a run that exceeds the step budget without repeating a state is inconclusive, not a pass']
REQUIRED_HIDC_FUNCTIONS = ['codegen/generator:CodeGen.goto', 'codegen/generator:CodeGen.bool_expr_branch']     # M-COV: deciding code never entered => inconclusive
MIN_NONTRIVIAL = {'quick': 500, 'thorough': 5000}

EXAMPLE_ARGS = {
    'hello.hid': [[]], 'max.hid': [['3', '9', '2'], ['9', '1'], ['4']], 'factor.hid': [['15', '7']],
    'decimal.hid': [['1', '7'], ['22', '7']], 'mergesort.hid': [['3', '1', '2']], 'optional_max.hid': [['1', '5', '3'], []],
    'ouroboros.hid': [[]], 'sat.hid': [[]],
}


def plan(tier, seed):
    specs = []
    nplace = 16
    stride = 4 if tier == 'quick' else 1
    for i in range(nplace):
        specs.append({'kind': 'placement', 'part': i, 'parts': nplace, 'stride': stride, 'offset': seed % stride})
    n, per = (16, 24) if tier == 'quick' else (48, 90)
    for s in common.shard_seeds(seed, n):
        specs.append({'kind': 'gen', 'seed': s, 'count': per})
    specs.append({'kind': 'examples', 'steps': 1_500_000 if tier == 'quick' else 8_000_000})
    specs.append({'kind': 'illegal'})
    specs.append({'kind': 'library'})
    specs += [{'kind': 'histories', 'part': i, 'parts': 4, 'tier': tier} for i in range(4)]
    specs += [{'kind': 'speculation', 'part': i, 'parts': 2, 'tier': tier} for i in range(2)]
    for s in common.shard_seeds(seed, 4 if tier == 'quick' else 16):
        specs.append({'kind': 'exits', 'seed': s, 'count': 40 if tier == 'quick' else 120})
    return specs


LIBRARY_PROGRAMS = [
    ('byte arrays by storage', '''
byte[] gm = ['g', 'm'];
const byte[] ge = [];
empty show(byte[] p) { write(p); writeln(p); }
empty showc(const byte[] p) { write(p); writeln(p); }
empty @is_you(byte[] data) {
    write(data); writeln(data);
    byte e[data.length]; write(e.length); write(e); writeln(e);
    byte z[0]; write(z); writeln(z);
    byte[] alias = data; write(alias);
    show(data); show(e); show(z); show(gm); showc(ge); showc(data); showc("");
    write(ge); writeln(ge); write(gm);
    const byte[] le = []; write(le); writeln(le);
    try { write(data); write(z); !truth_is_defeat(data.length == 1); write('c'); } undo { write('u'); }
    try { writeln(z); writeln(data); !truth_is_defeat(data.length == 1); } stop { write('s'); }
    writeln("end");
}
''', [[], ['7'], ['104', '105'], ['1', '2', '3', '4', '5', '6', '7', '8', '9']]),
    ('user functions named like the terminal builtins', '''
empty all_is_win(string why) { write(why); }
empty all_is_broken(string why) { write(why); }
empty all_is_win(int code) { write(code); }
empty !never(int k) { !is_defeat(); }
empty helper(const string[] w) { write(w.length); all_is_broken("not broken"); }
empty @is_you(const string[] w) {
    try { if (w.length == 1) { !never(1); } write('t'); } undo { write("undone"); }
    helper(w);
    all_is_win(7);
    write("the end");
    all_is_win("still here");
}
''', [[], ['x'], ['x', 'y']]),
    ('strings and scalars', '''
string gs = "";
empty shows(string p) { write(p); writeln(p); write(p.length); }
empty @is_you(const string[] w) {
    write(""); writeln(""); write(gs); writeln(gs); shows(""); shows(gs);
    for (int i = 0; i < w.length; i += 1) { write(w[i]); writeln(w[i]); shows(w[i]); write(w[i] is byte[]); }
    write(0); writeln(0); write(-0); write('\\0' is int); write(false); writeln(true); write('x'); writeln('y'); writeln();
    try { write(w.length); write(""); !truth_is_defeat(w.length == 1); write('c'); } undo { write('u'); }
    try { writeln(""); writeln(w.length); !truth_is_defeat(w.length == 1); } stop { write('s'); }
    writeln("end");
}
''', [[], [''], ['', 'ab', ''], ['x' * 255, 'y' * 256]]),
]


def hash_stride(tag):
    import zlib
    return zlib.crc32(tag.encode())


def judge(res, run, case, sites):
    o = run.outcome
    common.side_observe(res, run)
    res['evaluations'] += 1
    if run.vm is not None:
        sites['halt'].update((case['source_id'], p) for p in run.vm.halt_sites)
        runner.count(res, 'halt_instructions_executed_speculatively', o.spec_halts)
    if o.klass == 'HALT':
        ln = run.vm.code[o.halt_pc][2] if o.halt_pc is not None and o.halt_pc < len(run.vm.code) else -1
        ctx = b'\n'.join(run.lines[max(0, ln - 6):ln + 1]).decode('latin-1') if run.lines else ''
        runner.fail(res, 'M-HALT', f'committed halt at pc {o.halt_pc} (asm line {ln}) after output {o.out[-40:]!r}; context:\n{ctx}',
                    case, observed=o.brief())
        return False
    if o.klass == 'TRAP':
        runner.fail(res, 'M-HALT', f'trap (undefined machine behaviour): {o.trap}', case, observed=o.brief())
        return False
    if o.klass == 'TIMEOUT':
        runner.count(res, 'vm_timeouts')
        return True
    if o.after_terminal:
        runner.fail(res, 'M-END', f'events after the terminal flag: {o.after_terminal[:3]}', case, observed=o.brief())
        return False
    runner.count(res, 'ended_' + o.klass.split(':')[0])
    if o.spec_halts > 0:
        res['nontrivial'].append(runner.case_id(case['source_id'], case['args'], case['word'], case['unchecked']))
    return True


def run_one(res, src, args, word, unchecked, tag, sites, steps=300_000):
    run = diff.compile_and_run(src, args, word=word, stack=diff.GENEROUS_STACK, unchecked=unchecked, max_steps=steps)
    case = diff.case_dict(src, args, word, diff.GENEROUS_STACK, unchecked, gen=tag)
    case['source_id'] = runner.case_id(src)
    if run.kind != 'ok':
        runner.count(res, 'not_run_' + run.kind)
        runner.note(res, 'not_run_details', f'{run.kind}: {str(run.detail)[:80]}')
        return None
    judge(res, run, case, sites)
    return run.outcome


def run_shard(spec):
    res = runner.new_result()
    sites = {'halt': set()}
    if spec['kind'] == 'placement':
        for i, (tag, src) in enumerate(placement.programs()):
            if i % spec['parts'] != spec['part'] or (i // spec['parts']) % spec['stride'] != spec['offset']:
                continue
            for a in placement.INPUTS:
                o = run_one(res, src, list(a), 2, False, tag, sites)
                if o is not None and not any(f in FAULT_FLAGS for f in o.flags):
                    run_one(res, src, list(a), 2, True, tag, sites)
            run_one(res, src, list(placement.INPUTS[1]), 3, False, tag, sites)
            if len(res['samples']) < 1:
                res['samples'].append({'placement': tag, 'source': src[len(placement.HEAD):], 'inputs': placement.INPUTS})
    elif spec['kind'] == 'gen':
        for i in range(spec['count']):
            s = spec['seed'] * 100003 + i
            if i % 3 == 0:
                prog, args = ProgGen(s, 'sequential').program()
                tag = f'sequential:{s}'
            else:
                prog, args = TimeGen(s).program()
                tag = f'time:{s}'
            src = A.render(prog)
            for word in common.WORDS_ALL:
                o = run_one(res, src, args, word, False, tag, sites)
                if o is not None and not any(f in FAULT_FLAGS for f in o.flags):
                    run_one(res, src, args, word, True, tag, sites)
            if len(res['samples']) < 1:
                res['samples'].append({'gen': tag, 'source': src[:1200], 'args': args})
    elif spec['kind'] == 'exits':
        # function bodies with non-trivial exit analysis, followed in memory by a defeat function that is never
        # called: control that runs off the end of the body reaches an uncaught defeat, i.e. a committed halt
        boom = A.Func('!boom', [('k', A.INT, False)], A.EMPTY, [A.ExprStmt(A.Call('!is_defeat', []))])
        for i in range(spec['count']):
            prog, flavor, ret = ExitGen(spec['seed'] * 100003 + i).program()
            prog.funcs.insert(2, boom)
            src = A.render(prog)
            for x in ('0', '1', '2', '5'):
                for unchecked in (False, True):
                    run_one(res, src, [x], 2, unchecked, f'exits+boom:{spec["seed"]}:{i}', sites)
    elif spec['kind'] == 'histories':
        # try-block histories across functions (which function is compiled first decides how defeat is reached in the others)
        # and with a try nested in a handler: every defeat on the committed timeline ends in a handler, never in a halt
        from ..gen import idioms
        k = 0
        for tag, prog in idioms.history_programs():
            if not tag.startswith(('history-two-functions', 'history-nested-handler')) and hash_stride(tag) % 5:
                continue
            k += 1
            if k % spec['parts'] != spec['part']:
                continue
            src = A.render(prog)
            for a in (idioms.HISTORY_ARGS if spec['tier'] != 'quick' or tag.startswith('history-nested') else (idioms.HISTORY_ARGS[1], idioms.HISTORY_ARGS[3])):
                for unchecked in (False, True):
                    run_one(res, src, list(a), 2, unchecked, 'history:' + tag, sites)
    elif spec['kind'] == 'speculation':
        # `a ?? b` on int, bool and byte operands in every position (value, condition, loop, and/or operand, first statement of a function):
        # both outcomes of the speculation land on code that goes on, whatever the registers held before
        from ..gen import idioms
        items = [(t, p, idioms.SPEC_BOOL_ARGS) for t, p in idioms.spec_bool_programs()] + [(t, p, idioms.SPEC_ARGS) for t, p in idioms.spec_programs()]
        for k, (tag, prog, argsets) in enumerate(items):
            if k % spec['parts'] != spec['part']:
                continue
            src = A.render(prog)
            for j, a in enumerate(argsets):
                if spec['tier'] == 'quick' and tag.startswith('spec/') and j % 2:
                    continue
                for word, unchecked in ((2, False), (3, True)):
                    run_one(res, src, list(a), word, unchecked, 'speculation:' + tag, sites)
    elif spec['kind'] == 'library':
        # every library routine with empty, one-element and ordinary operands of every storage kind (the routines are
        # loops around Turing jumps: an exit test that halts on both sides is a committed halt), plain and inside try bodies
        for tag, src, argsets in LIBRARY_PROGRAMS:
            for a in argsets:
                for word in (2, 3):
                    for unchecked in (False, True):
                        run_one(res, src, a, word, unchecked, 'library:' + tag, sites)
    elif spec['kind'] == 'illegal':
        # programs that must be rejected; an accepted one is still subject to "never halts"
        for tag, src in placement.illegal_programs():
            accepted = False
            for a in placement.INPUTS:
                for unchecked in (False, True):
                    o = run_one(res, src, list(a), 2, unchecked, 'illegal-if-accepted:' + tag, sites)
                    accepted = accepted or o is not None
            runner.count(res, 'illegal_placements_accepted_and_run' if accepted else 'illegal_placements_rejected')
    else:
        for path in sorted(glob.glob(os.path.join(env.REPO, 'examples', '*.hid'))):
            name = os.path.basename(path)
            for a in EXAMPLE_ARGS.get(name, []):
                with open(path) as f:
                    src = f.read()
                run_one(res, src, a, 2, False, 'example:' + name, sites, steps=spec['steps'])
    runner.count(res, 'distinct_halt_sites_reached', len(sites['halt']))
    return res
