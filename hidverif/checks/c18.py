"""C18 - builds are reproducible and options do not change meaning.

Monitors: (a) byte-identity of gen_lines() for the same source/options twice
in-process and in fresh interpreter processes under different PYTHONHASHSEED
values; (b) stack monotonicity: a run that completes without stack overflow at
stack S has the identical committed timeline at every larger S'; (c) word-size
invariance: when the reference interpreter saw no value leave the 16-bit range
the committed timelines at word sizes 2,3,4,8 are identical; (d) --lint either
rejects or leaves the emitted code unchanged."""
import hashlib
import json
import os
import random
import subprocess
import sys

from .. import diff, env, runner
from ..gen import memprogs, typing as T
from ..gen.progs import ProgGen
from ..gen.timegen import TimeGen
from ..model import ast as A
from ..model.refint import RefInt, Skip
from . import common
from .c04 import with_stack

PROPERTY = 'C18'
RULE = ('random sequential/time-travel programs + examples/*.hid; each compiled twice in-process and once per hash seed '
        '{0,1,2,3 + 2 random} in fresh interpreters at (word,stack,unchecked) combinations; each run on a stack ladder '
        '(first winning size and 3 larger) and at word sizes 2,3,4,8; lint on/off (unreachable statements generated with '
        'probability 0.3, plus the enumerated grid of 12 non-falling-through statements x 10 dead statements x 3 places); '
        'one fresh interpreter per shard runs under python -O and one under -OO; non-trivial = the program has >= 2 functions, >= 1 string constant and >= 1 global (the tables '
        'whose order could vary); distinct by hash of source')
ASSUMPTIONS = common.ISA_ASSUMPTIONS[:3] + ['"any process" is sampled by 6 fresh interpreter processes per shard: 6 hash seeds, one of them under python -O and one under python -OO']
REQUIRED_HIDC_FUNCTIONS = ['codegen/generator:CodeGen.gen_lines', 'codegen/generator:CodeGen.add_label']     # M-COV: deciding code never entered => inconclusive
MIN_NONTRIVIAL = {'quick': 60, 'thorough': 600}
MAX_STEPS = 400_000
LADDER = [16, 24, 36, 54, 80, 120, 180, 270, 400, 600, 900, 1400, 2000, 4000]


def stack_monotone(res, src, args, word=2):
    """a run that completes without stack overflow behaves identically at every larger stack size"""
    CompilerError, _ = env.compiler_error_types()
    try:
        base = env.compile_src(src, word=word, stack=diff.GENEROUS_STACK)
    except CompilerError:
        return

    def run_at(stack):
        r = diff.run_lines(with_stack(base, stack), args, MAX_STEPS, monitors=False)
        res['evaluations'] += 1
        return r.outcome if r.kind == 'ok' else None
    G = run_at(diff.GENEROUS_STACK)
    if G is None or G.klass == 'TIMEOUT' or 'stack_overflow' in G.flags:
        return
    lo, hi = 0, diff.GENEROUS_STACK          # smallest size without a stack_overflow flag
    while lo + 1 < hi:
        mid = (lo + hi) // 2
        o = run_at(mid)
        if o is not None and 'stack_overflow' not in o.flags and o.klass != 'TIMEOUT':
            hi = mid
        else:
            lo = mid
    top = ((1 << (8 * word - 1)) - 1) // word - 5          # the largest stack the compiler accepts at this word size
    for stack in sorted(set(list(range(max(1, hi - 4), hi + 10)) + [hi + 16, hi + 50, 2 * hi + 100, 1000] + ([top, top - 1, top - 7] if word == 2 and top > hi else []))):
        o = run_at(stack)
        if o is None or o.klass == 'TIMEOUT':
            continue
        if 'stack_overflow' in o.flags:
            if stack > hi:
                # the run completes without overflow at `hi` words: a LARGER stack may not overflow
                runner.fail(res, 'M-STACK', f'run completes without stack overflow at stack {hi} but ends in stack_overflow at the larger stack {stack}',
                            diff.case_dict(src, args, word, stack, smaller_stack=hi), expected=G.brief(), observed=o.brief())
                return
            runner.count(res, 'sweep_overflows')
            continue
        if o.stream != G.stream or o.klass != G.klass:
            runner.fail(res, 'M-STACK', f'run completes without stack overflow at stack {stack} ({o.klass} {o.out[-60:]!r}) but differs at the larger '
                                        f'stack {diff.GENEROUS_STACK} ({G.klass} {G.out[-60:]!r})',
                        diff.case_dict(src, args, word, stack, larger_stack=diff.GENEROUS_STACK), expected=G.brief(), observed=o.brief())
            return
        runner.count(res, 'stack_pairs_identical')


class Tracking(RefInt):
    """RefInt that notes whether any integer value left the signed 16-bit range"""
    left16 = False

    def wrap(self, v):
        if not (-32768 <= v <= 32767):
            self.left16 = True
        return super().wrap(v)


def plan(tier, seed):
    n, per = (16, 10) if tier == 'quick' else (48, 50)
    return [{'kind': 'gen', 'seed': s, 'count': per, 'hashseeds': ['0', '1', '2', '3', str(10 + s % 97), str(1000 + s)]}
            for s in common.shard_seeds(seed, n)] + [{'kind': 'lint', 'part': i, 'parts': 2} for i in range(2)] + \
           [{'kind': 'cli', 'part': i, 'parts': 4} for i in range(4)]


def lint_grid():
    """every kind of statement that never falls through, followed directly by every kind of dead statement, at function
    level and inside a loop: --lint must reject the program or leave the generated code as it is without --lint"""
    stoppers = {
        'return': 'return;', 'infinite while': 'while (true) { }', 'infinite for': 'for (;;) { x += 1; }', 'all_is_win': 'all_is_win();',
        'all_is_broken': 'all_is_broken();', 'if/else of returns': 'if (x > 1) { return; } else { return; }',
        'nested block return': '{ write(x); return; }', 'break': 'break;', 'continue': 'continue;',
        'if/else break/continue': 'if (x > 1) { break; } else { continue; }', 'defeat': '!is_defeat();',
        'truth_is_defeat(true)': '!truth_is_defeat(true);',
    }
    dead = {'return': 'return;', 'break': 'break;', 'continue': 'continue;', 'write': "write('d');", 'declaration': 'int q = x;',
            'assignment': 'x += 1;', 'empty block': '{ }', 'if': "if (x > 2) { write('e'); }", 'loop': 'while (x > 5) { x -= 1; }', 'call': 'other(x);'}
    for sn, st in stoppers.items():
        for dn, dd in dead.items():
            for place in ('function', 'loop', 'if arm'):
                in_loop = place == 'loop'
                if (st in ('break;', 'continue;') or 'break' in st or dd in ('break;', 'continue;')) and not in_loop:
                    continue
                defeat = 'defeat' in sn
                inner = f'{st} {dd}'
                if place == 'loop':
                    inner = f'for (int i = 0; i < 3; i += 1) {{ x += i; {inner} }}'
                elif place == 'if arm':
                    inner = f"if (x > 0) {{ {inner} }} write('m');"
                fname = '!work' if defeat else 'work'
                call = f'try {{ {fname}(a); }} undo {{ write(\'u\'); }}' if defeat else f'{fname}(a);'
                yield (f'{sn} then {dn} in {place}',
                       f"empty other(int k) {{ write(k); }}\nempty {fname}(int x) {{ write('s'); {inner} }}\n"
                       f"empty @is_you(int a) {{ {call} writeln(a); }}\n")


def signed_sleeps(stream, word):
    """the VM records a sleep duration as the unsigned word it finds; sleep(-97) is 65439 at 16 bits and 16777119 at
    24 bits although the program computed the same value: compare durations as signed values of the word size"""
    bits = 8 * word
    return [('sleep', e[1] - (1 << bits) if e[1] >> (bits - 1) else e[1]) if e[0] == 'sleep' else e for e in stream]


def digest(lines):
    return hashlib.sha256(b'\n'.join(lines)).hexdigest()


def run_shard(spec):
    res = runner.new_result()
    CompilerError, _ = env.compiler_error_types()
    if spec.get('kind') == 'cli':
        # the command-line tool is one more process: `python -m hidc -m W -s S [--unchecked]` must write exactly the bytes the
        # library produces for word size W/8, stack size S - for every S, including 0 and 1
        scratch = os.environ.get('HIDVERIF_SCRATCH') or os.path.join(env.VERIF, '.scratch')
        d = os.path.join(scratch, f'c18cli-{os.getpid()}')
        os.makedirs(d, exist_ok=True)
        srcs = ['empty @is_you() { writeln("hi"); }\n',
                'int g = 3;\nint f(int n) { int[] t = [n, g]; if (n > 0) { return f(n - 1) + t[0]; } return t[1]; }\nempty @is_you(int n) { writeln(f(n)); }\n']
        n = 0
        for si, src in enumerate(srcs):
            inp = os.path.join(d, f'in{si}.hid')
            with open(inp, 'w') as f:
                f.write(src)
            for m in (16, 24, 32, 40, 48, 64):
                for sz in (0, 1, 2, 7, 500, 16000, 16378, 16379):
                    for unchecked in (False, True):
                        n += 1
                        if n % spec['parts'] != spec['part']:
                            continue
                        res['evaluations'] += 1
                        out = os.path.join(d, 'out.s')
                        # the output path already holds something longer (an earlier, bigger build): it must be replaced entirely
                        with open(out, 'wb') as f:
                            f.write(b'halt\nstale_label_from_an_earlier_build:\n' * 4000 if n % 2 else b'')
                        opts = ['-m', str(m), '-s', str(sz)] + (['--unchecked'] if unchecked else [])
                        case = {'source': src, 'options': opts, 'what': 'CLI vs library'}
                        e = dict(os.environ, PYTHONPATH=env.REPO)
                        p = subprocess.run([sys.executable, '-m', 'hidc', inp, '-o', out] + opts, env=e, capture_output=True, timeout=120)
                        try:
                            lib = b'\n'.join(env.compile_src(src, word=m // 8, stack=sz, unchecked=unchecked))
                        except CompilerError as ex:
                            lib = None
                        if p.returncode != 0 or not os.path.exists(out):
                            if lib is not None:
                                runner.fail(res, 'M-REPRO', f'python -m hidc {" ".join(opts)} fails (exit {p.returncode}: {p.stderr.decode("utf-8", "replace")[-120:]!r}) although the library compiles the program', case)
                            else:
                                runner.count(res, 'cli_and_library_reject')
                            continue
                        with open(out, 'rb') as f:
                            got = f.read()
                        if lib is None or got.rstrip(b'\n') != lib.rstrip(b'\n'):
                            runner.fail(res, 'M-REPRO', f'python -m hidc {" ".join(opts)} writes different assembly than the library with word={m // 8}, stack={sz}, unchecked={unchecked}', case)
                        else:
                            runner.count(res, 'cli_equals_library')
                            res['nontrivial'].append(runner.case_id('cli', si, m, sz, unchecked))
        res['exhaustive'] = True
        return res
    if spec.get('kind') == 'lint':
        for k, (tag, src) in enumerate(lint_grid()):
            if k % spec['parts'] != spec['part']:
                continue
            res['evaluations'] += 1
            case = diff.case_dict(src, ['3'], 2, 500, lint=True, gen='lint grid: ' + tag)
            try:
                plain = env.compile_src(src, word=2, stack=500)
            except CompilerError as e:
                runner.fail(res, 'M-LINT', f'{tag}: rejected without --lint: {e}', case)
                continue
            try:
                linted = env.compile_src(src, word=2, stack=500, lint=True)
            except CompilerError:
                runner.count(res, 'lint_rejected')
                res['nontrivial'].append(runner.case_id('lint', src))
                continue
            except Exception as e:  # noqa
                runner.fail(res, 'M-EXC', f'--lint: {type(e).__name__}: {e}', case)
                continue
            if linted != plain:
                runner.fail(res, 'M-LINT', f'{tag}: --lint accepted the program but changed the emitted code', case)
            else:
                runner.count(res, 'lint_accepted_identical')
                res['nontrivial'].append(runner.case_id('lint', src))
        res['exhaustive'] = True
        return res
    rng = random.Random(spec['seed'])
    jobs = []
    local = []
    progs = []
    for i in range(spec['count']):
        s = spec['seed'] * 100003 + i
        if i % 2:
            prog, args = TimeGen(s).program()
        else:
            prog, args = ProgGen(s, 'sequential', unreachable=0.3, hostile=0.01).program()
        progs.append((prog, args, A.render(prog)))
    # programs whose meaning depends on the *preferred* element type of untyped array literals and on overload order
    for i in range(6):
        n = rng.randint(2, 4)
        sigs = []
        while len(sigs) < n:
            sg = (rng.choice(T.OVER_PARAMS),)
            if sg not in sigs:
                sigs.append(sg)
        calls = [(p,) for p in T.ALL if T.resolve(sigs, (p,)) is not None]
        if calls:
            progs.append((None, [], T.overload_program(sigs, calls)))
    progs.append((None, [], T.program('\n    write([1, bv][1]); write([bv, 1][1]); write([bv, 300][1] is int); write([1, bv].length); write(["a", sv][1]); '
                                      'write([fv, true][0]); write([ci, bv][0]); write([cb, 1, iv is byte][2]);')))
    for tag, tsrc, targs in memprogs.cases(spec['seed'], 0)[:3]:
        progs.append((None, targs, tsrc))
    if spec['seed'] % 4 == 1:
        # programs that define their own overloads of builtin names: compiled repeatedly in one process and in fresh ones
        progs += [(None, None, bsrc) for btag, bsrc, ok in T.builtin_cases() if ok]
    # the templates in which the exact stack size decides (exact-fit dynamic arrays, write(int) as deepest point): all of them, spread over the shards
    tight = [(tag, tsrc, targs) for tag, tsrc, targs in memprogs.cases(0, 0) if tag.startswith(('exact-fit', 'write-deepest'))]
    tight.sort(key=lambda c: (c[0], c[2]))
    for j, (tag, tsrc, targs) in enumerate(tight):
        if j % 16 == spec['seed'] % 16:
            progs.append((None, targs, tsrc))
    # arrays of every element type and storage class indexed at run time, strings, tables: the same timeline at EVERY word size, also at the
    # sizes that are not a power of two bytes (values stay within 16 bits, Tracking confirms it)
    from ..gen import scale as _scale, idioms as _idioms
    every_word = set()
    pool = [(t, p, _scale.ARRAY_ARGS[0]) for t, p in _scale.long_array_programs() if t.endswith(('/7', '/9', '/17'))] + \
           [(t, p, _idioms.TABLE_ARGS[0]) for t, p in _idioms.table_programs()] + [(t, p, _scale.DEPTH_ARGS[0]) for t, p in _scale.deep_nesting_programs() if t.endswith('/4')]
    for k, (t, p, a) in enumerate(pool):
        if k % 16 == spec['seed'] % 16:
            progs.append((p, a, A.render(p)))
            every_word.add(id(p))
    # entry points with 4-40 parameters (the entry frame grows with the argument count): monotone up to the largest stack the compiler accepts
    for k, tag, eprog, eargs in common.scale_items(('entry',)):
        if k % 16 == spec['seed'] % 16:
            progs.append((None, eargs[0], A.render(eprog)))
    if spec['seed'] % 4 == 0:
        from .c17 import CALLER_PROG
        for n in ('12345', '-32768', '999'):
            progs.append((None, [n, '7'], memprogs.stdlib_program()))
        progs.append((None, ['12345', '-9', '100', '-32768'], CALLER_PROG))
    exdir = os.path.join(env.REPO, 'examples')
    if spec['seed'] % 1000 == 0 and os.path.isdir(exdir):
        for fn in sorted(os.listdir(exdir)):
            if fn.endswith('.hid'):
                with open(os.path.join(exdir, fn)) as f:
                    progs.append((None, None, f.read()))
    # ---- (a) reproducibility
    for prog, args, src in progs:
        for word, stack, unchecked in ((2, 500, False), (rng.choice([3, 4, 8, 5, 6]), rng.choice([64, 1000]), rng.random() < 0.5)):
            job = {'source': src, 'word': word, 'stack': stack, 'unchecked': unchecked}
            try:
                d1 = digest(env.compile_src(src, word=word, stack=stack, unchecked=unchecked))
                d2 = digest(env.compile_src(src, word=word, stack=stack, unchecked=unchecked))
            except CompilerError as e:
                d1 = d2 = f'ERR:{type(e).__name__}:{e}'
            except Exception as e:  # noqa  an internal exception is an outcome too: the same source must not compile in one configuration and crash in another
                d1 = d2 = f'INTERNAL:{type(e).__name__}:{e}'
                runner.fail(res, 'M-EXC', f'compilation at word={word} stack={stack} unchecked={unchecked} dies with {type(e).__name__}: {e}', job)
            res['evaluations'] += 1
            if d1 != d2:
                runner.fail(res, 'M-REPRO', 'two in-process compilations of the same source/options differ', job)
            jobs.append(job)
            local.append(d1)
    wenv = dict(os.environ)
    wenv['PYTHONPATH'] = env.VERIF + os.pathsep + env.REPO
    # interpreter modes of the compiling process: plain, -O (asserts stripped), -OO (docstrings stripped too)
    modes = [[]] * len(spec['hashseeds'])
    modes[1:3] = [['-O'], ['-OO']]
    for hs, flags in zip(spec['hashseeds'], modes):
        wenv['PYTHONHASHSEED'] = hs
        hs = hs + (' python ' + flags[0] if flags else '')
        try:
            p = subprocess.run([sys.executable] + flags + ['-m', 'hidverif.compile_batch'], input=json.dumps(jobs), env=wenv,
                               cwd=env.VERIF, capture_output=True, text=True, timeout=900)
            remote = json.loads(p.stdout)
        except Exception as e:  # noqa
            res['inconclusive'].append(f'compile_batch under PYTHONHASHSEED={hs}: {type(e).__name__}: {e}')
            continue
        runner.count(res, 'fresh_process_compilations', len(remote))
        runner.note(res, 'hash_seeds', hs)
        for job, a, b in zip(jobs, local, remote):
            res['evaluations'] += 1
            if a != b:
                runner.fail(res, 'M-REPRO', f'output under PYTHONHASHSEED={hs} differs from the in-process compilation '
                                            f'({a[:16]} vs {b[:16]})', dict(job, hashseed=hs))
    # ---- (b)(c)(d) behaviour across options
    for i, (prog, args, src) in enumerate(progs):
        if prog is None:
            if args is not None:
                stack_monotone(res, src, args)
            continue
        cid = runner.case_id(src)
        nfun = len(prog.funcs)
        has_str = any(isinstance(e, A.Lit) and e.t == A.STRING for e in A.program_exprs(prog))
        if nfun >= 2 and has_str and prog.globals:
            res['nontrivial'].append(cid)
            if len(res['samples']) < 1:
                res['samples'].append({'source': src[:1000], 'args': args})
        # (d) lint
        try:
            plain = env.compile_src(src, word=2, stack=500)
        except CompilerError:
            runner.count(res, 'rejected')
            continue
        try:
            linted = env.compile_src(src, word=2, stack=500, lint=True)
            res['evaluations'] += 1
            if linted != plain:
                runner.fail(res, 'M-LINT', '--lint accepted the program but changed the emitted code',
                            diff.case_dict(src, args, 2, 500, lint=True))
            else:
                runner.count(res, 'lint_accepted_identical')
        except CompilerError:
            runner.count(res, 'lint_rejected')
        except Exception as e:  # noqa
            runner.fail(res, 'M-EXC', f'--lint: {type(e).__name__}: {e}', diff.case_dict(src, args, 2, 500, lint=True))
        # (b) stack monotonicity: every size from the smallest one that does not overflow upwards
        stack_monotone(res, src, args)
        # (c) word-size invariance
        try:
            ri = Tracking(prog, word=2, args=args)
            ri.run()
            fits = not ri.left16
        except Skip:
            fits = False
        except RecursionError:
            fits = False
        if fits:
            base = None
            for word in ((2, 3, 4, 8) + common.ODD_WORDS if id(prog) in every_word else (2, 3, 4, 8, common.ODD_WORDS[i % 5], common.ODD_WORDS[(i + 2) % 5])):
                run = diff.compile_and_run(src, args, word=word, stack=diff.GENEROUS_STACK, max_steps=MAX_STEPS, monitors=False)
                if run.kind != 'ok' or run.outcome.klass == 'TIMEOUT':
                    break
                res['evaluations'] += 1
                o = run.outcome
                if base is None:
                    base = o
                    base_stream = signed_sleeps(o.stream, 2)
                elif signed_sleeps(o.stream, word) != base_stream or o.klass != base.klass:
                    runner.fail(res, 'M-WORD', f'all values fit 16 bits, yet word size {word} gives {o.klass} {o.out[:60]!r} '
                                               f'and word size 2 gives {base.klass} {base.out[:60]!r}',
                                diff.case_dict(src, args, word, diff.GENEROUS_STACK), expected=base.brief(), observed=o.brief())
                    break
                else:
                    runner.count(res, 'word_pairs_identical')
        else:
            runner.count(res, 'word_invariance_premise_not_met')
    return res
