"""C18 - builds are reproducible and options do not change meaning.

Monitors: (a) byte-identity of gen_lines() for the same source/options twice
in-process and in fresh interpreter processes under different PYTHONHASHSEED
values; (b) stack monotonicity: a run that completes without stack overflow at
stack S has the identical committed timeline at every larger S'; (c) word-size
invariance: when the reference interpreter saw no value leave the 16-bit range
the committed timelines at word sizes 2,3,4,8 are identical; (d) --lint either
rejects or leaves the emitted code unchanged."""
import hashlib
import json
import os
import random
import subprocess
import sys

from .. import diff, env, runner
from ..gen.progs import ProgGen
from ..gen.timegen import TimeGen
from ..model import ast as A
from ..model.refint import RefInt, Skip
from . import common

PROPERTY = 'C18'
RULE = ('random sequential/time-travel programs + examples/*.hid; each compiled twice in-process and once per hash seed '
        '{0,1,2,3 + 2 random} in fresh interpreters at (word,stack,unchecked) combinations; each run on a stack ladder '
        '(first winning size and 3 larger) and at word sizes 2,3,4,8; lint on/off (unreachable statements generated with '
        'probability 0.3); non-trivial = the program has >= 2 functions, >= 1 string constant and >= 1 global (the tables '
        'whose order could vary); distinct by hash of source')
ASSUMPTIONS = common.ISA_ASSUMPTIONS[:3] + ['"any process" is sampled by 6 hash seeds per run']
MIN_NONTRIVIAL = {'quick': 60, 'thorough': 600}
MAX_STEPS = 400_000
LADDER = [16, 24, 36, 54, 80, 120, 180, 270, 400, 600, 900, 1400, 2000, 4000]


class Tracking(RefInt):
    """RefInt that notes whether any integer value left the signed 16-bit range"""
    left16 = False

    def wrap(self, v):
        if not (-32768 <= v <= 32767):
            self.left16 = True
        return super().wrap(v)


def plan(tier, seed):
    n, per = (16, 14) if tier == 'quick' else (48, 50)
    return [{'kind': 'gen', 'seed': s, 'count': per, 'hashseeds': ['0', '1', '2', '3', str(10 + s % 97), str(1000 + s)]}
            for s in common.shard_seeds(seed, n)]


def digest(lines):
    return hashlib.sha256(b'\n'.join(lines)).hexdigest()


def run_shard(spec):
    res = runner.new_result()
    CompilerError, _ = env.compiler_error_types()
    rng = random.Random(spec['seed'])
    jobs = []
    local = []
    progs = []
    for i in range(spec['count']):
        s = spec['seed'] * 100003 + i
        if i % 2:
            prog, args = TimeGen(s).program()
        else:
            prog, args = ProgGen(s, 'sequential', unreachable=0.3, hostile=0.01).program()
        progs.append((prog, args, A.render(prog)))
    exdir = os.path.join(env.REPO, 'examples')
    if spec['seed'] % 1000 == 0 and os.path.isdir(exdir):
        for fn in sorted(os.listdir(exdir)):
            if fn.endswith('.hid'):
                with open(os.path.join(exdir, fn)) as f:
                    progs.append((None, None, f.read()))
    # ---- (a) reproducibility
    for prog, args, src in progs:
        for word, stack, unchecked in ((2, 500, False), (rng.choice([3, 4, 8]), rng.choice([64, 1000]), rng.random() < 0.5)):
            job = {'source': src, 'word': word, 'stack': stack, 'unchecked': unchecked}
            try:
                d1 = digest(env.compile_src(src, word=word, stack=stack, unchecked=unchecked))
                d2 = digest(env.compile_src(src, word=word, stack=stack, unchecked=unchecked))
            except CompilerError as e:
                d1 = d2 = f'ERR:{type(e).__name__}:{e}'
            res['evaluations'] += 1
            if d1 != d2:
                runner.fail(res, 'M-REPRO', 'two in-process compilations of the same source/options differ', job)
            jobs.append(job)
            local.append(d1)
    wenv = dict(os.environ)
    wenv['PYTHONPATH'] = env.VERIF + os.pathsep + env.REPO
    for hs in spec['hashseeds']:
        wenv['PYTHONHASHSEED'] = hs
        try:
            p = subprocess.run([sys.executable, '-m', 'hidverif.compile_batch'], input=json.dumps(jobs), env=wenv,
                               cwd=env.VERIF, capture_output=True, text=True, timeout=900)
            remote = json.loads(p.stdout)
        except Exception as e:  # noqa
            res['inconclusive'].append(f'compile_batch under PYTHONHASHSEED={hs}: {type(e).__name__}: {e}')
            continue
        runner.count(res, 'fresh_process_compilations', len(remote))
        runner.note(res, 'hash_seeds', hs)
        for job, a, b in zip(jobs, local, remote):
            res['evaluations'] += 1
            if a != b:
                runner.fail(res, 'M-REPRO', f'output under PYTHONHASHSEED={hs} differs from the in-process compilation '
                                            f'({a[:16]} vs {b[:16]})', dict(job, hashseed=hs))
    # ---- (b)(c)(d) behaviour across options
    for prog, args, src in progs:
        if prog is None:
            continue
        cid = runner.case_id(src)
        nfun = len(prog.funcs)
        has_str = any(isinstance(e, A.Lit) and e.t == A.STRING for e in A.program_exprs(prog))
        if nfun >= 2 and has_str and prog.globals:
            res['nontrivial'].append(cid)
            if len(res['samples']) < 1:
                res['samples'].append({'source': src[:1000], 'args': args})
        # (d) lint
        try:
            plain = env.compile_src(src, word=2, stack=500)
        except CompilerError:
            runner.count(res, 'rejected')
            continue
        try:
            linted = env.compile_src(src, word=2, stack=500, lint=True)
            res['evaluations'] += 1
            if linted != plain:
                runner.fail(res, 'M-LINT', '--lint accepted the program but changed the emitted code',
                            diff.case_dict(src, args, 2, 500, lint=True))
            else:
                runner.count(res, 'lint_accepted_identical')
        except CompilerError:
            runner.count(res, 'lint_rejected')
        except Exception as e:  # noqa
            runner.fail(res, 'M-EXC', f'--lint: {type(e).__name__}: {e}', diff.case_dict(src, args, 2, 500, lint=True))
        # (b) stack monotonicity
        time_travel = A.uses_time_travel(prog)
        first = None
        ran = 0
        for stack in LADDER:
            if first is not None and ran >= 4:
                break
            run = diff.compile_and_run(src, args, word=2, stack=stack, max_steps=MAX_STEPS, monitors=False)
            if run.kind != 'ok':
                break
            o = run.outcome
            res['evaluations'] += 1
            runner.count(res, 'vm_steps', o.steps)
            if o.klass == 'TIMEOUT':
                break
            if first is None:
                if 'stack_overflow' in o.flags:
                    runner.count(res, 'ladder_overflows')
                    continue
                first = (stack, o)
                continue
            ran += 1
            if o.stream != first[1].stream or o.klass != first[1].klass:
                runner.fail(res, 'M-STACK', f'run completes without stack overflow at stack {first[0]} ({first[1].klass} '
                                            f'{first[1].out[:60]!r}) but differs at stack {stack} ({o.klass} {o.out[:60]!r})',
                            diff.case_dict(src, args, 2, stack, smaller_stack=first[0]),
                            expected=first[1].brief(), observed=o.brief())
                break
            runner.count(res, 'stack_pairs_identical')
        # (c) word-size invariance
        try:
            ri = Tracking(prog, word=2, args=args)
            ri.run()
            fits = not ri.left16
        except Skip:
            fits = False
        except RecursionError:
            fits = False
        if fits:
            base = None
            for word in (2, 3, 4, 8):
                run = diff.compile_and_run(src, args, word=word, stack=diff.GENEROUS_STACK, max_steps=MAX_STEPS, monitors=False)
                if run.kind != 'ok' or run.outcome.klass == 'TIMEOUT':
                    break
                res['evaluations'] += 1
                o = run.outcome
                if base is None:
                    base = o
                elif o.stream != base.stream or o.klass != base.klass:
                    runner.fail(res, 'M-WORD', f'all values fit 16 bits, yet word size {word} gives {o.klass} {o.out[:60]!r} '
                                               f'and word size 2 gives {base.klass} {base.out[:60]!r}',
                                diff.case_dict(src, args, word, diff.GENEROUS_STACK), expected=base.brief(), observed=o.brief())
                    break
                else:
                    runner.count(res, 'word_pairs_identical')
        else:
            runner.count(res, 'word_invariance_premise_not_met')
    return res
