"""Placement enumeration for C06: every construct in every context path, with
legality decided by an independent context checker that implements the clauses
of the property statement literally (it shares no code with BlockContext)."""
import itertools

HELPERS = '''
const int[] arr = [1, 2, 3];
int gv = 5;
int ord(int k) { return k; }
int @you(int k) { return k; }
int !dft(int k) { return k; }
'''


class Ctx:
    """what the enclosing code is, as far as the five clauses care"""
    __slots__ = ('flavor', 'in_try', 'in_loop', 'in_spec', 'glob')

    def __init__(self, flavor, in_try=False, in_loop=False, in_spec=False, glob=False):
        self.flavor, self.in_try, self.in_loop, self.in_spec, self.glob = flavor, in_try, in_loop, in_spec, glob

    def but(self, **kw):
        c = Ctx(self.flavor, self.in_try, self.in_loop, self.in_spec, self.glob)
        for k, v in kw.items():
            setattr(c, k, v)
        return c


# ------------------------------------------------- the independent checker
def legal_call(kind, c):
    if c.glob:
        return False, 'globals are initialised without calls'
    if kind == 'ordinary':
        return True, ''
    if kind == 'you':
        ok = c.flavor == '@' and not c.in_try and not c.in_spec
        return ok, 'you-calls only in you-functions, never in a try body, never in a ?? operand'
    ok = (c.in_try or c.flavor == '!') and not c.in_spec
    return ok, 'defeat functions only inside try bodies or defeat functions; ?? operands contain only ordinary calls'


def legal_try(c):
    return (c.flavor == '@' and not c.in_try and not c.glob), 'try only in you-functions and never inside a try body'


def legal_spec(c):
    return (c.flavor == '@' and not c.in_try and not c.glob and not c.in_spec), '?? only in you-functions and never inside a try body'


def legal_preempt(c):
    return (c.in_try or c.flavor == '!'), 'preempt only inside try bodies or defeat functions'


def legal_loop_exit(c):
    return c.in_loop, 'break and continue only inside loops'


# ------------------------------------------------------ statement wrappers
# name -> (template with S, function ctx -> (legal, why, inner ctx))
def _w_plain(tmpl, **change):
    return tmpl, lambda c: (True, '', c.but(**change))


def _w_try(tmpl, part):
    def f(c):
        ok, why = legal_try(c)
        if part == 'body':
            return ok, why, c.but(in_try=True)
        return ok, why, c          # handler: outside the try body again
    return tmpl, f


def _w_preempt(tmpl):
    def f(c):
        ok, why = legal_preempt(c)
        return ok, why, c
    return tmpl, f


STMT_WRAPPERS = {
    'if': _w_plain('if (x > 0) { S }'),
    'else': _w_plain('if (x > 0) { x = 1; } else { S }'),
    'while': _w_plain('while (x > 9) { S }', in_loop=True),
    'for': _w_plain('for (int IV = 0; IV < 2; IV += 1) { S }', in_loop=True),
    'block': _w_plain('{ S }'),
    'try_undo_body': _w_try('try { S } undo { x = 2; }', 'body'),
    'try_stop_body': _w_try('try { S } stop { x = 2; }', 'body'),
    'undo_handler': _w_try('try { x = 3; } undo { S }', 'handler'),
    'stop_handler': _w_try('try { x = 3; } stop { S }', 'handler'),
    'preempt': _w_preempt('preempt { S }'),
}

# ----------------------------------------------------- expression positions
EXPR_POSITIONS = {
    'assign': 'x = E;',
    'decl': 'int dv = E;',
    'cond': 'if (E == 0) { x = 4; }',
    'whilecond': 'while (E == 99) { x = 5; }',
    'forinit': 'for (int j = E; j < 2; j += 1) { x = 6; }',
    'forcond': 'for (int j = 0; j < E; j += 1) { x = 6; }',
    'forstep': 'for (int j = 0; j < 2; j += E + 1) { x = 6; }',
    'ret': 'return E;',
    'vla': 'int va[E];',
    'exprstmt': 'ord(E);',
    'index_assign': 'int[] ia = [1, 2, 3]; ia[E] = 1;',
}


def _e_plain(tmpl):
    return tmpl, lambda c: (True, '', c)


def _e_spec(tmpl):
    def f(c):
        ok, why = legal_spec(c)
        return ok, why, c.but(in_spec=True)
    return tmpl, f


def _e_call(tmpl, kind):
    def f(c):
        ok, why = legal_call(kind, c)
        return ok, why, c
    return tmpl, f


EXPR_WRAPPERS = {
    'paren': _e_plain('(E)'),
    'index': _e_plain('arr[E]'),
    'arrlit': _e_plain('[E, 1][0]'),
    'unary': _e_plain('-(E)'),
    'binop': _e_plain('1 + (E) * 2'),
    'cast': _e_plain('((E) is byte) is int'),
    'and': _e_plain('((E) == 1 and x == 2) is int'),
    'arg_ordinary': _e_call('ord(E)', 'ordinary'),
    'spec_left': _e_spec('((E) ?? 1)'),
    'spec_right': _e_spec('(x ?? (E))'),
}

# ------------------------------------------------------------- constructs
EXPR_CONSTRUCTS = {
    'call_ordinary': ('ord(1)', lambda c: legal_call('ordinary', c)),
    'call_you': ('@you(1)', lambda c: legal_call('you', c)),
    'call_defeat': ('!dft(1)', lambda c: legal_call('defeat', c)),
    'speculation': ('(x ?? 1)', legal_spec),
    'plain': ('x + 1', lambda c: (True, '')),
}

STMT_CONSTRUCTS = {
    'try_undo': ('try { x = 7; } undo { x = 8; }', legal_try),
    'try_stop': ('try { x = 7; } stop { x = 8; }', legal_try),
    'preempt': ('preempt { x = 9; }', legal_preempt),
    'break': ('break;', legal_loop_exit),
    'continue': ('continue;', legal_loop_exit),
    'return': ('return 0;', lambda c: (True, '')),
    'declaration': ('int dd = 1;', lambda c: (True, '')),
    'is_defeat': ('!is_defeat();', lambda c: legal_call('defeat', c)),
    'truth_is_defeat': ('!truth_is_defeat(x == 1);', lambda c: legal_call('defeat', c)),
    'stmt_call_you': ('@you(2);', lambda c: legal_call('you', c)),
    'stmt_call_ordinary': ('ord(2);', lambda c: legal_call('ordinary', c)),
}

FLAVORS = {'ordinary': '', 'you': '@', 'defeat': '!'}


def build(flavor_name, stmt_path, final_stmt):
    fl = FLAVORS[flavor_name]
    s = final_stmt
    for k, w in reversed(list(enumerate(stmt_path))):
        s = STMT_WRAPPERS[w][0].replace('IV', f'i{k}').replace('S', s)
    main = 'empty @is_you() { }\n' if fl != '@' or True else ''
    return HELPERS + f'int {fl}host(int x) {{ {s} return 0; }}\n' + main


def walk(flavor_name, stmt_path):
    """returns (ctx, legal, why) after descending the statement wrappers"""
    c = Ctx(FLAVORS[flavor_name])
    for w in stmt_path:
        ok, why, c2 = STMT_WRAPPERS[w][1](c)
        if not ok:
            return c2, False, f'{w}: {why}'
        c = c2
    return c, True, ''


def cases(depth, expr_depth, part=0, parts=1):
    """yield (tag, source, legal, why)"""
    n = 0
    names = list(STMT_WRAPPERS)
    for fl in FLAVORS:
        for d in range(depth + 1):
            for path in itertools.product(names, repeat=d):
                n += 1
                if n % parts != part:
                    continue
                c, ok, why = walk(fl, path)
                ptag = f'{fl}/' + '>'.join(path)
                for cn, (text, rule) in STMT_CONSTRUCTS.items():
                    ok2, why2 = rule(c)
                    yield f'{ptag}/{cn}', build(fl, path, text), ok and ok2, (why if not ok else why2 if not ok2 else '')
                for pn, ptmpl in EXPR_POSITIONS.items():
                    for ed in range(expr_depth + 1):
                        for epath in itertools.product(list(EXPR_WRAPPERS), repeat=ed):
                            ce, oke, whye = c, ok, why
                            for w in epath:
                                o, wh, ce2 = EXPR_WRAPPERS[w][1](ce)
                                if oke and not o:
                                    oke, whye = False, f'{w}: {wh}'
                                ce = ce2
                            for cn, (text, rule) in EXPR_CONSTRUCTS.items():
                                ok2, why2 = rule(ce)
                                e = text
                                for w in reversed(epath):
                                    e = EXPR_WRAPPERS[w][0].replace('E', e)
                                yield (f'{ptag}/{pn}/' + '>'.join(epath) + f'/{cn}', build(fl, path, ptmpl.replace('E', e)),
                                       oke and ok2, (whye if not oke else why2 if not ok2 else ''))
    # global scope: declarations only, initialised without calls
    if part == 0:
        for cn, (text, rule) in EXPR_CONSTRUCTS.items():
            ok2, why2 = rule(Ctx('', glob=True))
            if cn == 'plain':
                text = '1 + 1'
            yield f'global/init/{cn}', HELPERS + f'int gg = {text};\nempty @is_you() {{ }}\n', ok2, why2
        yield 'global/array_init_call', HELPERS + 'int[] ga = [ord(1), 2];\nempty @is_you() { }\n', False, 'globals are initialised without calls'
        yield 'global/array_length_call', HELPERS + 'int gz[ord(3)];\nempty @is_you() { }\n', False, 'globals are initialised without calls'
        # ... but they may mention other (constant) globals anywhere an expression can stand: that is not a call
        pre = HELPERS + "const int GN = 3;\nconst byte GF = 'a';\nconst bool GT = true;\n"
        for tag, decl in (('initialiser', 'int total = GN * 2;'), ('array_length', 'int squares[GN];'), ('array_length_expr', 'bool flags[GN * 8 + 1];'),
                          ('array_literal_item', 'byte[] letters = [GF, GF + 1, GF + 2];'), ('const_from_const', 'const int GM = GN + GN;'),
                          ('cast', 'byte small = (GN + 1) is byte;'), ('index', 'int pick = [10, 20, 30, 40][GN];'), ('logic', 'bool both = GT and GN > 2;'),
                          ('parenthesised', 'int par = (GN);'), ('unary', 'int neg = -GN;'), ('string_index', 'byte ch = "hello"[GN];'),
                          ('nested_literal_length', 'int cnt = [GN, GN, GN].length;')):
            yield f'global/mentions_global/{tag}', pre + decl + '\nempty @is_you() { }\n', True, ''
        # a call stays a call whatever it is wrapped in
        for tag, decl in (('negated', 'int bad = -ord(1);'), ('cast_to_int', 'int bad = ord(1) is int;'), ('cast_to_byte', "byte bad = ord(65) is byte;"),
                          ('cast_to_bool_under_not', 'bool bad = not (ord(1) is bool);'), ('parenthesised', 'int bad = (ord(1));'), ('in_arithmetic', 'int bad = 1 + ord(1) * 2;'),
                          ('in_comparison', 'bool bad = ord(1) < 2;'), ('as_index', 'int bad = [10, 20, 30][ord(1)];'), ('indexed_literal_item', 'int bad = [ord(1)][0];'),
                          ('string_index', 'byte bad = "abc"[ord(1)];'), ('length_of_literal_with_call', 'int bad = [ord(1), 2].length;'),
                          ('array_length_cast', 'int bad[ord(3) is int];'), ('array_length_arithmetic', 'int bad[ord(3) + 1];'), ('logic', 'bool bad = true and (ord(1) is bool);'),
                          ('cast_chain', 'int bad = (ord(1) is byte) is int;'), ('literal_item_cast', 'byte[] bad = [ord(65) is byte];')):
            yield f'global/wrapped_call/{tag}', pre + decl + '\nempty @is_you() { }\n', False, 'globals are initialised without calls'
        # handlers (like else) take any block statement (if / while / for / try), not only a braced block
        dd = 'empty !want(int a, int b) { !truth_is_defeat(a != b); }\n'
        for tag, body in (('undo_try_chain', 'try { !want(n, 1); write(1); } undo try { !want(n, 2); write(2); } undo { write(3); }'),
                          ('stop_if', 'try { !want(n, 1); } stop if (n == 2) { write(2); }'), ('undo_if_else', 'try { !want(n, 1); } undo if (n == 2) { write(2); } else { write(3); }'),
                          ('undo_while', 'try { !want(n, 1); } undo while (n > 5) { n -= 1; }'), ('stop_for', 'try { !want(n, 1); } stop for (int i = 0; i < 2; i += 1) { write(i); }'),
                          ('stop_try_stop', 'try { !want(n, 1); } stop try { !want(n, 2); } stop { write(4); }'),
                          ('undo_block_in_loop', 'for (int i = 0; i < 3; i += 1) { try { !want(i, n); } undo if (i == 2) { break; } }')):
            yield f'global/unbraced_handler/{tag}', HELPERS + dd + 'empty @is_you(int n) { ' + body + ' }\n', True, ''
        for tag, body in (('undo_preempt', 'try { !want(n, 1); } undo preempt { write(1); }'), ('stop_if_defeat_call', 'try { !want(n, 1); } stop if (n > 1) { !want(n, 2); }'),
                          ('undo_if_break_outside_loop', 'try { !want(n, 1); } undo if (n > 1) { break; }')):
            yield f'global/unbraced_handler/{tag}', HELPERS + dd + 'empty @is_you(int n) { ' + body + ' }\n', False, 'handler context'
        # a flavoured name that is not called is not an expression, wherever it stands (also in statements that are never reached)
        for tag, body in (('you_name_statement', 'write(1); return; @you;'), ('you_name_argument', 'write(ord(@you));'), ('defeat_name_in_try', 'try { !dft; } undo { }'),
                          ('you_name_assigned', 'int q = @you;'), ('you_name_after_infinite_loop', 'while (true) { } @you;'), ('defeat_name_statement', 'return; !dft;'),
                          ('you_name_indexed', 'write(arr[@you]);'), ('you_name_in_condition', 'if (@you) { }')):
            yield f'global/bare_flavoured_name/{tag}', HELPERS + 'empty @is_you(int n) { ' + body + ' }\n', False, 'a flavoured identifier can only be called'
        # the flavour is part of a function's name: namesakes of different flavour (also of builtins) are distinct functions
        yield ('global/namesakes/three_flavours', 'int f(int k) { return k; }\nint !f(int k) { !truth_is_defeat(k == 1); return k + 1; }\nint @f(int k) { return k + 2; }\n'
               'empty @is_you(int n) { write(f(n)); write(@f(n)); try { write(!f(n)); } undo { } }\n', True, '')
        yield ('global/namesakes/two_flavours_different_order', 'empty !g(int k) { !truth_is_defeat(k == 1); }\nempty g(int k) { write(k); }\n'
               'empty @is_you(int n) { g(n); try { !g(n); } undo { } }\n', True, '')
        yield ('global/namesakes/unflavoured_builtin_names', 'empty is_defeat() { write(1); }\nempty truth_is_defeat(bool b) { write(b); }\nempty is_you() { write(2); }\n'
               'empty @is_you(int n) { is_defeat(); truth_is_defeat(n > 1); is_you(); }\n', True, '')
        yield ('global/namesakes/flavoured_builtin_names', 'empty @write(int k) { write(k); }\nempty !sleep(int k) { sleep(k); !truth_is_defeat(k == 1); }\n'
               'empty @is_you(int n) { @write(n); try { !sleep(n); } undo { } }\n', True, '')
        for tag, decl in (('call_with_global_argument', 'int bad = ord(GN);'), ('call_in_length_with_global', 'int bad[ord(GN)];'),
                          ('call_in_item_next_to_global', 'int[] bad = [GN, ord(1)];'), ('you_call', 'int bad = @you(GN);'), ('defeat_call', 'int bad = !dft(GN);')):
            yield f'global/mentions_global/{tag}', pre + decl + '\nempty @is_you() { }\n', False, 'globals are initialised without calls'
