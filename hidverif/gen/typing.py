"""Typing workload for C07: providers (expressions with a known static type),
target positions, the documented coercion rules implemented independently of
hidc, single ill-typing mutations, and overload sets whose members print a
unique tag."""
import itertools

PRELUDE = r'''
int giv = 3;
const int[] gcia = [1, 2, 3];
int[] gia = [4, 5, 6];
empty show(string s) { write(s); write(';'); }
'''

# locals available in every test body
LOCALS = r'''
    int iv = 7; byte bv = 'b'; bool fv = true; string sv = "str";
    const int ci = 5; const byte cb = 'c'; const bool cf = false; const string cs = "k";
    int[] ia = [1, 2, 3]; const int[] cia = [iv, 2, 3]; byte[] ba = ['x', 'y']; const byte[] cba = [bv, 'z'];
    bool[] fa = [true, false]; string[] sa = ["p", "q"]; const string[] csa = [sv, "r"];
'''

INT, BYTE, BOOL, STRING = 'int', 'byte', 'bool', 'string'


def arr(el, const):
    return ('arr', el, const)


def tname(t):
    if isinstance(t, tuple):
        return ('const ' if t[2] else '') + t[1] + '[]'
    return t


class P:
    """provider: text, static type as hidc sees it, byte-coercible int?, array literal element providers"""
    def __init__(self, name, text, t, shrink=False, lit=None, const_scalar=False, locked=None):
        self.name, self.text, self.t, self.shrink, self.lit, self.const_scalar = name, text, t, shrink, lit, const_scalar
        self.locked = locked


SCALARS = [
    P('int_var', 'iv', INT), P('int_lit', '5', INT, shrink=True), P('int_lit_hex', '0x41', INT, shrink=True),
    P('neg_lit', '-1', INT, shrink=True), P('arith_lits', '1 + 2 * 3', INT, shrink=True),
    P('arith_bytes', 'bv + bv', INT, shrink=True), P('arith_byte_lit', 'bv - 1', INT, shrink=True),
    P('arith_int', 'iv + 1', INT), P('arith_int_byte', 'iv * bv', INT), P('unary_byte', '-bv', INT, shrink=True),
    P('unary_int', '-iv', INT), P('const_int', 'ci', INT), P('global_int', 'giv', INT),
    P('arith_const_int', 'ci + 1', INT), P('arith_const_ints', 'ci * 2 - ci', INT), P('neg_const_int', '-ci', INT),
    P('arith_cast_const', '(cb is int) + 1', INT),
    P('pos_const_int', '+ci', INT), P('pos_cast_const', '+(cb is int)', INT), P('pos_lit', '+5', INT, shrink=True), P('pos_int', '+iv', INT), P('pos_byte', '+bv', INT, shrink=True),
    P('const_plus_zero', 'ci + 0', INT), P('const_times_one', 'ci * 1', INT), P('paren_const', '(ci)', INT), P('neg_neg_const', '- -ci', INT), P('pos_neg_const', '+-ci', INT),
    P('byte_as_int', 'bv is int', INT), P('bool_as_int', 'fv is int', INT), P('len', 'ia.length', INT),
    P('elem_int', 'ia[1]', INT), P('call_int', 'mk_int()', INT),
    P('byte_var', 'bv', BYTE), P('char_lit', "'a'", BYTE), P('const_byte', 'cb', BYTE), P('int_as_byte', 'iv is byte', BYTE),
    P('bool_as_byte', 'fv is byte', BYTE), P('str_elem', 'sv[0]', BYTE), P('elem_byte', 'ba[0]', BYTE), P('call_byte', 'mk_byte()', BYTE),
    P('bool_var', 'fv', BOOL), P('bool_lit', 'true', BOOL), P('const_bool', 'cf', BOOL), P('compare', 'iv < 3', BOOL),
    P('equal_bools', 'fv == cf', BOOL), P('logic', 'fv and not cf or iv > 1', BOOL), P('int_as_bool', 'iv is bool', BOOL),
    P('str_as_bool', 'sv is bool', BOOL), P('arr_as_bool', 'ia is bool', BOOL), P('elem_bool', 'fa[0]', BOOL), P('call_bool', 'mk_bool()', BOOL),
    P('str_var', 'sv', STRING), P('str_lit', '"lit"', STRING), P('const_str', 'cs', STRING), P('elem_str', 'sa[1]', STRING),
    P('call_str', 'mk_str()', STRING),
]
BY_NAME = {p.name: p for p in SCALARS}

ARRAYS = [
    P('int_arr', 'ia', arr(INT, False)), P('const_int_arr', 'cia', arr(INT, True)), P('global_const_int_arr', 'gcia', arr(INT, True)),
    P('global_int_arr', 'gia', arr(INT, False)),
    P('byte_arr', 'ba', arr(BYTE, False)), P('const_byte_arr', 'cba', arr(BYTE, True)),
    P('bool_arr', 'fa', arr(BOOL, False)), P('str_arr', 'sa', arr(STRING, False)), P('const_str_arr', 'csa', arr(STRING, True)),
    P('str_as_bytes', 'sv is byte[]', arr(BYTE, True)),
    P('lit_ints', '[1, 2]', arr(INT, True), lit=['int_lit', 'int_lit']),
    P('lit_int_var', '[iv, 2]', arr(INT, True), lit=['int_var', 'int_lit']),
    P('lit_byte_first', '[bv, 1]', arr(BYTE, True), lit=['byte_var', 'int_lit']),
    P('lit_int_first', '[1, bv]', arr(INT, True), lit=['int_lit', 'byte_var']),
    P('lit_chars', "['a', 'b']", arr(BYTE, True), lit=['char_lit', 'char_lit']),
    P('lit_bools', '[true, fv]', arr(BOOL, True), lit=['bool_lit', 'bool_var']),
    P('lit_strs', '["a", sv]', arr(STRING, True), lit=['str_lit', 'str_var']),
    P('lit_calls', '[mk_int(), iv + 1]', arr(INT, True), lit=['call_int', 'arith_int']),
    # an array literal that went through an explicit cast keeps its const flexibility but no longer changes element type
    P('lit_cast_to_bytes', '[1, 2] is byte[]', arr(BYTE, True), lit=['int_lit', 'int_lit'], locked=BYTE),
    P('lit_cast_to_ints', "['a', bv] is int[]", arr(INT, True), lit=['char_lit', 'byte_var'], locked=INT),
    P('lit_cast_to_bools', '[iv, 0] is bool[]', arr(BOOL, True), lit=['int_var', 'int_lit'], locked=BOOL),
]
ALL = SCALARS + ARRAYS
BY_NAME.update({p.name: p for p in ARRAYS})
TYPES = [INT, BYTE, BOOL, STRING, arr(INT, False), arr(INT, True), arr(BYTE, False), arr(BYTE, True), arr(BOOL, False),
         arr(BOOL, True), arr(STRING, False), arr(STRING, True)]


# ------------------------------------- documented coercion rules (README "Types")
def coercible(p, t, position='arg'):
    """may provider p appear where type t is required?  position: 'arg' (function argument), 'bind' (declaration), 'value' (assignment / return / element)"""
    if p.lit is not None:
        # array literal: coercible to any array type all entries can be coerced to, const-flexible
        if not isinstance(t, tuple):
            return False
        if p.locked is not None:
            return t[1] == p.locked
        return all(coercible(BY_NAME[e], t[1], 'value') for e in p.lit)
    if p.t == t:
        return True
    if isinstance(p.t, tuple):
        if isinstance(t, tuple) and p.t[1] == t[1] and not p.t[2] and t[2]:
            return 'arg' if position == 'arg' else None      # T[] -> const T[] is documented for arguments only
        return False
    if isinstance(t, tuple):
        return p.t == STRING and t == arr(BYTE, True)        # string -> const byte[]
    if p.t == BYTE and t == INT:
        return True
    if p.t == INT and t == BYTE:
        return p.shrink
    return False


HELPERS = r'''
int mk_int() { return 1; }
byte mk_byte() { return 'm'; }
bool mk_bool() { return false; }
string mk_str() { return "mk"; }
'''


def program(body, extra_funcs='', ret='empty'):
    return PRELUDE + HELPERS + extra_funcs + 'empty @is_you() {' + LOCALS + body + '\n}\n'


def positive_and_negative_coercions():
    """yield (tag, source, expected_accept or None when the documentation does not decide)"""
    for p in ALL:
        for t in TYPES:
            tn = tname(t)
            ok_arg = coercible(p, t, 'arg')
            ok_bind = coercible(p, t, 'bind')
            ok_val = coercible(p, t, 'value')
            base = tn.replace('const ', '').replace('[]', '')
            # function argument
            f = f'empty take({tn} p) {{ }}\n'
            yield f'arg/{p.name}->{tn}', program(f'\n    take({p.text});', f), bool(ok_arg)
            # declaration
            if isinstance(t, tuple):
                yield f'decl/{p.name}->{tn}', program(f'\n    {tn} nv = {p.text};'), (None if ok_bind is None else bool(ok_bind))
            else:
                yield f'decl/{p.name}->{tn}', program(f'\n    {tn} nv = {p.text};'), bool(ok_bind)
                yield f'constdecl/{p.name}->{tn}', program(f'\n    const {tn} nv = {p.text};'), bool(ok_bind)
                # assignment to a variable / array element of that type, return, array literal element
                yield f'assign/{p.name}->{tn}', program(f'\n    {tn} tv = {DEFAULT[t]}; tv = {p.text};'), bool(ok_val)
                yield f'elem_assign/{p.name}->{tn}', program(f'\n    {tn} ta[2]; ta[1] = {p.text};'), bool(ok_val)
                yield f'return/{p.name}->{tn}', program('', f'{tn} retf() {{' + LOCALS + f' return {p.text}; }}\n'), bool(ok_val)
                yield f'lit_elem/{p.name}->{tn}', program(f'\n    {tn}[] la = [{DEFAULT[t]}, {p.text}];'), bool(ok_val)
                yield f'global/{p.name}->{tn}', None, None


DEFAULT = {INT: '0', BYTE: "'d'", BOOL: 'false', STRING: '"d"'}


def operator_cases():
    """operators accept exactly their documented operand types"""
    num = lambda p: p.t in (INT, BYTE) and p.lit is None            # noqa: E731
    for p in SCALARS + ARRAYS[:6]:
        for op in ('+', '-', '*', '/', '%'):
            yield f'arith/{op}/{p.name}', program(f'\n    int r = ({p.text}) {op} 3;'), num(p)
            yield f'arith_r/{op}/{p.name}', program(f'\n    int r = 30 {op} ({p.text});'), num(p)
        for op in ('<', '<=', '>', '>='):
            yield f'compare/{op}/{p.name}', program(f'\n    bool r = ({p.text}) {op} 3;'), num(p)
        yield f'neg/{p.name}', program(f'\n    int r = -({p.text});'), num(p)
        yield f'pos/{p.name}', program(f'\n    int r = +({p.text});'), num(p)
        yield f'index_by/{p.name}', program(f'\n    int r = ia[{p.text}];'), num(p)
        yield f'vla_len/{p.name}', program(f'\n    int nv[{p.text}];'), num(p)
        yield f'opassign/{p.name}', program(f'\n    iv += {p.text};'), num(p)
        yield f'length_of/{p.name}', program(f'\n    int r = ({p.text}).length;'), (isinstance(p.t, tuple) or p.t == STRING)
        yield f'index_of/{p.name}', program(f'\n    write(({p.text})[0] is bool);') if False else None, None
        for q in SCALARS[:1] + [BY_NAME['byte_var'], BY_NAME['bool_var'], BY_NAME['str_var'], BY_NAME['int_arr']]:
            both_bool = p.t == BOOL and q.t == BOOL
            both_num = num(p) and num(q)
            yield f'equal/{p.name}=={q.name}', program(f'\n    bool r = ({p.text}) == ({q.text});'), both_bool or both_num
        # ?? : left must be byte/int/bool, right coercible to the left type
        for q in (BY_NAME['int_var'], BY_NAME['int_lit'], BY_NAME['byte_var'], BY_NAME['bool_var'], BY_NAME['str_var'], BY_NAME['int_arr']):
            ok = p.t in (INT, BYTE, BOOL) and p.lit is None and not isinstance(q.t, tuple) and bool(coercible(q, p.t, 'value'))
            yield f'spec/{p.name}??{q.name}', program(f'\n    bool r = (({p.text}) ?? ({q.text})) is bool;'), ok
    # explicit casts (README "Allowed explicit type casts")
    for p in ALL:
        for t in (INT, BYTE, BOOL, STRING, 'byte[]', 'int[]', 'bool[]', 'string[]'):
            pt = p.t
            if p.lit is not None:
                if t.endswith('[]'):
                    el = t[:-2]
                    ok = all(castable(BY_NAME[e].t, el) for e in p.lit)
                else:
                    ok = t == BOOL
            elif isinstance(pt, tuple):
                ok = (t == BOOL) or (t.endswith('[]') and t[:-2] == pt[1])
            elif t.endswith('[]'):
                ok = pt == STRING and t == 'byte[]'
            else:
                ok = castable(pt, t)
            yield f'cast/{p.name} is {t}', program(f'\n    write((({p.text}) is {t}) is bool);'), ok


def castable(s, t):
    if s == t:
        return True
    return (s, t) in {(BYTE, INT), (BOOL, INT), (INT, BYTE), (BOOL, BYTE), (INT, BOOL), (BYTE, BOOL), (STRING, BOOL)}


MUTATIONS = [
    # (tag, body or full program, extra funcs): each breaks exactly one documented rule
    ('assign_const_scalar', '\n    ci = 2;', ''),
    ('opassign_const_scalar', '\n    ci += 2;', ''),
    ('assign_const_byte', "\n    cb = 'q';", ''),
    ('assign_const_string', '\n    cs = "q";', ''),
    ('assign_const_array_elem', '\n    cia[0] = 1;', ''),
    ('opassign_const_array_elem', '\n    cia[0] += 1;', ''),
    ('assign_global_const_array_elem', '\n    gcia[1] = 1;', ''),
    ('assign_const_param_elem', '', 'empty mutp(const int[] p) { p[0] = 1; }\n'),
    ('assign_const_bool_array_elem', '\n    const bool[] cfa = [fv, true]; cfa[0] = false;', ''),
    ('assign_const_string_array_elem', '\n    csa[0] = "n";', ''),
    ('assign_string_elem', "\n    sv[0] = 'b';", ''),
    ('opassign_string_elem', '\n    sv[0] += 1;', ''),
    ('assign_string_literal_elem', "\n    \"lit\"[0] = 'b';", ''),
    ('assign_array_variable', '\n    int[] other = [9]; ia = other;', ''),
    ('assign_to_call', '\n    mk_int() = 3;', ''),
    ('assign_to_literal', '\n    5 = iv;', ''),
    ('narrow_decl', '\n    byte nb = iv;', ''),
    ('narrow_assign', '\n    bv = iv;', ''),
    ('narrow_arith', '\n    bv = iv + 1;', ''),
    ('narrow_opassign', '\n    bv += iv;', ''),
    ('narrow_const_int', '\n    byte nb = ci;', ''),
    ('narrow_arg', '\n    takeb(iv);', 'empty takeb(byte b) { }\n'),
    ('narrow_return', '', 'byte narrow(int q) { return q; }\n'),
    ('narrow_elem', '\n    ba[0] = iv;', ''),
    ('narrow_array_literal', '\n    byte[] nb = [iv, 1];', ''),
    ('narrow_length', '\n    byte nb = ia.length;', ''),
    ('const_array_to_mutable_var', '\n    int[] m = cia;', ''),
    ('const_array_to_mutable_param', '\n    takem(cia);', 'empty takem(int[] m) { m[0] = 1; }\n'),
    ('global_const_array_to_mutable_param', '\n    takem(gcia);', 'empty takem(int[] m) { m[0] = 1; }\n'),
    ('string_to_mutable_bytes', '\n    takemb(sv);', 'empty takemb(byte[] m) { }\n'),
    ('string_bytes_view_to_mutable', '\n    byte[] mb = sv is byte[];', ''),
    ('arity_too_few', '\n    two(1);', 'empty two(int a, int b) { }\n'),
    ('arity_too_many', '\n    two(1, 2, 3);', 'empty two(int a, int b) { }\n'),
    ('arity_builtin', '\n    write(1, 2);', ''),
    ('arity_none', '\n    two();', 'empty two(int a, int b) { }\n'),
    ('arg_string_for_int', '\n    takei("s");', 'empty takei(int a) { }\n'),
    ('arg_bool_for_int', '\n    takei(true);', 'empty takei(int a) { }\n'),
    ('arg_int_for_bool', '\n    takef(1);', 'empty takef(bool a) { }\n'),
    ('arg_int_for_string', '\n    takes(1);', 'empty takes(string a) { }\n'),
    ('arg_int_for_array', '\n    takea(1);', 'empty takea(const int[] a) { }\n'),
    ('arg_array_for_int', '\n    takei(ia);', 'empty takei(int a) { }\n'),
    ('arg_wrong_elem_type', '\n    takea(ba);', 'empty takea(const int[] a) { }\n'),
    ('arg_bool_literal_array_for_int_array', '\n    takea([true]);', 'empty takea(const int[] a) { }\n'),
    ('write_array_of_ints', '\n    write(ia);', ''),
    ('sleep_string', '\n    sleep("1");', ''),
    ('return_value_from_empty', '', 'empty rv() { return 1; }\n'),
    ('missing_return_value', '', 'int rv() { return; }\n'),
    ('missing_return_statement', '', 'int rv(int q) { if (q > 0) { return 1; } }\n'),
    ('return_empty_call_from_empty', '', 'empty nothing() { }\nempty rv(int q) { if (q > 0) { return nothing(); } write(q); }\n'),
    ('return_builtin_call_from_empty', '', 'empty rv(int q) { return writeln("x"); }\n'),
    ('return_empty_call_in_loop', '', 'empty nothing() { }\nempty rv(int q) { while (q > 0) { return nothing(); } }\n'),
    ('return_empty_call_from_int', '', 'empty nothing() { }\nint rv(int q) { return nothing(); }\n'),
    ('return_string_for_int', '', 'int rv() { return "s"; }\n'),
    ('return_int_for_bool', '', 'bool rv() { return 1; }\n'),
    ('return_bool_for_int', '', 'int rv() { return true; }\n'),
    ('return_int_for_string', '', 'string rv() { return 1; }\n'),
    ('return_array', '', 'int rv(int[] a) { return a; }\n'),
    ('use_empty_result', '\n    int r = nothing();', 'empty nothing() { }\n'),
    ('use_empty_result_in_arith', '\n    int r = 1 + nothing();', 'empty nothing() { }\n'),
    ('write_empty_result', '\n    write(nothing());', 'empty nothing() { }\n'),
    ('undeclared_variable', '\n    iv = nope;', ''),
    ('undeclared_assign_target', '\n    nope = 1;', ''),
    ('undeclared_function', '\n    nofunc(1);', ''),
    ('call_a_variable', '\n    iv(1);', ''),
    ('use_before_declaration', '\n    later = 1; int later = 2;', ''),
    ('use_out_of_scope', '\n    { int inner = 1; } iv = inner;', ''),
    ('loop_variable_out_of_scope', '\n    for (int q = 0; q < 2; q += 1) { } iv = q;', ''),
    ('redeclare_same_scope', '\n    int dup = 1; int dup = 2;', ''),
    ('redeclare_other_type', '\n    int dup = 1; bool dup = true;', ''),
    ('shadow_local_in_block', '\n    int outer = 1; { int outer = 2; }', ''),
    ('shadow_local_in_loop', '\n    int outer = 1; for (int outer = 0; outer < 2; outer += 1) { }', ''),
    ('shadow_parameter', '', 'empty sp(int p) { int p = 1; }\n'),
    ('duplicate_parameter', '', 'empty dp(int p, bool p) { }\n'),
    ('redeclare_global', None, 'int giv = 9;\n'),
    ('redeclare_local_that_shadows_global', '\n    int giv = 1; int giv = 2;', ''),
    ('shadow_local_that_shadows_global', '\n    int giv = 1; { int giv = 2; }', ''),
    ('shadow_local_that_shadows_global_in_loop', '\n    int giv = 1; for (int giv = 0; giv < 2; giv += 1) { }', ''),
    ('array_redeclares_local_that_shadows_global', '\n    int giv = 1; int giv[4];', ''),
    ('local_redeclares_parameter_named_like_global', '', 'empty spg(int giv) { int giv = 1; }\n'),
    ('nested_local_redeclares_parameter_named_like_global', '', 'empty spg(int giv) { if (giv > 0) { bool giv = true; } }\n'),
    ('duplicate_parameter_named_like_global', '', 'empty dpg(int giv, bool giv) { }\n'),
    ('narrow_folded_const_arith', '\n    byte nb = ci + 1;', ''),
    ('narrow_folded_const_arith_assign', '\n    bv = ci * 2;', ''),
    ('narrow_folded_const_arith_opassign', '\n    bv += ci;', ''),
    ('narrow_folded_const_arith_arg', '\n    takeb(ci - 1);', 'empty takeb(byte b) { }\n'),
    ('narrow_folded_const_arith_elem', '\n    ba[0] = ci + ci;', ''),
    ('narrow_folded_const_arith_literal', '\n    byte[] nb = [ci + 1, 2];', ''),
    ('narrow_folded_const_global', None, 'const int gk = 7;\nbyte gnb = gk + 1;\n'),
    ('self_reference_in_initializer', '\n    int fresh = fresh + 1;', ''),
    ('self_reference_in_for_init', '\n    for (int k = k; k < 3; k += 1) { }', ''),
    ('self_reference_in_array_length', '\n    int arr2[arr2.length];', ''),
    ('self_reference_in_array_literal', '\n    int[] arr3 = [1, arr3[0]];', ''),
    ('self_reference_global', None, 'int gself = gself;\n'),
    ('self_reference_global_arithmetic', None, 'int gself2 = 1 + gself2;\n'),
    ('self_reference_narrowing_through_global_namesake', '\n    byte giv = giv;', ''),
    ('self_reference_mutable_alias_of_const_global', '\n    int[] gcia = gcia;', ''),
    ('self_reference_inner_scope_uses_outer_then_redeclares', '\n    { bool iv = iv; }', ''),
    # an operand that is never evaluated is still type-checked
    ('ill_typed_right_of_constant_false_and', '\n    bool q = cf and nosuch;', ''),
    ('ill_typed_right_of_literal_false_and', '\n    if (false and nofunc(1)) { }', ''),
    ('ill_typed_right_of_true_or', '\n    bool q = true or (iv + "s") > 1;', ''),
    ('ill_typed_right_of_not_false_or', '\n    bool q = not cf or takeb(iv);', 'bool takeb(byte b) { return true; }\n'),
    ('wrong_arity_right_of_constant_false_and', '\n    if (cf and two(1)) { }', 'bool two(int a, int b) { return true; }\n'),
    ('empty_operand_right_of_constant_false_and', '\n    if (cf and nothing()) { }', 'empty nothing() { }\n'),
    ('nested_array_right_of_true_or', '\n    bool q = true or [ia, ia].length > 0;', ''),
    ('ill_typed_in_if_false', '\n    if (false) { iv = "s"; }', ''),
    ('ill_typed_in_while_false', '\n    while (cf) { nofunc(); }', ''),
    ('ill_typed_in_dead_speculation_operand', '\n    int q = 1 ?? nosuch;', ''),
    ('duplicate_signature', None, 'int mk_int() { return 2; }\n'),
    ('duplicate_signature_other_return', None, 'bool mk_int() { return true; }\n'),
    ('redefine_builtin', None, 'empty write(int x) { }\n'),
    ('nested_array_literal', '\n    int r = [[1], [2]].length;', ''),
    ('nested_array_in_literal', '\n    int r = [ia, ia].length;', ''),
    ('array_literal_of_empty_calls', '\n    int r = [nothing()].length;', 'empty nothing() { }\n'),
    ('array_literal_mixed', '\n    int r = [1, "s"].length;', ''),
    ('array_literal_mixed_bool', '\n    int r = [true, 1].length;', ''),
    ('const_vla', '\n    const int cv[3];', ''),
    ('array_of_empty', '\n    empty ev[3];', ''),
    ('variable_of_empty', '\n    empty ev = nothing();', 'empty nothing() { }\n'),
    ('arith_on_bool', '\n    int r = fv + 1;', ''),
    ('arith_on_string', '\n    int r = sv + 1;', ''),
    ('concat_strings', '\n    string r = sv + sv;', ''),
    ('negate_bool', '\n    int r = -fv;', ''),
    ('compare_bools', '\n    bool r = fv < cf;', ''),
    ('compare_strings', '\n    bool r = sv < sv;', ''),
    ('equal_strings', '\n    bool r = sv == sv;', ''),
    ('equal_int_bool', '\n    bool r = iv == fv;', ''),
    ('equal_arrays', '\n    bool r = ia == ia;', ''),
    ('spec_on_string', '\n    string r = sv ?? sv;', ''),
    ('spec_on_array', '\n    int r = (ia ?? ia).length;', ''),
    ('spec_type_mismatch', '\n    int r = iv ?? fv;', ''),
    ('length_of_int', '\n    int r = iv.length;', ''),
    ('length_of_bool', '\n    int r = fv.length;', ''),
    ('index_int', '\n    int r = iv[0];', ''),
    ('index_bool', '\n    bool r = fv[0];', ''),
    ('index_with_bool', '\n    int r = ia[fv];', ''),
    ('index_with_string', '\n    int r = ia["0"];', ''),
    ('vla_length_bool', '\n    int nv[fv];', ''),
    ('vla_length_string', '\n    int nv["3"];', ''),
    ('cast_string_to_int', '\n    int r = sv is int;', ''),
    ('cast_string_to_byte', '\n    byte r = sv is byte;', ''),
    ('cast_int_to_string', '\n    string r = iv is string;', ''),
    ('cast_bool_to_string', '\n    string r = fv is string;', ''),
    ('cast_array_to_int', '\n    int r = ia is int;', ''),
    ('cast_int_array_to_byte_array', '\n    write((ia is byte[]).length);', ''),
    ('cast_int_to_array', '\n    write((iv is int[]).length);', ''),
    ('cast_to_empty', '\n    write((iv is empty) is bool);', ''),
    ('condition_empty', '\n    if (nothing()) { }', 'empty nothing() { }\n'),
    ('not_empty', '\n    bool r = not nothing();', 'empty nothing() { }\n'),
    ('opassign_bool', '\n    fv += true;', ''),
    ('opassign_string', '\n    sv += "x";', ''),
    ('opassign_array', '\n    ia += 1;', ''),
    ('opassign_bool_elem', '\n    fa[0] += 1;', ''),
    ('break_is_not_expression', '\n    iv = break;', ''),
]


def mutation_cases():
    for tag, body, extra in MUTATIONS:
        if body is None:
            yield tag, PRELUDE + HELPERS + extra + 'empty @is_you() {' + LOCALS + '\n}\n'
        else:
            yield tag, program(body, extra)


# ------------------------------------------------------------- overloads
OVER_PARAMS = [INT, BYTE, BOOL, STRING, arr(BYTE, True), arr(BYTE, False), arr(INT, True), arr(INT, False), arr(STRING, True)]


def resolve(overloads, provs):
    """documented rule: the overload with exactly matching parameter types if there is one, otherwise the first
    declared overload every argument can be coerced to.  overloads: list of tuples of types.  Returns index, None
    (no match) or 'undecided'."""
    sig = tuple(p.t for p in provs)
    for i, o in enumerate(overloads):
        if len(o) == len(provs) and tuple(o) == sig and all(p.lit is None or True for p in provs):
            return i
    for i, o in enumerate(overloads):
        if len(o) != len(provs):
            continue
        oks = [coercible(p, t, 'arg') for p, t in zip(provs, o)]
        if all(x for x in oks):
            return i
    return None


def overload_program(overloads, calls, caller_at=None):
    """overloads: list of param-type tuples; calls: list of provider tuples.
    caller_at=k: the calling function is declared after the first k overloads (textually between them)"""
    fs = []
    for i, o in enumerate(overloads):
        ps = ', '.join(f'{tname(t)} p{k}' for k, t in enumerate(o))
        fs.append(f'empty over({ps}) {{ show("o{i}"); }}\n')
    body = ''.join(f'\n    over({", ".join(p.text for p in c)});' for c in calls)
    if caller_at is None:
        return program(body, ''.join(fs))
    main = 'empty @is_you() {' + LOCALS + body + '\n}\n'
    return PRELUDE + HELPERS + ''.join(fs[:caller_at]) + main + ''.join(fs[caller_at:])


# ------------------------------------------------------------- return paths
def return_cases():
    """value-returning functions whose body can / cannot complete without returning: every loop kind, exit statement and
    handler shape.  yields (tag, source, must_accept).  A body that can complete for SOME input must be rejected; the
    accepted counterparts differ from a rejected one in exactly the construct that closes the gap."""
    dz = 'int !dz(int k) { !truth_is_defeat(k == 1); return k; }\n'
    cases = [
        # --- must be rejected: the end of the body is reachable
        ('loop_may_not_run_while', 'int rv(int q) { while (q > 0) { return 1; } }', False),
        ('loop_may_not_run_for', 'int rv(int q) { for (int i = 0; i < q; i += 1) { return i; } }', False),
        ('loop_body_returns_on_both_arms', 'int rv(int q) { while (q > 0) { if (q > 1) { return 1; } else { return 2; } } }', False),
        ('loop_continue_then_return', 'int rv(int q) { while (q > 0) { q -= 1; if (q == 2) { continue; } return q; } }', False),
        ('infinite_loop_with_break', 'int rv(int q) { while (true) { if (q > 0) { break; } return 1; } }', False),
        ('infinite_for_with_break', 'int rv(int q) { for (;;) { if (q > 0) { break; } q += 1; } }', False),
        ('infinite_loop_with_nested_break', 'int rv(int q) { while (true) { { if (q > 0) { { break; } } } return 1; } }', False),
        ('if_without_else', 'int rv(int q) { if (q > 0) { return 1; } }', False),
        ('if_with_empty_else', 'int rv(int q) { if (q > 0) { return 1; } else { } }', False),
        ('else_only', 'int rv(int q) { if (q > 0) { } else { return 1; } }', False),
        ('nested_block_if', 'int rv(int q) { { if (q > 0) { return 1; } } }', False),
        ('constant_false_while', 'int rv(int q) { while (false) { return 1; } }', False),
        ('constant_false_for', 'int rv(int q) { for (; false; ) { return 1; } }', False),
        ('folded_false_while', 'int rv(int q) { while (1 > 2) { return 1; } }', False),
        ('loop_then_nothing', 'int rv(int q) { while (q > 0) { q -= 1; } }', False),
        ('empty_body', 'int rv(int q) { }', False),
        ('only_a_call', 'int rv(int q) { write(q); }', False),
        ('inner_infinite_loop_left_by_break_of_outer', 'int rv(int q) { while (q > 0) { while (true) { return 1; } } }', False),
        ('stop_handler_falls_through', dz + 'int @rv(int q) { try { return !dz(q); } stop { } }', False),
        ('stop_handler_writes', dz + "int @rv(int q) { try { return !dz(q); } stop { write('x'); } }", False),
        ('undo_handler_falls_through', dz + 'int @rv(int q) { try { return !dz(q); } undo { } }', False),
        ('try_body_falls_through', dz + 'int @rv(int q) { try { !dz(q); } stop { return 0; } }', False),
        ('try_statement_defeat_handler_falls', "int @rv(int q) { try { !truth_is_defeat(q == 1); return 2; } stop { write('x'); } }", False),
        ('try_in_loop_break', dz + 'int @rv(int q) { while (true) { try { return !dz(q); } stop { break; } } }', False),
        ('preempt_only_return', 'int !rv(int q) { preempt { return 1; } }', False),
        # --- must be accepted: no path reaches the end
        ('ok_infinite_while_returning', 'int rv(int q) { while (true) { if (q > 0) { return 1; } q += 1; } }', True),
        ('ok_infinite_for_returning', 'int rv(int q) { for (;;) { q += 1; if (q > 9) { return q; } } }', True),
        ('ok_infinite_loop_continue', 'int rv(int q) { while (true) { q += 1; if (q < 9) { continue; } return q; } }', True),
        ('ok_if_else_both_return', 'int rv(int q) { if (q > 0) { return 1; } else { return 2; } }', True),
        ('ok_nested_if_else', 'int rv(int q) { if (q > 0) { if (q > 1) { return 1; } else { return 2; } } else { return 3; } }', True),
        ('ok_return_after_loop', 'int rv(int q) { while (q > 0) { return 1; } return 0; }', True),
        ('ok_return_after_if', 'int rv(int q) { if (q > 0) { return 1; } return 0; }', True),
        ('ok_empty_infinite_loop', 'int rv(int q) { while (true) { } }', True),
        ('ok_terminal_call', 'int rv(int q) { if (q > 0) { return 1; } all_is_win(); }', True),
        ('ok_terminal_broken', 'int rv(int q) { all_is_broken(); }', True),
        ('ok_inner_break_binds_inner', 'int rv(int q) { while (true) { while (q > 0) { break; } return 1; } }', True),
        ('ok_block_return', 'int rv(int q) { { return 1; } }', True),
        ('ok_try_both_return', dz + 'int @rv(int q) { try { return !dz(q); } stop { return 0; } }', True),
        ('ok_try_undo_both_return', dz + 'int @rv(int q) { try { return !dz(q); } undo { return 0; } }', True),
        ('ok_try_then_return', dz + "int @rv(int q) { try { return !dz(q); } stop { write('x'); } return 5; }", True),
        ('ok_defeat_ends_function', 'int !rv(int q) { if (q > 0) { return 1; } !is_defeat(); }', True),
        ('ok_empty_function_may_fall', "empty rv(int q) { if (q > 0) { write('x'); } }", True),
        ('ok_empty_function_loop', 'empty rv(int q) { while (q > 0) { return; } }', True),
        # user overloads of the terminal builtins' names return like any other function
        ('overload_all_is_broken_is_not_terminal', 'empty all_is_broken(bool b) { write(b); }\nint rv(int q) { all_is_broken(true); }', False),
        ('overload_all_is_win_is_not_terminal', 'empty all_is_win(int code) { write(code); }\nint rv(int q) { if (q > 0) { return 1; } all_is_win(3); }', False),
        ('overload_is_defeat_is_not_terminal', 'empty !is_defeat(bool cond) { !truth_is_defeat(cond); }\nint !rv(int q) { !is_defeat(q == 1); }', False),
        ('ok_overload_then_return', 'empty all_is_broken(bool b) { write(b); }\nint rv(int q) { all_is_broken(true); return q; }', True),
        ('ok_statement_after_overload_is_reachable', 'empty all_is_win(int code) { write(code); }\nempty rv(int q) { all_is_win(3); write(q); }', True),
    ]
    for tag, fsrc, ok in cases:
        you = '@rv' in fsrc
        defeat = '!rv' in fsrc
        call = 'write(@rv(iv));' if you else ('try { write(!rv(iv)); } undo { }' if defeat else ('rv(iv);' if fsrc.split('rv(')[0].strip().endswith('empty') or fsrc.startswith('empty') else 'write(rv(iv));'))
        yield 'returns/' + tag, program('\n    ' + call, fsrc + '\n'), ok


# ------------------------------------------------- no-op spellings of a provider
def spelling_variants():
    """the same value under a spelling that changes neither value nor static type: parentheses, and a cast of an array
    variable to its own element type.  Acceptance in any position must not depend on the spelling (this also covers the
    positions the documentation leaves undecided, such as `const T[] c = <mutable array variable>`).
    yields (tag, source with the plain spelling, source with the variant)"""
    for p in ALL:
        variants = [('parenthesised', f'({p.text})')]
        if isinstance(p.t, tuple) and p.lit is None and p.name != 'str_as_bytes':
            variants.append(('cast to its own type', f'{p.text} is {p.t[1]}[]'))
            variants.append(('parenthesised cast to its own type', f'(({p.text}) is {p.t[1]}[])'))
        elif not isinstance(p.t, tuple) and p.t != STRING and not p.shrink:
            variants.append(('cast to its own type', f'({p.text}) is {p.t}'))
        for t in TYPES:
            tn = tname(t)
            f = f'empty take({tn} p) {{ }}\n'
            forms = [('arg', lambda x: program(f'\n    take({x});', f)), ('decl', lambda x: program(f'\n    {tn} nv = {x};'))]
            if not isinstance(t, tuple):
                forms.append(('assign', lambda x: program(f'\n    {tn} tv = {DEFAULT[t]}; tv = {x};')))
                forms.append(('return', lambda x: program('', f'{tn} retf() {{' + LOCALS + f' return {x}; }}\n')))
            for fn, mk in forms:
                for vn, vt in variants:
                    yield f'{fn}/{p.name}->{tn}/{vn}', mk(p.text), mk(vt)


# ------------------------------------------------- builtins: arity and user overloads
def builtin_cases():
    """every builtin called with too few / too many arguments (rejected), and user-defined overloads of builtin names with
    signatures the library does not have (accepted, and distinct from the builtins).  yields (tag, source, must_accept)"""
    bad_calls = ['write();', 'write(1, 2);', 'writeln(1, 2);', 'writeln(1, 2, 3);', 'sleep();', 'sleep(1, 2);', 'debug(1);', 'progress(1);', 'all_is_win(1);',
                 'all_is_broken(1, 2);', 'try { !is_defeat(1); } undo { }', 'try { !truth_is_defeat(); } undo { }', 'try { !truth_is_defeat(true, false); } undo { }',
                 'write(ia, 1);', 'writeln(sv, sv);']
    for c in bad_calls:
        yield f'builtins/arity/{c}', program('\n    ' + c), False
    good = [
        ('own_write_no_args', 'empty write() { show("mine"); }\n', 'write(); write(1);'),
        ('own_write_two_args', 'empty write(int a, int b) { write(a); write(b); }\n', 'write(1, 2); write(3);'),
        ('own_writeln_pair', "empty writeln(string a, string b) { write(a); write(' '); writeln(b); }\n", 'writeln("a", "b"); writeln("c"); writeln();'),
        ('own_sleep_no_args', 'empty sleep() { sleep(1); }\n', 'sleep(); sleep(2);'),
        ('own_debug_with_arg', 'empty debug(int k) { write(k); debug(); }\n', 'debug(5); debug();'),
        ('own_all_is_win_with_arg', 'empty all_is_win(string why) { write(why); }\n', 'all_is_win("not yet"); write(1);'),
        ('own_write_of_int_array', 'empty write(const int[] a) { for (int i = 0; i < a.length; i += 1) { write(a[i]); } }\n', 'write(ia); write(cia); write(ba);'),
    ]
    for tag, extra, body in good:
        yield f'builtins/overload/{tag}', program('\n    ' + body, extra), True
