"""Targeted fault workload for C05: every faulting operator x element type x
storage class x access form, with the operand supplied on the command line so
that nothing is folded.  Programs are GenAST, so RefInt is the oracle."""
from ..model.ast import *  # noqa: F401,F403

W = lambda *a: ExprStmt(Call('write', list(a)))  # noqa: E731


def _mark(c):
    return W(Lit(BYTE, ord(c)))


def _val(el, k):
    if el == INT: return Lit(INT, 100 + k)
    if el == BYTE: return Lit(BYTE, 65 + k)
    if el == BOOL: return Lit(BOOL, k % 2 == 0)
    return Lit(STRING, bytes([97 + k]) * (k + 1))


def _show(e):
    return [W(e), _mark(' ')]


ARG = Var('v', Arr(INT, True))


def arg(k):
    return Index(ARG, Lit(INT, k, keep=True))


def index_programs(length=5, idx_lit=None):
    """yield (tag, Program, length).  All take `const int[] v`; v[0] is the index, unless idx_lit is
    given: then the index is that integer literal (a compile-time constant the compiler may reason about)."""
    arg = (lambda k: Lit(INT, idx_lit)) if idx_lit is not None else globals()['arg']
    for el in (INT, BYTE, BOOL, STRING):
        for storage in ('local_lit', 'local_const_lit', 'vla', 'global', 'global_const', 'param', 'param_const', 'temp_lit'):
            for form in ('read', 'assign', 'opassign', 'read_then_more', 'read_as_statement'):
                const = storage in ('local_const_lit', 'global_const', 'param_const', 'temp_lit')
                if form in ('assign', 'opassign') and const:
                    continue
                if form == 'opassign' and el not in (INT, BYTE):
                    continue
                if storage == 'temp_lit' and form not in ('read', 'read_as_statement'):
                    continue
                t = Arr(el, const)
                elems = [_val(el, k) for k in range(length)]
                for x in elems:
                    x.keep = True
                gl, pre = [], []
                a = Var('a', t)
                if storage in ('local_lit', 'local_const_lit'):
                    pre.append(Decl('a', t, ArrLit([_val(el, k) for k in range(length)], el, const)))
                elif storage == 'vla':
                    pre.append(VLA('a', el, Lit(INT, length)))
                    for k in range(length):
                        pre.append(Assign(Index(a, Lit(INT, k)), _val(el, k)))
                elif storage in ('global', 'global_const'):
                    gl.append(Decl('a', t, ArrLit(elems, el, const)))
                if storage == 'temp_lit':
                    target = Index(ArrLit([_val(el, k) for k in range(length)], el, True), arg(0))
                else:
                    target = Index(a, arg(0))
                body = [_mark('<')]
                if form == 'read':
                    body += _show(target)
                elif form == 'read_as_statement':
                    body += [ExprStmt(target), _mark('s')]                # evaluated for its fault only
                elif form == 'read_then_more':
                    body += [Decl('t', el, target)] + _show(Var('t', el)) + _show(Index(a if storage != 'temp_lit' else ArrLit([_val(el, 0)], el, True), Lit(INT, 0)))
                elif form == 'assign':
                    body += [Assign(target, _val(el, 7)), _mark('=')] + _show(Index(a, Lit(INT, 0))) + _show(Index(a, Lit(INT, length - 1)))
                else:
                    body += [OpAssign(target, '+', Lit(INT, 1) if el == INT else Lit(BYTE, 1)), _mark('=')] + _show(Index(a, Lit(INT, 0))) + _show(Index(a, Lit(INT, length - 1)))
                body.append(_mark('>'))
                if storage in ('param', 'param_const'):
                    f = Func('use', [('a', t, False), ('v', Arr(INT, True), False)], EMPTY, body)
                    main = Func('@is_you', [('v', Arr(INT, True), False)], EMPTY,
                                [Decl('src', Arr(el, False), ArrLit([_val(el, k) for k in range(length)], el, False)),
                                 ExprStmt(Call(f, [Var('src', Arr(el, False)), ARG])), _mark('!')])
                    funcs = [main, f]
                else:
                    main = Func('@is_you', [('v', Arr(INT, True), False)], EMPTY, pre + body + [_mark('!')])
                    funcs = [main]
                yield f'index/{el}/{storage}/{form}', Program(gl, funcs), length
    # strings
    for storage in ('literal', 'local', 'global', 'param', 'element'):
        s = Lit(STRING, b'hello')
        gl, pre = [], []
        if storage == 'literal':
            src = s
        elif storage == 'local':
            pre.append(Decl('s', STRING, s)); src = Var('s', STRING)
        elif storage == 'global':
            g = Lit(STRING, b'hello', keep=True)
            gl.append(Decl('s', STRING, g)); src = Var('s', STRING)
        elif storage == 'element':
            pre.append(Decl('ss', Arr(STRING, True), ArrLit([Lit(STRING, b'x'), s], STRING, True)))
            src = Index(Var('ss', Arr(STRING, True)), Lit(INT, 1))
        else:
            src = Var('s', STRING)
        body = [_mark('<')] + _show(Index(src, arg(0))) + [_mark('>')]
        if storage == 'param':
            f = Func('use', [('s', STRING, False), ('v', Arr(INT, True), False)], EMPTY, body)
            funcs = [Func('@is_you', [('v', Arr(INT, True), False)], EMPTY, [ExprStmt(Call(f, [s, ARG])), _mark('!')]), f]
        else:
            funcs = [Func('@is_you', [('v', Arr(INT, True), False)], EMPTY, pre + body + [_mark('!')])]
        yield f'index/string/{storage}/read', Program(gl, funcs), 5
    # string viewed as byte array
    body = [Decl('b', Arr(BYTE, True), Cast(Lit(STRING, b'hello'), Arr(BYTE, True))), _mark('<')] + _show(Index(Var('b', Arr(BYTE, True)), arg(0))) + [_mark('>'), _mark('!')]
    yield 'index/string/as_byte_array/read', Program([], [Func('@is_you', [('v', Arr(INT, True), False)], EMPTY, body)]), 5


def index_values(length, bits):
    hi = (1 << (bits - 1)) - 1
    lo = -(1 << (bits - 1))
    return [lo, lo + 1, -256, -8, -2, -1, 0, 1, length - 1, length, length + 1, 7, 8, 8 * length - 1, 8 * length, 255, 256, hi - 1, hi]


def division_programs(div_lit=None):
    """v[0] = dividend, v[1] = divisor (or the literal div_lit, written into the source, under a run-time dividend)"""
    for op in ('/', '%'):
        for form in ('guarded_then_unguarded', 'skipped_then_taken', 'both_in_one_statement', 'as_statement', 'as_statement_in_speculation', 'expr', 'expr_byte', 'opassign_var', 'opassign_byte_var', 'opassign_elem', 'opassign_byte_elem',
                     'opassign_global', 'in_condition', 'in_index', 'in_arg'):
            pre, gl = [], []
            main_params = [('v', Arr(INT, True), False)]
            a, b = arg(0), arg(1)
            if div_lit is not None:
                b = Lit(INT, div_lit, keep=True)
            body = [_mark('<')]
            if form in ('guarded_then_unguarded', 'skipped_then_taken', 'both_in_one_statement'):
                # operands held in plain local variables (what a compiler can reason about within one statement)
                body += [Decl('da', INT, a), Decl('db', INT, b)]
                a, b = Var('da', INT), Var('db', INT)
            if form == 'guarded_then_unguarded':
                # the same divisor twice in one statement; the first division sits behind a short-circuit guard, the second does not
                body += [If(Bin('or', Bin('and', Bin('!=', b, Lit(INT, 0)), Bin('>', Bin(op, a, b), Lit(INT, 1))), Bin('==', Bin('%', a, b), Lit(INT, 1))), [_mark('T')], [_mark('F')])]
            elif form == 'skipped_then_taken':
                body += _show(Bin('or', Bin('and', Bin('>', a, Lit(INT, 10000)), Bin('>', Bin(op, a, b), Lit(INT, 0))), Bin('==', Bin(op, a, b), Lit(INT, 0))))
            elif form == 'both_in_one_statement':
                body += _show(Bin('+', Bin('*', Bin(op, a, b), Lit(INT, 10)), Bin('%', a, b)))
            elif form == 'as_statement':
                body += [ExprStmt(Bin(op, a, b)), _mark('s')]             # evaluated for its fault only
            elif form == 'as_statement_in_speculation':
                body += [ExprStmt(Spec(Bin(op, a, b), Lit(INT, 0))), _mark('s')]
            elif form == 'expr':
                body += _show(Bin(op, a, b))
            elif form == 'expr_byte':
                body += _show(Bin(op, Cast(a, BYTE), Cast(b, BYTE)))
            elif form == 'opassign_var':
                body += [Decl('x', INT, a), OpAssign(Var('x', INT), op, b)] + _show(Var('x', INT))
            elif form == 'opassign_byte_var':
                body += [Decl('x', BYTE, Cast(a, BYTE)), OpAssign(Var('x', BYTE), op, Cast(b, BYTE))] + _show(Cast(Var('x', BYTE), INT))
            elif form == 'opassign_elem':
                t = Arr(INT, False)
                body += [Decl('q', t, ArrLit([Lit(INT, 1), a, Lit(INT, 3)], INT, False)), OpAssign(Index(Var('q', t), Lit(INT, 1)), op, b)] + _show(Index(Var('q', t), Lit(INT, 1)))
            elif form == 'opassign_byte_elem':
                t = Arr(BYTE, False)
                body += [Decl('q', t, ArrLit([Lit(BYTE, 1), Cast(a, BYTE), Lit(BYTE, 3)], BYTE, False)), OpAssign(Index(Var('q', t), Lit(INT, 1)), op, Cast(b, BYTE))] + _show(Cast(Index(Var('q', t), Lit(INT, 1)), INT))
            elif form == 'opassign_global':
                gl.append(Decl('gx', INT, Lit(INT, 77, keep=True)))
                body += [Assign(Var('gx', INT), a), OpAssign(Var('gx', INT), op, b)] + _show(Var('gx', INT))
            elif form == 'in_condition':
                body += [If(Bin('>', Bin(op, a, b), Lit(INT, 0)), [_mark('T')], [_mark('F')])]
            elif form == 'in_index':
                t = Arr(INT, True)
                body += [Decl('q', t, ArrLit([Lit(INT, 10), Lit(INT, 20), Lit(INT, 30)], INT, True))] + _show(Index(Var('q', t), Bin('%', Bin(op, a, b), Lit(INT, 3, keep=True))))
            else:
                f = Func('id', [('x', INT, False)], INT, [_mark('i'), Ret(Var('x', INT))])
                body += _show(Call(f, [Bin(op, a, b)]))
                body.append(_mark('>'))
                yield f'div/{op}/{form}', Program(gl, [Func('@is_you', main_params, EMPTY, body + [_mark('!')]), f])
                continue
            body.append(_mark('>'))
            yield f'div/{op}/{form}', Program(gl, [Func('@is_you', main_params, EMPTY, pre + body + [_mark('!')])])


def division_values(bits):
    hi = (1 << (bits - 1)) - 1
    lo = -(1 << (bits - 1))
    vals = [0, 1, -1, 2, -2, 7, 255, 256, lo, hi]
    return [(a, b) for a in (0, 7, -7, lo, hi, 300) for b in vals]


def order_programs():
    """two potential faults in one statement where left-to-right order decides which is first.
    v[0] index, v[1] divisor"""
    t = Arr(INT, False)
    q = Var('q', t)
    mk = lambda stmts: Program([], [Func('@is_you', [('v', Arr(INT, True), False)], EMPTY,  # noqa: E731
                                      [Decl('q', t, ArrLit([Lit(INT, 10), Lit(INT, 20), Lit(INT, 30)], INT, False)), _mark('<')] + stmts + [_mark('>'), _mark('!')])])
    yield 'order/assign_index_then_rhs', mk([Assign(Index(q, arg(0)), Bin('/', Lit(INT, 100), arg(1)))] + _show(Index(q, Lit(INT, 0))))
    yield 'order/opassign_index_then_rhs', mk([OpAssign(Index(q, arg(0)), '/', arg(1))] + _show(Index(q, Lit(INT, 0))))
    yield 'order/div_then_index', mk(_show(Bin('+', Bin('/', Lit(INT, 100), arg(1)), Index(q, arg(0)))))
    yield 'order/index_then_div', mk(_show(Bin('+', Index(q, arg(0)), Bin('/', Lit(INT, 100), arg(1)))))
    yield 'order/args_left_to_right', mk(_show(Bin('*', Index(q, arg(0)), Bin('%', Lit(INT, 100), arg(1)))))


def vla_programs(len_lit=None):
    """v[0] = length, or the integer literal len_lit written into the source (a constant the compiler may reason about)"""
    for el in (INT, BYTE, BOOL, STRING):
        if len_lit is None:
            n = arg(0)
        elif len_lit < 0:
            n = Un('-', Lit(INT, -len_lit, keep=True))
        else:
            n = Lit(INT, len_lit, keep=True)
        body = [_mark('<'), VLA('a', el, n), _mark('+'), W(Len(Var('a', Arr(el, False)))), _mark('>'), _mark('!')]
        yield f'vla/{el}', Program([], [Func('@is_you', [('v', Arr(INT, True), False)], EMPTY, body)])


def packed_twin_programs():
    """two constant bool tables whose bit-packed bytes are identical although their lengths differ (and a byte table with
    the same bytes): each keeps its own length in its index guard and when passed on.  v[0] is the index."""
    pairs = [([True, False, True, False], [True, False, True]), ([True, False, True], [True, False, True, False]), ([True] * 7, [True] * 7 + [False]),
             ([True] * 7 + [False], [True] * 7), ([False], [False, False]), ([True, True, False, False, False, False, False, False, True], [True, True, False, False, False, False, False, False, True, False, False])]
    cnt = Func('cnt', [('p', Arr(BOOL, True), False)], INT, [Ret(Len(Var('p', Arr(BOOL, True))))])
    for k, (x, y) in enumerate(pairs):
        for where in ('local', 'global'):
            dx = Decl('tx', Arr(BOOL, True), ArrLit([Lit(BOOL, v, keep=True) for v in x], BOOL, True))
            dy = Decl('ty', Arr(BOOL, True), ArrLit([Lit(BOOL, v, keep=True) for v in y], BOOL, True))
            tx, ty = Var('tx', Arr(BOOL, True)), Var('ty', Arr(BOOL, True))
            body = [_mark('<'), W(Len(tx)), W(Len(ty)), W(Call(cnt, [tx])), W(Call(cnt, [ty])), _mark(' '), W(Index(ty, arg(0))), _mark('+'), W(Index(tx, arg(0))), _mark('>'), _mark('!')]
            if where == 'local':
                yield f'packed-twins/{k}/local', Program([], [Func('@is_you', [('v', Arr(INT, True), False)], EMPTY, [dx, dy] + body), cnt])
            else:
                yield f'packed-twins/{k}/global', Program([dx, dy], [Func('@is_you', [('v', Arr(INT, True), False)], EMPTY, body), cnt])


def vla_values(bits):
    hi = (1 << (bits - 1)) - 1
    lo = -(1 << (bits - 1))
    return [lo, lo + 1, -1000, -9, -8, -7, -1, 0, 1, 8, 9, 100, hi, hi - 7, hi // 2, hi // 2 + 1, hi // 3 + 1, hi // 8]


def nonlocal_programs():
    """preemptive defeat functions returning into avoidable / unavoidable defeat: a defeat function is
    preemptive iff a preempt block appears anywhere in it (even if unreachable).  v[0] -> k, v[1] decides the later defeat."""
    K = Var('k', INT)
    pre = lambda: Preempt([_mark('p')])       # noqa: E731
    shapes = {
        'none': [],
        'top': [pre()],
        'in_if_false': [If(Lit(BOOL, False), [pre()])],
        'in_if_arg': [If(Bin('==', K, Lit(INT, 99)), [pre()])],
        'in_else': [If(Bin('<', K, Lit(INT, 1000)), [_mark('i')], [pre()])],
        'in_while': [While(Bin('>', K, Lit(INT, 50)), [pre(), OpAssign(K, '-', Lit(INT, 20))])],
        'in_for': [For(Decl('i', INT, Lit(INT, 0, keep=True)), Bin('<', Var('i', INT), Bin('-', K, Lit(INT, 50))),
                       OpAssign(Var('i', INT), '+', Lit(INT, 5, keep=True)), [pre()])],
        'in_for_in_if_false': [If(Lit(BOOL, False), [For(Decl('i', INT, Lit(INT, 0, keep=True)), Bin('<', Var('i', INT), Lit(INT, 2, keep=True)),
                                                         OpAssign(Var('i', INT), '+', Lit(INT, 1, keep=True)), [pre()])])],
        'in_nested_for': [For(Decl('i', INT, Lit(INT, 0, keep=True)), Bin('<', Var('i', INT), Lit(INT, 1, keep=True)), OpAssign(Var('i', INT), '+', Lit(INT, 1, keep=True)),
                              [For(Decl('j', INT, Lit(INT, 0, keep=True)), Bin('<', Var('j', INT), Bin('-', K, Lit(INT, 55))),
                                   OpAssign(Var('j', INT), '+', Lit(INT, 9, keep=True)), [Block([pre()])])])],
        'in_block': [Block([Block([pre()])])],
        'return_inside_preempt': [Preempt([_mark('p'), Ret(None)]), _mark('n')],
        # skipping the block must itself end in defeat INSIDE the function for the block to be taken at all (the function's
        # own guarded return is an error, not a halt): then the return inside the block is the one that needs the guard
        'return_inside_preempt_then_defeat': [Preempt([_mark('p'), Ret(None)]), _mark('n'), ExprStmt(Call('!is_defeat', []))],
        'return_inside_preempt_then_conditional_defeat': [If(Bin('<', K, Lit(INT, 1000)), [Preempt([_mark('p'), Ret(None)])]), _mark('n'),
                                                          ExprStmt(Call('!truth_is_defeat', [Bin('!=', K, Lit(INT, 60))]))],
        'return_inside_preempt_in_loop_then_defeat': [For(Decl('i', INT, Lit(INT, 0, keep=True)), Bin('<', Var('i', INT), Lit(INT, 3, keep=True)),
                                                          OpAssign(Var('i', INT), '+', Lit(INT, 1, keep=True)),
                                                          [If(Bin('==', Bin('+', Var('i', INT), K), Lit(INT, 4)), [Preempt([_mark('p'), Ret(None)])])]),
                                                      ExprStmt(Call('!is_defeat', []))],
        'return_inside_preempt_in_if': [If(Bin('<', K, Lit(INT, 1000)), [Preempt([_mark('p'), If(Bin('>', K, Lit(INT, 2)), [Ret(None)])])]), _mark('n')],
        'return_inside_preempt_in_loop': [While(Bin('>', K, Lit(INT, 50)), [Preempt([_mark('p'), Ret(None)]), OpAssign(K, '-', Lit(INT, 20))]), _mark('n')],
        'after_return_guard': [If(Bin('>', K, Lit(INT, 500)), [Ret(None), pre()])],
    }
    for sn, body in shapes.items():
        for caller in ('undo_unavoidable', 'undo_conditional', 'stop_unavoidable', 'stop_conditional', 'via_outer', 'twice'):
            df = Func('!df', [('k', INT, False)], EMPTY, [_mark('d')] + body + [_mark('e')])
            dead = ExprStmt(Call('!is_defeat', []))
            cond = ExprStmt(Call('!truth_is_defeat', [Bin('==', arg(1), Lit(INT, 1))]))
            call = ExprStmt(Call(df, [arg(0)]))
            funcs = [df]
            if caller == 'undo_unavoidable':
                st = [Try([_mark('t'), call, dead], 'undo', [_mark('u')])]
            elif caller == 'undo_conditional':
                st = [Try([_mark('t'), call, cond, _mark('f')], 'undo', [_mark('u')])]
            elif caller == 'stop_unavoidable':
                st = [Try([_mark('t'), call, dead], 'stop', [_mark('s')])]
            elif caller == 'stop_conditional':
                st = [Try([_mark('t'), call, cond, _mark('f')], 'stop', [_mark('s')])]
            elif caller == 'via_outer':
                outer = Func('!outer', [('k', INT, False)], EMPTY, [_mark('o'), ExprStmt(Call(df, [Var('k', INT)])), _mark('q')])
                funcs.append(outer)
                st = [Try([_mark('t'), ExprStmt(Call(outer, [arg(0)])), cond, _mark('f')], 'undo', [_mark('u')])]
            else:
                st = [Try([_mark('t'), call, _mark('m'), call, cond, _mark('f')], 'stop', [_mark('s')]),
                      Try([_mark('T'), call, cond], 'undo', [_mark('U')])]
            main = Func('@is_you', [('v', Arr(INT, True), False)], EMPTY, [_mark('<')] + st + [_mark('>'), _mark('!')])
            yield f'nonlocal/{sn}/{caller}', Program([], [main] + funcs)
    # value-returning preemptive defeat functions whose RETURN EXPRESSION itself calls defeat functions: defeat reached while
    # the expression is evaluated is ordinary defeat; only the completed return is subject to the return-boundary rule
    leaf = Func('!leaf', [('k', INT, False)], INT, [_mark('l'), ExprStmt(Call('!truth_is_defeat', [Bin('==', K, Lit(INT, 1))])), Ret(Bin('+', K, Lit(INT, 1)))])
    for rs in ('leaf_call', 'recursive', 'sum_of_calls', 'call_in_condition_then_plain_return', 'not_preemptive'):
        pre_st = [] if rs == 'not_preemptive' else [pre()]
        if rs in ('leaf_call', 'not_preemptive'):
            body = [_mark('d')] + pre_st + [Ret(Bin('*', Call(leaf, [K]), Lit(INT, 2)))]
        elif rs == 'recursive':
            body = [_mark('d')] + pre_st + [If(Bin('<=', K, Lit(INT, 0)), [Ret(Lit(INT, 0))]), If(Bin('==', K, Lit(INT, 1)), [Ret(Call(leaf, [K]))]),
                                           Ret(Bin('+', Call('!dfv', [Bin('-', K, Lit(INT, 49))], t=INT), Lit(INT, 1)))]
        elif rs == 'sum_of_calls':
            body = [_mark('d')] + pre_st + [Ret(Bin('+', Call(leaf, [Lit(INT, 5)]), Call(leaf, [K])))]
        else:
            body = [_mark('d')] + pre_st + [If(Bin('>', Call(leaf, [K]), Lit(INT, 3)), [_mark('g')]), Ret(K)]
        dfv = Func('!dfv', [('k', INT, False)], INT, body)
        for caller in ('undo', 'stop', 'undo_then_defeat', 'stop_then_defeat'):
            call = W(Call(dfv, [arg(0)]))
            cond = ExprStmt(Call('!truth_is_defeat', [Bin('==', arg(1), Lit(INT, 1))]))
            kind = 'undo' if caller.startswith('undo') else 'stop'
            tb = [_mark('t'), call] + ([cond] if caller.endswith('defeat') else []) + [_mark('f')]
            main = Func('@is_you', [('v', Arr(INT, True), False)], EMPTY, [_mark('<'), Try(tb, kind, [_mark(kind[0])]), _mark('>'), _mark('!')])
            yield f'nonlocal/return_expr_{rs}/{caller}', Program([], [main, dfv, leaf])
