"""Memory-stress program templates for C04 (text + argument vectors).  The
oracle needs no reference model: M-SAN on every access, and the tight-stack
outcome must be the generous-stack outcome or a prefix of it followed by
stack_overflow, error."""
import random

UTIL = r'''
empty show(const int[] a) { write('['); for (int i = 0; i < a.length; i += 1) { write(a[i]); write(','); } write(']'); }
empty show(const byte[] a) { write('<'); for (int i = 0; i < a.length; i += 1) { write(a[i] is int); write(','); } write('>'); }
empty show(const bool[] a) { write('{'); for (int i = 0; i < a.length; i += 1) { if (a[i]) { write('1'); } else { write('0'); } } write('}'); }
'''

LENGTHS = [-32768, -9, -8, -7, -3, -1, 0, 1, 2, 7, 8, 9, 15, 16, 17, 31, 33, 100, 1000, 5000, 16383, 16384, 32767]


def vla_program(el, length_from='param'):
    fill = {'int': 'i * 3 - 1', 'byte': '(i + 65) is byte', 'bool': '(i % 3) == 0', 'string': '"s"'}[el]
    show = 'show(a);' if el != 'string' else 'for (int j = 0; j < a.length; j += 1) { write(a[j]); }'
    return UTIL + f'''
int canary = 12345;
int gn = 0;
empty @is_you(int n, int k) {{
    gn = n;
    int before = 777;
    byte[] guard1 = ['G', 'U', 'A', 'R', 'D'];
    write("start ");
    {el} a[{'gn' if length_from == 'global' else 'n' if length_from == 'param' else 'n + 0'}];
    int after = 888;
    write(a.length); write(' ');
    for (int i = 0; i < a.length; i += 1) {{ a[i] = {fill}; }}
    if (k >= 0 and k < a.length) {{ a[k] = a[(k + 1) % a.length]; }}
    if (k == 7 or k == 40) {{ a[k] = {fill.replace('i', 'k')}; write('!'); }}
    {show}
    write(guard1); write(before); write(after); write(canary);
    writeln();
    write(-n * 1000 - 7);
}}
'''


def literal_with_calls():
    return UTIL + r'''
int depth = 0;
int alloc(int n) {
    int t[n];
    for (int i = 0; i < n; i += 1) { t[i] = i + depth; }
    depth += 1;
    int s = 0;
    for (int i = 0; i < n; i += 1) { s += t[i]; }
    return s;
}
int twice(int n) { int[] q = [alloc(n), alloc(n + 1), n]; show(q); return q[0] + q[1]; }
empty @is_you(int n, int k) {
    int[] a = [alloc(n), twice(k), alloc(k), 4];
    byte[] b = [(alloc(2) is byte), 'x', (n is byte)];
    bool[] c = [alloc(1) > 0, false, true, alloc(n) == 0, n > k, true, true, false, alloc(k) > 1];
    show(a); show(b); show(c);
    a[1] += alloc(3);
    show(a);
    writeln(depth);
}
'''


def literal_temps():
    """array literals whose elements need frame temporaries or calls, each in a function of its own so that this
    statement determines the function's maximum frame (the array must be counted while its elements are evaluated)"""
    return UTIL + r'''
int g = 300;
int two(int a, int b) { return a * 2 + b; }
int three(int a, int b, int c) { return a + b - c; }
empty take(const int[] a) { show(a); }
empty takeb(const byte[] a, int pad) { show(a); write(pad); }
empty t1(int n) { take([9, g - (n * 2 + 1), g - g % (n + 3)]); }
empty t2(int n) { int[] a = [g + two(n, 1) * two(1, n), g - three(n, n, 1)]; show(a); }
empty t3(int n) { bool[] b = [g > two(n, 2), g - n > three(1, 2, n), true, g == g - n]; show(b); }
empty t4(int n) { takeb([(g - n * 2) is byte, (g + two(n, 1)) is byte, 'q'], g + n); }
empty t5(int n) { byte[] c = [(g - (g - n)) is byte, (g / (n + 2)) is byte]; show(c); }
empty t6(int n) { take([g - three(g - n, g + n, two(g - 1, n)), 1, 2, 3, 4, 5, 6, 7]); }
empty @is_you(int n, int k) {
    if (k == 1) { t1(n); } if (k == 2) { t2(n); } if (k == 3) { t3(n); }
    if (k == 4) { t4(n); } if (k == 5) { t5(n); } if (k == 6) { t6(n); }
    writeln(g);
}
'''


def const_index_program():
    """indices that are compile-time constants (the compiler may reason about them) on arrays whose length it knows"""
    return UTIL + r'''
int[] gfirst = [1, 2, 3];
int[] gsecond = [4, 5, 6];
const byte[] gc = ['a', 'b', 'c'];
bool[] gb = [true, false, true, true, false, true, true, false, true];
empty @is_you(int n, int k) {
    int[] first = [10, 20, 30];
    int[] second = [40, 50, 60];
    byte[] third = ['x', 'y', 'z'];
    bool[] bits = [n > 0, true, false, n == k, true, false, true, true, n < k];
    if (k == 1) { second[-1] = 99; }
    if (k == 2) { first[3] = 98; }
    if (k == 3) { gsecond[-1] = 97; }
    if (k == 4) { gfirst[3] = 96; }
    if (k == 5) { third[-1] = 'q'; }
    if (k == 6) { write(gc[3]); }
    if (k == 7) { write(gc[-1]); }
    if (k == 8) { bits[-1] = true; }
    if (k == 9) { bits[9] = true; }
    if (k == 10) { gb[-8] = true; }
    if (k == 11) { gb[16] = false; }
    if (k == 12) { second[2] += first[-2]; }
    if (k == 13) { write("str"[-1]); }
    if (k == 14) { write("str"[3]); }
    if (k == 15) { first[0] = second[2]; second[0] = first[2]; third[2] = 'w'; bits[8] = false; gb[0] = false; }
    show(first); show(second); show(third); show(bits); show(gfirst); show(gsecond); show(gb);
    writeln(n);
}
'''


def leak_program():
    """blocks that own stack arrays and *may* leave early (conditional break / return / defeat) but normally fall
    through, inside loops with many iterations: if a fall-through forgets to release, ap creeps into the frame"""
    return UTIL + r'''
int sink = 0;
empty !never(int k) { !truth_is_defeat(k == 12345); }
int work(int n, int k) {
    int acc = 0;
    for (int i = 0; i < n; i += 1) {
        {
            int[] t = [i, i + 1, i + 2];
            if (i == k) { break; }
            acc += t[2];
        }
        if (i % 2 == 0) {
            byte u[3];
            u[0] = 'u';
            if (i == k + 100) { return acc; }
            acc += u[0];
        }
    }
    for (int m = 0; m < n; m += 1) {
        int[] p1 = [m, 1];
        byte p2[3];
        p2[0] = 'p';
        int[] p3 = [m];
        acc += p1[0] + p3[0] + p2[0];
        if (m == k + 200) { continue; }
        { bool q1[9]; int[] q2 = [acc]; q1[8] = true; if (q1[8]) { acc += q2[0] % 3; } }
    }
    return acc;
}
empty @is_you(int n, int k) {
    writeln(work(n, k));
    int total = 0;
    for (int j = 0; j < n; j += 1) {
        try {
            bool[] f = [j > 1, true, false];
            !never(j);
            if (f[1]) { total += j; }
        } stop { write('s'); }
    }
    writeln(total);
}
'''


def defeat_leak_program():
    """arrays that are live when defeat strikes (in the try body itself and in a defeat function called from it), under
    stop and undo handlers, repeated in a loop: whatever the defeat route forgets to give back accumulates"""
    return UTIL + r'''
int !risky(int j, int m) {
    int[] loc = [j, j + 1, j + 2, j + 3];
    byte pad[5];
    pad[0] = 'p';
    !truth_is_defeat(j % m == 0);
    return loc[3] + j;
}
empty @is_you(int n, int m) {
    int wins = 0;
    int i = 0;
    while (i < n) {
        try {
            int junk[4];
            junk[0] = 100 + i;
            junk[3] = i;
            !truth_is_defeat(i % m == 1);
            wins += junk[0] - 99 - junk[3];
        } stop { write('s'); }
        try {
            wins += !risky(i, m) - i - i - 2;
        } stop { write('r'); }
        try {
            int[] q = [i, wins];
            !truth_is_defeat(i % m == 2);
            wins += q[0] - i + 1;
        } undo { write('u'); }
        i += 1;
    }
    writeln(wins);
    writeln(i);
}
'''


def recursion_program():
    return UTIL + r'''
int rec(int n, int[] acc) {
    int[] loc = [n, n + 1, n + 2];
    byte small[n % 4 + 1];
    small[0] = 'r';
    if (n <= 0) { return acc[0]; }
    acc[0] += loc[2];
    int r = rec(n - 1, acc) + small[0];
    write(r); write(' ');
    return r - loc[0];
}
empty @is_you(int n, int k) {
    int[] acc = [k];
    writeln(rec(n, acc));
    show(acc);
}
'''


def stdlib_program():
    return UTIL + r'''
empty @is_you(int n, int k) {
    byte[] top = ['1', '2', '3', '4', '5', '6'];
    write(n); write(' ');
    write(top); write(' ');
    bool bits[k % 20 + 1];
    for (int i = 0; i < bits.length; i += 1) { bits[i] = (i + n) % 2 == 0; }
    write(-n); write(' '); write(n * 181 + 7); write(' ');
    show(bits);
    write(top);
    write(bits[0]); write("str"); write("str" is byte[]); write(top[n % 6]);
    writeln(k - 32767 - 1);
    write(top);
}
'''


def write_deepest_programs():
    """write(int) - which pushes its digits below the frame without a check of its own - as the DEEPEST point of a
    function while stack arrays of each kind are live: the enclosing guards must have reserved the digit buffer"""
    arrays = {
        'int literal': 'int[] a = [x, x + 1, x + 2];',
        'byte literal': "byte[] b = ['p', x is byte, 'q']; int[] a = [x, x + 1, x + 2];",
        'dynamic': 'int a[3]; a[0] = x; a[1] = x + 1; a[2] = x + 2;',
        'const literal with run-time elements': 'const int[] a = [x, x + 1, x + 2];',
        'two literals': 'int[] z = [x]; int[] a = [x, x + 1, x + 2];',
    }
    body = "write(a[2]); write(' '); write(a[1]); write(' '); write(-a[2]); write(' '); writeln(a[0]);"
    for an, decl in arrays.items():
        yield f'write-deepest main/{an}', UTIL + f'empty @is_you(int x) {{ {decl} {body} }}\n'
        yield f'write-deepest callee/{an}', UTIL + f'empty f(int x) {{ {decl} {body} }}\nempty @is_you(int x) {{ f(x); f(x + 1); }}\n'
        yield f'write-deepest nested block/{an}', UTIL + f'empty @is_you(int x) {{ if (x != 1) {{ {decl} {{ {body} }} }} write(x); }}\n'
        yield (f'write-deepest try body/{an}',
               UTIL + f"empty @is_you(int x) {{ try {{ {decl} {body} !truth_is_defeat(x == 1); }} stop {{ write('s'); }} write(x); }}\n")


def exact_fit_programs():
    """a dynamic array that is made to fit the stack exactly (its length comes from the command line and the sweep moves
    the stack size through the exact fit), combined with what decides the reserve: a byte-sized deepest slot, a live array
    literal, nothing pushed after the allocation, an earlier deeper write(int) in another function, a bool[] literal with
    an all-false group of eight built where earlier calls left the stack dirty.  yields (tag, source)"""
    yield 'exact-fit/byte-sized deepest slot (write(bool))', UTIL + '''
empty @is_you(int n) { int last = n - 1; byte buf[n]; buf[last] = 'A'; writeln(n > 8); write(buf[last]); writeln(); }
'''
    yield 'exact-fit/byte local declared last', UTIL + '''
empty @is_you(int n) { byte buf[n]; buf[n - 1] = 'B'; byte tail = (n + 1) is byte; bool flag = n > 3; write(buf[n - 1]); write(tail is int); write(flag); writeln(); }
'''
    yield 'exact-fit/live literal, nothing pushed afterwards', UTIL + '''
byte spare[64];
empty @is_you(int n) { int i = 0; spare[0] = 0; byte[] tag = ['[', ']']; byte buf[n]; while (i < n) { buf[i] = 'a'; i += 1; } write(tag[0]); i = 0;
    while (i < n) { write(buf[i]); i += 1; } write(tag[1]); writeln(); }
'''
    yield 'exact-fit/int array after two literals', UTIL + '''
empty @is_you(int n) { int[] p = [n, 2]; byte[] q = ['q']; int buf[n]; int i = 0; while (i < n) { buf[i] = 1000 + i; i += 1; } write(p[0]); write(q[0]); write(buf[n - 1]); writeln(); }
'''
    yield 'exact-fit/callee after a deeper write(int) elsewhere', UTIL + '''
int deep(int a, int b, int c, int d) { write(a + b + c + d); write(' '); return a; }
empty tight(int n) { byte buf[n]; buf[n - 1] = 'X'; write(12345); write(' '); write(buf[n - 1]); writeln(); }
empty @is_you(int n) { int keep = deep(n, deep(1, 2, 3, 4), 5, 6); tight(n); tight(n - 1); write(keep); }
'''
    # the guards of several dynamic arrays in one function are computed from one bookkeeping of frame depths: deep points
    # before, between and after the declarations, in one block and in nested blocks
    yield 'exact-fit/two dynamic arrays around deep temporaries, after a deep call', UTIL + '''
int g = 0; int seen = 0; int blen = 0;
int sum4(int a, int b, int c, int d) { return a + b + c + d; }
empty @is_you(int n) { int t = sum4(1, 2, 3, 4); if (n > 0) { int a[n]; a[n - 1] = 77; g = (n + 1) * ((n + 2) * ((n + 3) * (n + 4))); int b[3]; seen = a[n - 1]; blen = b.length; }
    writeln(seen); writeln(blen); writeln(t); }
'''
    yield 'exact-fit/dynamic array after a block that went deeper', UTIL + '''
empty @is_you(int n) { { int[] t = [n, n, n, n, n, n]; writeln(t[5]); } int v[n]; v[0] = n + 1; v[n - 1] = n; writeln(v[0] + v[n - 1]); }
'''
    yield 'exact-fit/three dynamic arrays with twelve temporaries between', UTIL + '''
int g = 1;
empty @is_you(int n) { int a[n]; for (int i = 0; i < n; i += 1) { a[i] = 7; }
    int t = g + (g + (g + (g + (g + (g + (g + (g + (g + (g + (g + (g + g)))))))))));
    write(a[n - 1]); write(' '); writeln(t); int b[1]; int c[1]; b[0] = t; c[0] = t; write(b[0] + c[0]); }
'''
    yield 'exact-fit/dynamic arrays in sibling blocks of different depth', UTIL + '''
int sum4(int a, int b, int c, int d) { return a + b + c + d; }
empty @is_you(int n) { int keep = 5; { int a[n]; a[n - 1] = sum4(n, 1, 2, 3); keep += a[n - 1]; } { byte b[n]; b[0] = 'b'; { int c[2]; c[1] = keep; keep = c[1] + b[0]; } } writeln(keep); }
'''
    yield 'exact-fit/bool literal with an all-false group where the deepest frames were', UTIL + '''
int dig(int d) { if (d == 0) { int a = -1; int b = -1; return a + b; } return dig(d - 1); }
empty @is_you(int n) { int r = dig(n); writeln(r); bool t = n > 0; bool[] v = [t, false, false, false, false, false, false, false, false, false, false, false];
    int i = 0; while (i < v.length) { if (v[i]) { write('1'); } else { write('0'); } i += 1; } writeln(); }
'''
    yield 'exact-fit/bool literal with an all-false group on a dirty stack', UTIL + '''
int dirty(int k) { int[] junk = [k - 1, k - 2, k - 3, k - 4, -1, -1, -1, -1]; return junk[0] + junk[7]; }
empty @is_you(int n) { int d = dirty(n); bool[] f = [n > 0, false, false, false, false, false, false, false, false, false, false, false, false, false, false, false, n > 1, true, false];
    int c = 0; for (int i = 0; i < f.length; i += 1) { if (f[i]) { c += 1; write('1'); } else { write('0'); } } write(' '); write(c); write(' '); write(d); byte buf[n]; buf[0] = 'z'; write(buf[0]); writeln(); }
'''


def byref_program():
    return UTIL + r'''
empty fill(int[] dst, const byte[] src, int off) {
    for (int i = 0; i < src.length; i += 1) { dst[(i + off) % dst.length] = src[i]; }
}
empty setbit(bool[] b, int i, bool v) { b[i] = v; }
empty @is_you(int n, int k) {
    int d[n % 9 + 1];
    for (int i = 0; i < d.length; i += 1) { d[i] = 0; }
    fill(d, "hello", k);
    fill(d, [1, 2, 3], n);
    show(d);
    bool flags[n % 23 + 1];
    for (int i = 0; i < flags.length; i += 1) { flags[i] = false; }
    setbit(flags, k % flags.length, true);
    setbit(flags, (k + 8) % flags.length, true);
    setbit(flags, k % flags.length, n % 2 == 0);
    show(flags);
    string names[3];
    names[0] = "a"; names[1] = "bc"; names[2] = "";
    for (int i = 0; i < 3; i += 1) { write(names[i]); write(names[i].length); }
    writeln();
}
'''


def cases(seed, count):
    """yield (tag, source, args)"""
    r = random.Random(seed)
    out = []
    for el in ('int', 'byte', 'bool', 'string'):
        src = vla_program(el)
        for n in LENGTHS:
            out.append((f'vla-{el}', src, [str(n), str(r.choice([-1, 0, 1, 7, 8, 9, 40]))]))
        for lf in ('global', 'computed'):
            src2 = vla_program(el, lf)
            for n in (-1, 0, 1, 5, 8, 9, 13, 17, 100):
                out.append((f'vla-{el}-length-{lf}', src2, [str(n), str(r.choice([0, 7, 40]))]))
        # lengths whose byte size wraps around to (almost) nothing at 16, 24 and 32 bits, with the two k values
        # for which the template stores to a[k] unconditionally: only the language's own guards stand in the way
        for n in (-32768, -32767, -32766, -32764, -32760, -8388608, -8388607, -8388606, -2147483648, -2147483647, -2147483646):
            for k in (7, 40):
                out.append((f'vla-{el}-wrap', src, [str(n), str(k)]))
    for n in (0, 1, 2, 5, 9):
        for k in (0, 1, 4):
            out.append(('literal-calls', literal_with_calls(), [str(n), str(k)]))
    for n in (0, 1, 3, 10, 40):
        out.append(('recursion', recursion_program(), [str(n), str(r.randint(-5, 5))]))
    for n in (0, 5):
        for k in (1, 2, 3, 4, 5, 6):
            out.append(('literal-temps', literal_temps(), [str(n), str(k)]))
    for k in range(0, 16):
        out.append(('const-index', const_index_program(), [str(k % 3), str(k)]))
    for n, k in ((1, 99), (6, 99), (40, 99), (40, 7), (12, 3)):
        out.append(('leak', leak_program(), [str(n), str(k)]))
    for n, m in ((3, 1), (10, 1), (10, 3), (24, 3), (24, 5), (9, 2)):
        out.append(('defeat-leak', defeat_leak_program(), [str(n), str(m)]))
    # global arrays with a negative constant length: must be refused; if one is accepted its accesses are judged like any other
    for el, fillv in (('bool', 'true'), ('int', '7'), ('byte', "'x'"), ('string', '"s"')):
        for n in (-1, -3, -7, -8, -32768):
            src = UTIL + f'''
int before = 111;
{el} gneg[{n}];
int canary = 12345;
empty @is_you(int k) {{
    write(gneg.length); write(' ');
    if (k >= 0) {{ gneg[k] = {fillv}; write('!'); }}
    write(before); write(canary);
}}
'''
            for k in (0, 9):
                out.append((f'global-negative-length/{el}', src, [str(k)]))
    for tag, src in exact_fit_programs():
        for n in (5, 9, 16, 30):
            out.append((tag, src, [str(n)]))
    for tag, src in write_deepest_programs():
        for n in (12343, -12343, -32768 + 2, 7):
            out.append((tag, src, [str(n)]))
    for n in (0, 7, -1, 9999, -32768, 32767, 12345):
        out.append(('stdlib', stdlib_program(), [str(n), str(r.choice([0, 7, 8, 19]))]))
    for n in (0, 3, 8, 22):
        for k in (0, 5, 15):
            out.append(('byref', byref_program(), [str(n), str(k)]))
    r.shuffle(out)
    return out[:count] if count else out
