"""Idiom grids: small GenAST programs that enumerate, instead of sampling, the
places where the compiler must end a scope, keep an operand alive across the
evaluation of its neighbour, or capture a value before a later call changes it.
RefInt is the oracle; every program takes `const int[] v` on the command line so
that nothing is folded."""
from ..model.ast import *  # noqa: F401,F403
from .faultgrid import W, _mark, _show, ARG, arg  # noqa: F401

G0, G1 = Var('g0', INT), Var('g1', INT)
S = lambda s: Lit(STRING, s.encode())  # noqa: E731


def _i(v):
    return Lit(INT, v, keep=True)


# ------------------------------------------------------------------ scoping
def shadow_programs():
    """a local that shadows a global inside a nested construct which is left by falling through / return / break /
    continue; afterwards (same function, and in a callee called from inside) the name must mean the global again"""
    show = Func('show', [], EMPTY, [W(S('G')), W(G0), W(S(',')), W(G1), _mark(' ')])
    par = Func('par', [('g1', INT, False)], INT, [OpAssign(Var('g1', INT), '+', _i(1)), W(S('p')), W(Var('g1', INT)), ExprStmt(Call(show, [])),
                                                    Ret(Var('g1', INT))])
    for container in ('block', 'if', 'else', 'while', 'for'):
        for ex in ('fall', 'return', 'break', 'continue'):
            for wrap in (False, True):
                if ex in ('break', 'continue') and not (wrap or container in ('while', 'for')):
                    continue
                for lt in (INT, BYTE, STRING):
                    for ret in (EMPTY, INT):
                        n = Var('n', INT)
                        loc = Var('g0', lt)
                        init = {INT: Bin('*', n, _i(2)), BYTE: Cast(Bin('+', n, _i(60)), BYTE), STRING: S('loc')}[lt]
                        mut = Assign(loc, S('LOC')) if lt == STRING else OpAssign(loc, '+', Lit(lt, 1))
                        inner = [Decl('g0', lt, init), W(S('L')), W(loc), ExprStmt(Call(show, [])), mut, W(loc), _mark(';'),
                                 OpAssign(n, '-', _i(1))]
                        if ex == 'return':
                            inner.append(Ret(None if ret == EMPTY else Bin('+', G1, _i(1000))))
                        elif ex == 'break':
                            inner.append(Break())
                        elif ex == 'continue':
                            inner.append(Continue())
                        c = Bin('>', n, _i(3))
                        if container == 'block':
                            cons = Block(inner)
                        elif container == 'if':
                            cons = If(c, inner)
                        elif container == 'else':
                            cons = If(Bin('<=', n, _i(3)), [_mark('t')], inner)
                        elif container == 'while':
                            cons = While(c, inner)
                        else:
                            cons = For(Decl('k', INT, _i(0)), Bin('and', Bin('<', Var('k', INT), _i(2)), c), OpAssign(Var('k', INT), '+', _i(1)), inner)
                        after = [W(S('A')), W(G0), OpAssign(G0, '+', _i(1)), ExprStmt(Call(show, []))]
                        body = [cons] + after
                        if wrap:
                            body = [For(Decl('w', INT, _i(0)), Bin('<', Var('w', INT), _i(2)), OpAssign(Var('w', INT), '+', _i(1)), body)]
                        body += [W(S('Z')), W(G0), _mark('\n')]
                        if ret == INT:
                            body.append(Ret(G0))
                        f = Func('f', [('n', INT, False)], ret, body)
                        calls = []
                        for k in (0, 1):
                            call = Call(f, [arg(k)])
                            calls += [W(call) if ret == INT else ExprStmt(call), _mark('|'), OpAssign(G0, '+', _i(10)), W(Call(par, [arg(k)]))]
                        main = Func('@is_you', [('v', Arr(INT, True), False)], EMPTY, calls + [ExprStmt(Call(show, []))])
                        yield (f'shadow/{container}/{ex}/{"wrapped" if wrap else "plain"}/{lt}/{ret}',
                               Program([Decl('g0', INT, _i(100)), Decl('g1', INT, _i(7))], [main, f, par, show]))


SHADOW_ARGS = [['1', '5'], ['5', '1'], ['4', '9']]


# ---------------------------------------------------- operands kept alive
def operand_programs():
    """left operand kind x right operand kind, every arithmetic/comparison operator, in the places an expression can
    stand: the left value must survive whatever the right operand's evaluation does with the registers"""
    idf = Func('idf', [('x', INT, False)], INT, [_mark('i'), Ret(Var('x', INT))])
    two = Func('two', [('x', INT, False), ('y', INT, False)], INT, [Ret(Bin('-', Bin('*', Var('x', INT), _i(3)), Var('y', INT)))])
    setg = Func('setg', [('x', INT, False)], INT, [Assign(Var('gm', INT), Bin('+', Var('gm', INT), Var('x', INT))), Ret(Bin('+', Var('x', INT), _i(1)))])
    pick = Func('pick', [('ws', Arr(STRING, True), False), ('i', INT, False)], STRING,
                [If(Bin('<', Var('i', INT), Len(Var('ws', Arr(STRING, True)))), [Ret(Index(Var('ws', Arr(STRING, True)), Var('i', INT)))]), Ret(S(''))])
    q = Var('q', Arr(INT, False))
    ws = Var('ws', Arr(STRING, True))
    s = Var('s', STRING)
    x = Var('x', INT)
    gm = Var('gm', INT)
    lefts = {
        'computed': lambda: Bin('+', arg(0), arg(1)),
        'global': lambda: gm,
        'local': lambda: x,
        'literal': lambda: Lit(INT, 7),
        'call': lambda: Call(idf, [arg(0)]),
        'elem': lambda: Index(q, Bin('%', Bin('*', arg(2), arg(2)), _i(3))),
        'neg': lambda: Un('-', arg(0)),
        'widened_byte': lambda: Cast(Cast(arg(0), BYTE), INT),
    }
    rights = {
        'len_of_call': lambda: Len(Call(pick, [ws, Lit(INT, 1)])),
        'len_of_elem': lambda: Len(Index(ws, Lit(INT, 1))),
        'len_of_literal': lambda: Len(S('four')),
        'len_of_string_var': lambda: Len(s),
        'len_of_array': lambda: Len(q),
        'len_of_string_array': lambda: Len(ws),
        'call': lambda: Call(idf, [arg(1)]),
        'call_changing_global': lambda: Call(setg, [arg(1)]),
        'elem_computed_index': lambda: Index(q, Bin('%', Bin('*', arg(1), arg(1)), _i(3))),
        'cast_chain': lambda: Cast(Cast(arg(1), BYTE), INT),
        'nested': lambda: Bin('*', Bin('-', arg(1), _i(1)), _i(2)),
        'variable': lambda: x,
    }
    for ln, L in lefts.items():
        for rn, R in rights.items():
            pre = [Decl('q', Arr(INT, False), ArrLit([arg(1), Lit(INT, 20), arg(0)], INT, False)),
                   Decl('ws', Arr(STRING, True), ArrLit([S('a'), S('four'), S('xyz')], STRING, True)),
                   Decl('s', STRING, Index(ws, Bin('%', Bin('*', arg(0), arg(0)), _i(3)))),
                   Decl('x', INT, Bin('-', arg(0), _i(2))),
                   Assign(gm, arg(2))]
            body = []
            for op in ('+', '-', '*', '<', '>=', '==', '!='):
                mk = lambda: Bin(op, L(), R())     # noqa: E731
                body += [W(mk()), _mark(' ')]                                            # call argument
                body += [Decl(f'd{len(body)}', BOOL if op in ('<', '>=', '==', '!=') else INT, mk())]
                body += [W(Var(body[-1].name, body[-1].t)), _mark(' ')]
                if op in ('+', '-', '*'):
                    body += [Assign(Index(q, Lit(INT, 1)), mk()), W(Index(q, Lit(INT, 1))), _mark(' ')]   # element store
                    body += [W(Call(two, [x, mk()])), _mark(' ')]                                           # second argument
                    body += [Assign(x, mk()), W(x), _mark(' ')]
                    body += [OpAssign(gm, '+', mk()), W(gm), _mark(' ')]
                else:
                    body += [If(mk(), [_mark('T')], [_mark('F')])]
                    body += [W(Bin('and', mk(), Bin('!=', x, _i(-999)))), _mark(' ')]
                body.append(_mark('\n'))
            main = Func('@is_you', [('v', Arr(INT, True), False)], EMPTY, pre + body)
            yield f'operand/{ln}/{rn}', Program([Decl('gm', INT, _i(5))], [main, idf, two, setg, pick])


OPERAND_ARGS = [['3', '-4', '1'], ['300', '2', '2'], ['-7', '7', '0']]


# ------------------------------------------------ values captured in time
def capture_programs():
    """`gi` is read (as an index, an operand, an argument, a literal's element) and a call evaluated *later in the same
    statement* changes it to an index outside the array: the earlier read is the one that counts.  By the language
    rules every program is fault-free."""
    gi = Var('gi', INT)
    for el in (INT, BYTE, BOOL, STRING):
        val = {INT: Lit(INT, 65), BYTE: Lit(BYTE, 65), BOOL: Lit(BOOL, True), STRING: S('SS')}[el]
        bump = Func('bump', [('to', INT, False)], el, [Assign(gi, Var('to', INT)), _mark('b'), Ret(val)])
        two = Func('two', [('x', el, False), ('y', el, False)], EMPTY, [W(S('<')), W(Var('x', el)), _mark(','), W(Var('y', el)), W(S('>'))])
        for storage in ('vla', 'literal', 'global', 'param'):
            for to in (4, -1, 0, 30000):
                for form in ('assign', 'assign_offset', 'opassign', 'read_then_call', 'args', 'literal_elems', 'index_then_scalar', 'compare'):
                    if form == 'opassign' and el not in (INT, BYTE):
                        continue
                    if form == 'compare' and el not in (INT, BYTE):
                        continue
                    t = Arr(el, False)
                    a = Var('a', t)
                    fill = {INT: lambda k: Lit(INT, 10 + k), BYTE: lambda k: Lit(BYTE, 97 + k), BOOL: lambda k: Lit(BOOL, k % 2 == 1),
                            STRING: lambda k: S('s%d' % k)}[el]
                    gl = [Decl('gi', INT, _i(1))]
                    pre = []
                    if storage == 'vla':
                        pre.append(VLA('a', el, Lit(INT, 4)))
                        pre += [Assign(Index(a, Lit(INT, k)), fill(k)) for k in range(4)]
                    elif storage == 'literal':
                        pre.append(Decl('a', t, ArrLit([fill(k) for k in range(4)], el, False)))
                    elif storage == 'global':
                        lits = [fill(k) for k in range(4)]
                        for x in lits:
                            x.keep = True
                        gl.append(Decl('a', t, ArrLit(lits, el, False)))
                    # a guard array directly above `a` on the array stack
                    pre.append(Decl('guard', Arr(INT, False), ArrLit([arg(0), arg(0)], INT, False)))
                    call = Call(bump, [Lit(INT, to)])
                    elem = Index(a, gi)
                    if form == 'assign':
                        st = [Assign(elem, call)]
                    elif form == 'assign_offset':
                        st = [Assign(Index(a, Bin('+', gi, arg(1))), call)]
                    elif form == 'opassign':
                        st = [OpAssign(elem, '+', call)]
                    elif form == 'read_then_call':
                        st = [ExprStmt(Call(two, [elem, call]))]
                    elif form == 'args':
                        st = [W(gi), _mark(' '), ExprStmt(Call(two, [Index(a, Bin('%', Bin('+', gi, _i(8)), _i(4))), call]))]
                    elif form == 'literal_elems':
                        st = [Decl('lit', Arr(el, True), ArrLit([elem, call, Index(a, Lit(INT, 0))], el, True)),
                              W(Index(Var('lit', Arr(el, True)), Lit(INT, 0))), _mark(','), W(Index(Var('lit', Arr(el, True)), Lit(INT, 1)))]
                    elif form == 'index_then_scalar':
                        st = [Decl('keep', INT, Bin('+', Bin('*', gi, _i(100)), Len(Call(Func('bs', [('to', INT, False)], STRING,
                                   [Assign(gi, Var('to', INT)), Ret(S('xyz'))]), [Lit(INT, to)])))), W(Var('keep', INT))]
                    else:
                        st = [If(Bin('<', Cast(elem, INT) if el == BYTE else elem, Cast(call, INT) if el == BYTE else call), [_mark('T')], [_mark('F')])]
                    dump = [_mark('|')] + [x for k in range(4) for x in (W(Index(a, Lit(INT, k))), _mark(','))] + \
                           [W(gi), _mark(' '), W(Index(Var('guard', Arr(INT, False)), Lit(INT, 0))), W(Index(Var('guard', Arr(INT, False)), Lit(INT, 1))), _mark('\n')]
                    work = pre + [_mark('[')] + st + dump
                    funcs = [bump, two]
                    for s_ in st:
                        for e in stmt_exprs(s_):
                            for sub in walk_expr(e):
                                if isinstance(sub, Call) and isinstance(sub.func, Func) and sub.func.name == 'bs':
                                    funcs.append(sub.func)
                    if storage == 'param':
                        worker = Func('worker', [('a', t, False), ('v', Arr(INT, True), False)], EMPTY, work)
                        main = Func('@is_you', [('v', Arr(INT, True), False)], EMPTY,
                                    [Decl('mine', t, ArrLit([fill(k) for k in range(4)], el, False)), ExprStmt(Call(worker, [Var('mine', t), ARG])),
                                     W(Index(Var('mine', t), Lit(INT, 1)))])
                        funcs = [main, worker] + funcs
                    else:
                        funcs = [Func('@is_you', [('v', Arr(INT, True), False)], EMPTY, work)] + funcs
                    yield f'capture/{el}/{storage}/{form}/to{to}', Program(gl, funcs)


CAPTURE_ARGS = [['7', '0'], ['-3', '1']]


# --------------------------------------------------------- speculation grid
def spec_programs():
    """`a ?? b` for every kind of left and right operand in every place an expression can stand in a you-function"""
    idf = Func('idf', [('x', INT, False)], INT, [_mark('i'), Ret(Var('x', INT))])
    two = Func('two', [('x', INT, False), ('y', INT, False)], INT, [Ret(Bin('-', Bin('*', Var('x', INT), _i(3)), Var('y', INT)))])
    n, k, x = Var('n', INT), Var('k', INT), Var('x', INT)
    q = Var('q', Arr(INT, False))
    gm = Var('gm', INT)
    lefts = {
        'param': lambda: n, 'local': lambda: x, 'global': lambda: gm, 'literal': lambda: Lit(INT, 4),
        'computed': lambda: Bin('-', n, _i(3)), 'call': lambda: Call(idf, [n]), 'elem': lambda: Index(q, Lit(INT, 1)),
    }
    rights = {
        'mul': lambda: Bin('*', k, _i(2)), 'add': lambda: Bin('+', k, _i(2)), 'call': lambda: Call(idf, [Bin('*', k, _i(2))]),
        'param': lambda: k, 'literal': lambda: Lit(INT, 4), 'elem': lambda: Index(q, Lit(INT, 0)), 'neg': lambda: Un('-', k),
        'cast': lambda: Cast(Cast(Bin('*', k, _i(2)), BYTE), INT),
    }
    for ln, L in lefts.items():
        for rn, R in rights.items():
            mk = lambda: Spec(L(), R())    # noqa: E731
            helper = Func('@h', [('n', INT, False), ('k', INT, False), ('x', INT, False), ('q', Arr(INT, False), False)], INT, [Ret(mk())])
            body = [Decl('q', Arr(INT, False), ArrLit([Bin('*', k, _i(2)), n, Lit(INT, 9)], INT, False)),
                    Decl('x', INT, n), Assign(gm, n),
                    Decl('d', INT, mk()), W(Var('d', INT)), _mark(' '),
                    Assign(x, mk()), W(x), _mark(' '), Assign(x, n),
                    Assign(gm, mk()), W(gm), _mark(' '), Assign(gm, n),
                    # the speculation wrapped in something, assigned to the global its left operand may read
                    Assign(gm, Un('-', mk())), W(gm), _mark(' '), Assign(gm, n),
                    Assign(gm, Un('+', mk())), W(gm), _mark(' '), Assign(gm, n),
                    Assign(gm, Cast(Cast(mk(), BYTE), INT)), W(gm), _mark(' '), Assign(gm, n),
                    Assign(gm, Cast(Bin('==', mk(), k), INT)), W(gm), _mark(' '), Assign(gm, n),
                    OpAssign(gm, '+', mk()), W(gm), _mark(' '), Assign(gm, n),
                    OpAssign(gm, '-', Un('-', mk())), W(gm), _mark(' '), Assign(gm, n),
                    Assign(Index(q, Lit(INT, 2)), mk()), W(Index(q, Lit(INT, 2))), _mark(' '),
                    W(mk()), _mark(' '),
                    W(Call(two, [k, mk()])), _mark(' '),
                    W(Call(two, [mk(), k])), _mark(' '),
                    W(Bin('+', mk(), _i(1))), _mark(' '),
                    W(Bin('+', k, mk())), _mark(' '),
                    W(Bin('-', Bin('*', k, k), mk())), _mark(' '),
                    W(Index(q, Bin('%', Bin('*', mk(), mk()), _i(3)))), _mark(' '),
                    If(Bin('>', mk(), k), [_mark('T')], [_mark('F')]),
                    W(Call(helper, [n, k, x, q])), _mark('\n')]
            main = Func('@is_you', [('n', INT, False), ('k', INT, False)], EMPTY, body)
            yield f'spec/{ln}/{rn}', Program([Decl('gm', INT, _i(5))], [main, idf, two, helper])


SPEC_ARGS = [['7', '2'], ['4', '2'], ['-4', '-2'], ['0', '0'], ['300', '150']]


# ------------------------------------------------ constant arrays side by side
def table_programs(keep=True):
    """constant arrays of different element types whose values coincide, declared side by side (global and local, const
    and mutable) and passed by reference: each name must keep meaning its own elements"""
    seqs = [[1, 0, 1], [1, 1], [3], [0], [0, 0, 0], [1], [1, 0, 0], [2, 3, 5, 7], [0] * 8 + [1], [1] + [0] * 8, [65, 66]]
    # keep=False lets the opaque rendering route the elements through the mutable global (C14 twins); globals stay literal
    mk = {INT: lambda v: Lit(INT, v, keep=keep), BYTE: lambda v: Lit(BYTE, v, keep=keep), BOOL: lambda v: Lit(BOOL, bool(v), keep=keep)}
    shows = {}
    for el in (INT, BYTE, BOOL):
        p = Var('p', Arr(el, True))
        i = Var('i', INT)
        shows[el] = Func('show_' + el, [('p', Arr(el, True), False)], EMPTY,
                         [W(Len(p)), _mark(':'),
                          For(Decl('i', INT, _i(0)), Bin('<', i, Len(p)), OpAssign(i, '+', _i(1)),
                              [W(Cast(Index(p, i), INT) if el == BYTE else Index(p, i)), _mark(',')]), _mark('|')])
    for order in ((INT, BYTE, BOOL), (BOOL, BYTE, INT), (BYTE, BOOL, INT), (BOOL, INT, BYTE)):
        for where in ('global', 'local', 'mixed'):
            gl, body = [], []
            k = 0
            for seq in seqs:
                for el in order:
                    if el == BOOL and any(v > 1 for v in seq):
                        continue
                    k += 1
                    const = k % 3 != 0
                    t = Arr(el, const)
                    if where == 'global' or (where == 'mixed' and k % 2):
                        gl.append(Decl(f'c{k}', t, ArrLit([Lit(el, bool(v) if el == BOOL else v, keep=True) for v in seq], el, const)))
                    else:
                        body.append(Decl(f'c{k}', t, ArrLit([mk[el](v) for v in seq], el, const)))
                    body.append(ExprStmt(Call(shows[el], [Var(f'c{k}', t)])))
                    body.append(W(Index(Var(f'c{k}', t), Lit(INT, len(seq) - 1))) if el != BYTE else W(Cast(Index(Var(f'c{k}', t), Lit(INT, len(seq) - 1)), INT)))
                    body.append(_mark('\n'))
            main = Func('@is_you', [('v', Arr(INT, True), False)], EMPTY, body)
            yield f'tables/{"-".join(order)}/{where}', Program(gl, [main] + list(shows.values()))


TABLE_ARGS = [['0']]


# ------------------------------------------------ entry-point argument binding
def entry_programs():
    """every @is_you signature of up to three parameters with at most one array at any position: scalars before and
    after the array, element types int/byte/string, 0, 1 and 3 array arguments.  yields (tag, Program, args)"""
    import itertools
    text = {INT: ['-7', '300', '12'], BYTE: ['65', '255', '0'], STRING: ['hey', '', 'x y']}
    canary = Decl('canary', INT, _i(1234))
    for n in (0, 1, 2):
        for kinds in itertools.product((INT, BYTE, STRING), repeat=n):
            for arr_at in [None] + list(range(n + 1)):
                for el in ((INT, BYTE, STRING) if arr_at is not None else (None,)):
                    for k in ((0, 1, 3) if arr_at is not None else (0,)):
                        params, args, body = [], [], []
                        for i in range(n + 1):
                            if arr_at == i:
                                t = Arr(el, True)
                                params.append(('arr', t, False))
                                a = Var('arr', t)
                                args += [text[el][j % 3] for j in range(k)]
                                j = Var('j', INT)
                                body += [W(S('len=')), W(Len(a)), _mark(' '),
                                         For(Decl('j', INT, _i(0)), Bin('<', j, Len(a)), OpAssign(j, '+', _i(1)),
                                             [W(Cast(Index(a, j), INT) if el == BYTE else Index(a, j)), _mark(',')]), _mark(' ')]
                            if i < n:
                                nm = f'p{i}'
                                params.append((nm, kinds[i], False))
                                args.append(text[kinds[i]][i % 3])
                                v = Var(nm, kinds[i])
                                body += [W(S(nm + '=')), W(Cast(v, INT) if kinds[i] == BYTE else v), _mark(' ')]
                        body += [W(Var('canary', INT)), _mark('\n')]
                        main = Func('@is_you', params, EMPTY, body)
                        yield (f'entry/{"-".join(kinds) or "none"}/arr@{arr_at}/{el}/k{k}', Program([canary], [main]), args)


def capture_scalar_programs():
    """the same discipline for mutable globals of every scalar type (int, byte, bool, string) used as the LEFT operand of
    an operator, as an argument, or as an index, while the right-hand side calls a function that assigns the global"""
    for gt in (INT, BYTE, BOOL, STRING):
        g = Var('gv', gt)
        first = {INT: Lit(INT, 100, keep=True), BYTE: Lit(BYTE, 2, keep=True), BOOL: Lit(BOOL, True, keep=True), STRING: Lit(STRING, b'ab', keep=True)}[gt]
        second = {INT: Lit(INT, 3), BYTE: Lit(BYTE, 7), BOOL: Lit(BOOL, False), STRING: S('wxyz')}[gt]
        setv = Func('setv', [], gt, [Assign(g, second), _mark('s'), Ret(second)])
        seti = Func('seti', [], INT, [Assign(g, second), _mark('s'), Ret(Lit(INT, 5))])
        two = Func('two', [('x', gt, False), ('y', gt, False)], EMPTY, [W(S('<')), W(Cast(Var('x', BYTE), INT) if gt == BYTE else Var('x', gt)), _mark(','),
                                                                        W(Cast(Var('y', BYTE), INT) if gt == BYTE else Var('y', gt)), W(S('>'))])
        reset = Assign(g, {INT: Lit(INT, 100), BYTE: Lit(BYTE, 2), BOOL: Lit(BOOL, True), STRING: S('ab')}[gt])
        forms = {}
        if gt in (INT, BYTE):
            for op in ('+', '-', '*', '<', '>=', '==', '!='):
                forms[f'left_of_{op}_same_type'] = lambda op=op: [W(Bin(op, g, Call(setv, [])))]
                forms[f'left_of_{op}_int_call'] = lambda op=op: [W(Bin(op, g, Call(seti, [])))]
        if gt == BOOL:
            for op in ('==', '!='):
                forms[f'left_of_{op}'] = lambda op=op: [W(Bin(op, g, Call(setv, [])))]
            forms['condition_compare'] = lambda: [If(Bin('==', g, Call(setv, [])), [_mark('T')], [_mark('F')])]
        if gt == STRING:
            forms['length_left_of_+'] = lambda: [W(Bin('+', Len(g), Call(seti, [])))]
            forms['index_then_call'] = lambda: [W(Bin('+', Cast(Index(g, Lit(INT, 1)), INT), Call(seti, [])))]
        forms['first_argument'] = lambda: [ExprStmt(Call(two, [g, Call(setv, [])]))]
        forms['literal_element'] = lambda: [Decl('lit', Arr(gt, True), ArrLit([g, Call(setv, []), g], gt, True)),
                                            ExprStmt(Call(two, [Index(Var('lit', Arr(gt, True)), Lit(INT, 0)), Index(Var('lit', Arr(gt, True)), Lit(INT, 2))]))]
        if gt in (INT, BYTE):
            for el in (INT, BYTE, BOOL):
                val = {INT: Call(seti, []), BYTE: Cast(Call(seti, []), BYTE), BOOL: Bin('>', Call(seti, []), Lit(INT, 1))}[el]
                forms[f'index_of_{el}_store'] = lambda el=el, val=val: [
                    Decl('a', Arr(el, False), ArrLit([{INT: Lit(INT, 10 + k), BYTE: Lit(BYTE, 97 + k), BOOL: Lit(BOOL, False)}[el] for k in range(8)], el, False)),
                    Assign(Index(Var('a', Arr(el, False)), Bin('%', g, Lit(INT, 8, keep=True)) if gt == INT else g), val)] + \
                    [x for k in range(8) for x in (W(Cast(Index(Var('a', Arr(el, False)), Lit(INT, k)), INT) if el == BYTE else Index(Var('a', Arr(el, False)), Lit(INT, k))), _mark(','))]
                if el != BOOL:
                    forms[f'index_of_{el}_opassign'] = lambda el=el: [
                        Decl('a', Arr(el, False), ArrLit([{INT: Lit(INT, 10 + k), BYTE: Lit(BYTE, 97 + k)}[el] for k in range(8)], el, False)),
                        OpAssign(Index(Var('a', Arr(el, False)), Bin('%', g, Lit(INT, 8, keep=True)) if gt == INT else g), '+',
                                 Call(seti, []) if el == INT else Cast(Call(seti, []), BYTE))] + \
                        [x for k in range(8) for x in (W(Cast(Index(Var('a', Arr(el, False)), Lit(INT, k)), INT) if el == BYTE else Index(Var('a', Arr(el, False)), Lit(INT, k))), _mark(','))]
        for fn, mk in forms.items():
            body = [_mark('[')] + mk() + [_mark('|'), W(Cast(g, INT) if gt == BYTE else g), _mark(']'), reset, _mark('\n')]
            main = Func('@is_you', [('v', Arr(INT, True), False)], EMPTY, body)
            yield f'capture-scalar/{gt}/{fn}', Program([Decl('gv', gt, first)], [main, setv, seti, two])


def narrowing_programs():
    """a *computed* int narrowed to byte (explicit cast, byte variable, byte parameter, byte return) and then used where the
    un-narrowed register would be visible: index of loads/stores/compound stores on int[], byte[], bool[], dynamic array
    length, arithmetic, comparison, widening back.  v[0] is chosen around multiples of 256."""
    def computed(k):
        return [Bin('+', arg(0), _i(2)), Bin('-', Bin('*', arg(0), _i(2)), arg(0)), Un('-', Un('-', arg(0))), Bin('+', arg(0), arg(1))][k]
    asb = Func('asb', [('x', BYTE, False)], BYTE, [Ret(Var('x', BYTE))])
    retb = Func('retb', [('x', INT, False)], BYTE, [Ret(Cast(Bin('+', Var('x', INT), _i(0)), BYTE))])
    narrowers = {
        'cast': lambda e: Cast(e, BYTE),
        'byte_param': lambda e: Call(asb, [Cast(e, BYTE)]),
        'byte_return': lambda e: Call(retb, [e]),
    }
    for k in range(4):
        for nn, nar in narrowers.items():
            for el in (INT, BYTE, BOOL):
                t = Arr(el, False)
                a = Var('a', t)
                val = {INT: Lit(INT, 77), BYTE: Lit(BYTE, 122), BOOL: Lit(BOOL, True)}[el]
                show = lambda i: (W(Cast(Index(a, i), INT)) if el == BYTE else W(Index(a, i)))    # noqa: E731
                idx = lambda: nar(computed(k))                                                       # noqa: E731
                body = [VLA('a', el, Lit(INT, 256))]
                j = Var('j', INT)
                body.append(For(Decl('j', INT, _i(0)), Bin('<', j, _i(256)), OpAssign(j, '+', _i(1)),
                                [Assign(Index(a, j), {INT: j, BYTE: Cast(j, BYTE), BOOL: Bin('==', Bin('%', j, _i(3)), _i(0))}[el])]))
                body += [show(idx()), _mark(' '), Assign(Index(a, idx()), val), show(idx()), _mark(' ')]
                if el != BOOL:
                    body += [OpAssign(Index(a, idx()), '+', Lit(el, 1)), show(idx()), _mark(' ')]
                body += [show(Cast(idx(), INT)), _mark(' '), _mark('\n')]
                main = Func('@is_you', [('v', Arr(INT, True), False)], EMPTY, body)
                yield f'narrow/index/{k}/{nn}/{el}', Program([], [main, asb, retb])
            body = [VLA('d', INT, nar(computed(k))), W(Len(Var('d', Arr(INT, False)))), _mark(' '),
                    VLA('e', BOOL, nar(computed(k))), W(Len(Var('e', Arr(BOOL, False)))), _mark(' '),
                    VLA('f', BYTE, Bin('+', nar(computed(k)), _i(1))), W(Len(Var('f', Arr(BYTE, False)))), _mark(' '),
                    W(Cast(nar(computed(k)), INT)), _mark(' '), W(Bin('+', nar(computed(k)), _i(1))), _mark(' '),
                    W(Bin('*', _i(3), nar(computed(k)))), _mark(' '),
                    W(Bin('<', nar(computed(k)), _i(100))), _mark(' '), W(Bin('==', nar(computed(k)), Cast(computed(k), BYTE))), _mark(' '),
                    Decl('b', BYTE, nar(computed(k))), W(Cast(Var('b', BYTE), INT)), _mark(' '),
                    If(Bin('>=', nar(computed(k)), Lit(BYTE, 128)), [_mark('H')], [_mark('L')]),
                    W(Index(S('0123456789abcdef'), Bin('%', nar(computed(k)), _i(16)))), _mark('\n')]
            main = Func('@is_you', [('v', Arr(INT, True), False)], EMPTY, body)
            yield f'narrow/value/{k}/{nn}', Program([], [main, asb, retb])


NARROW_ARGS = [['254', '2'], ['255', '1'], ['300', '0'], ['600', '-90'], ['-1', '0'], ['510', '3']]


def fresh_literal_programs():
    """an array literal made of constants only, bound to a MUTABLE array: every evaluation (each call, each loop iteration,
    each call site) yields a fresh array with the written values, whatever was stored into an earlier one"""
    for el in (INT, BYTE, BOOL, STRING):
        t = Arr(el, False)
        lits = {INT: [1, 2, 3], BYTE: [65, 66, 67], BOOL: [True, False, True], STRING: [b'a', b'bc', b'd']}[el]
        mk = lambda: ArrLit([Lit(el, v) for v in lits], el, False)                           # noqa: E731
        newv = {INT: lambda n: Bin('+', n, Lit(INT, 10)), BYTE: lambda n: Cast(Bin('+', n, Lit(INT, 80)), BYTE), BOOL: lambda n: Bin('>', n, Lit(INT, 99)),
                STRING: lambda n: S('CHANGED')}[el]
        pr = lambda e: (W(Cast(e, INT)) if el == BYTE else W(e))                             # noqa: E731
        n = Var('n', INT)
        a = Var('a', t)
        dump = lambda arr: [x for k in range(3) for x in (pr(Index(arr, Lit(INT, k))), _mark(','))]     # noqa: E731
        work = Func('work', [('n', INT, False)], EMPTY, [Decl('a', t, mk())] + dump(a) + [Assign(Index(a, Lit(INT, 0)), newv(n)), Assign(Index(a, Lit(INT, 2)), newv(n))] + dump(a) + [_mark(';')])
        p = Var('p', t)
        take = Func('take', [('p', t, False), ('n', INT, False)], EMPTY, dump(p) + [Assign(Index(p, Lit(INT, 1)), newv(n))] + dump(p) + [_mark(';')])
        i = Var('i', INT)
        b = Var('b', t)
        loop = For(Decl('i', INT, _i(0)), Bin('<', i, _i(3)), OpAssign(i, '+', _i(1)),
                   [Decl('b', t, mk())] + dump(b) + [Assign(Index(b, Bin('%', i, _i(3))), newv(i))] + dump(b) + [_mark('/')])
        main = Func('@is_you', [('v', Arr(INT, True), False)], EMPTY,
                    [ExprStmt(Call(work, [arg(0)])), ExprStmt(Call(work, [arg(1)])), _mark('\n'), loop, _mark('\n'),
                     ExprStmt(Call(take, [mk(), arg(0)])), ExprStmt(Call(take, [mk(), arg(1)])), _mark('\n'),
                     ExprStmt(Call(work, [arg(0)])), _mark('\n')])
        yield f'fresh-literal/{el}', Program([], [main, work, take])
        # the same literal text also as a const global and a const local: these may be shared, the mutable ones may not
        cg = Decl('cg', Arr(el, True), ArrLit([Lit(el, v, keep=True) for v in lits], el, True))
        main2 = Func('@is_you', [('v', Arr(INT, True), False)], EMPTY,
                     [Decl('m', t, mk()), Assign(Index(Var('m', t), Lit(INT, 0)), newv(arg(0)))] + dump(Var('m', t)) + dump(Var('cg', Arr(el, True))) +
                     [Decl('c', Arr(el, True), ArrLit([Lit(el, v) for v in lits], el, True))] + dump(Var('c', Arr(el, True))) +
                     [Decl('m2', t, mk())] + dump(Var('m2', t)) + [_mark('\n')])
        yield f'fresh-literal-next-to-const/{el}', Program([cg], [main2])


FRESH_ARGS = [['5', '7'], ['200', '-1']]


# ------------------------------------------------------ try-block histories
def _defeat_funcs():
    K = Var('k', INT)
    d0 = Func('!d0', [('k', INT, False)], EMPTY, [_mark('d'), ExprStmt(Call('!truth_is_defeat', [Bin('==', K, _i(1))])), _mark('e')])
    dv = Func('!dv', [('k', INT, False)], INT, [_mark('v'), ExprStmt(Call('!truth_is_defeat', [Bin('==', K, _i(1))])), Ret(Bin('+', K, _i(5)))])
    loc = Var('loc', Arr(INT, False))
    da = Func('!da', [('k', INT, False)], EMPTY, [Decl('loc', Arr(INT, False), ArrLit([K, Bin('+', K, _i(1)), _i(9)], INT, False)), VLA('pad', BYTE, Lit(INT, 3)),
                                                   _mark('a'), ExprStmt(Call('!truth_is_defeat', [Bin('==', K, _i(1))])), W(Index(loc, Lit(INT, 1)))])
    dp = Func('!dp', [('k', INT, False)], EMPTY, [_mark('q'), Preempt([_mark('P'), Ret(None)]), ExprStmt(Call('!truth_is_defeat', [Bin('==', K, _i(1))])), _mark('r')])
    return d0, dv, da, dp


def _source(kind, c, fs):
    d0, dv, da, dp = fs
    return {
        'none': [],
        'direct': [If(Bin('==', c, _i(1)), [ExprStmt(Call('!is_defeat', []))])],
        'tid': [ExprStmt(Call('!truth_is_defeat', [Bin('==', c, _i(1))]))],
        'call': [ExprStmt(Call(d0, [c]))],
        'nested': [W(Call(dv, [c]))],
        'arrays': [ExprStmt(Call(da, [c]))],
        'preempting': [ExprStmt(Call(dp, [c]))],
    }[kind]


SOURCES = ('none', 'direct', 'tid', 'call', 'nested', 'arrays', 'preempting')


def history_programs():
    """(a) every ordered pair of try blocks (undo/stop x 7 ways in which defeat may arise) run one after the other and then
    the first one again: whatever the first leaves behind (defeat target, saved frame, array stack) meets the second;
    (b) one try block inside a loop of a you-function for every combination of the route by which the body and the handler
    are left (fall through, break, continue, return).  v[0], v[1] decide at run time which bodies reach defeat."""
    g = Var('g', INT)
    fs = _defeat_funcs()

    def try_stmt(kind, src, c, tagc):
        t = Var('t' + tagc, Arr(INT, False))
        body = [_mark(tagc), OpAssign(g, '+', _i(1)), Decl('t' + tagc, Arr(INT, False), ArrLit([g, c], INT, False)), W(Index(t, Lit(INT, 0)))] + \
            _source(src, c, fs) + [_mark('.')]
        return Try(body, kind, [_mark(kind[0]), W(g), OpAssign(g, '+', _i(10))])
    combos = [(k, s) for k in ('undo', 'stop') for s in SOURCES]
    for k1, s1 in combos:
        for k2, s2 in combos:
            main = Func('@is_you', [('v', Arr(INT, True), False)], EMPTY,
                        [try_stmt(k1, s1, arg(0), 'A'), W(g), _mark(' '), try_stmt(k2, s2, arg(1), 'B'), W(g), _mark(' '),
                         try_stmt(k1, s1, arg(0), 'C'), W(g), _mark(' '), try_stmt(k2, s2, arg(0), 'D'), W(g), _mark('\n')])
            yield f'history/{k1}-{s1}/{k2}-{s2}', Program([Decl('g', INT, _i(0))], [main] + list(fs))
            if s1 in ('call', 'arrays', 'nested', 'preempting') and s2 in ('call', 'arrays', 'nested', 'preempting'):
                # the second block lives in ANOTHER you-function, called (and compiled) after the defeat functions were first used
                second = Func('@second', [('v', Arr(INT, True), False)], EMPTY, [try_stmt(k2, s2, arg(1), 'B'), W(g), _mark(' '), try_stmt(k2, s2, arg(0), 'D'), W(g), _mark(';')])
                main2 = Func('@is_you', [('v', Arr(INT, True), False)], EMPTY,
                             [try_stmt(k1, s1, arg(0), 'A'), W(g), _mark(' '), ExprStmt(Call(second, [ARG])), try_stmt(k1, s1, arg(1), 'C'), W(g), _mark(' '),
                              ExprStmt(Call(second, [ARG])), _mark('\n')])
                yield f'history-two-functions/{k1}-{s1}/{k2}-{s2}', Program([Decl('g', INT, _i(0))], [main2, second] + list(fs))
    # (a') a try nested in the HANDLER of the first block (in its own you-function), then further blocks: an inner handler that
    # ran must not stay armed, an inner body that was undone must leave no trace
    for k1 in ('undo', 'stop'):
        for kin in ('undo', 'stop'):
            for s_in in ('tid', 'call', 'arrays', 'nested'):
                for k2, s2 in (('undo', 'call'), ('stop', 'call'), ('undo', 'tid')):
                    inner = try_stmt(kin, s_in, arg(1), 'I')
                    outer = Try([_mark('A'), OpAssign(g, '+', _i(1))] + _source('call', arg(0), fs) + [_mark('.')], k1, [_mark(k1[0]), inner, W(g), OpAssign(g, '+', _i(10))])
                    guard = Func('@guard', [('v', Arr(INT, True), False)], EMPTY, [outer, W(g), _mark(';')])
                    main = Func('@is_you', [('v', Arr(INT, True), False)], EMPTY,
                                [ExprStmt(Call(guard, [ARG])), try_stmt(k2, s2, arg(0), 'B'), W(g), _mark(' '), try_stmt(k2, s2, arg(1), 'C'), W(g), _mark(' '),
                                 ExprStmt(Call(guard, [ARG])), try_stmt('undo', 'call', Bin('-', _i(1), arg(0)), 'D'), W(g), _mark('\n')])
                    yield f'history-nested-handler/{k1}/{kin}-{s_in}/{k2}-{s2}', Program([Decl('g', INT, _i(0))], [main, guard] + list(fs))
    routes = ('fall', 'break', 'continue', 'return')

    def leave(r):
        return {'fall': [], 'break': [Break()], 'continue': [Continue()], 'return': [Ret(Bin('+', g, _i(100)))]}[r]
    i = Var('i', INT)
    for kind in ('undo', 'stop'):
        for src in ('tid', 'call', 'arrays', 'nested'):
            for rb in routes:
                for rh in routes:
                    c = Bin('==', Bin('%', Bin('+', i, arg(0)), _i(2)), _i(1))      # defeat on alternating iterations
                    cexpr = Cast(c, INT)
                    t = Var('tl', Arr(INT, False))
                    body = [_mark('b'), OpAssign(g, '+', _i(1)), Decl('tl', Arr(INT, False), ArrLit([g, i], INT, False)), W(Index(t, Lit(INT, 1)))] + \
                        _source(src, cexpr, fs) + [_mark('.')] + leave(rb)
                    handler = [_mark(kind[0]), OpAssign(g, '+', _i(10))] + leave(rh)
                    loop = For(Decl('i', INT, _i(0)), Bin('<', i, _i(4)), OpAssign(i, '+', _i(1)),
                               [Decl('keep', Arr(INT, False), ArrLit([i, g], INT, False)), Try(body, kind, handler), _mark('m'), W(Index(Var('keep', Arr(INT, False)), Lit(INT, 0)))])
                    w = Func('@w', [('v', Arr(INT, True), False)], INT, [loop, _mark('z'), Ret(g)])
                    main = Func('@is_you', [('v', Arr(INT, True), False)], EMPTY,
                                [W(Call(w, [ARG])), _mark(' '), W(g), _mark(' '), W(Call(w, [ARG])), _mark(' '), W(g), _mark('\n')])
                    yield f'tryloop/{kind}/{src}/body-{rb}/handler-{rh}', Program([Decl('g', INT, _i(0))], [main, w] + list(fs))


HISTORY_ARGS = [['0', '0'], ['1', '0'], ['0', '1'], ['1', '1']]


# ------------------------------------------- statements and calls with a twist
def exprstmt_programs():
    """expression statements whose top node is not a call but which contain calls with effects, faults or defeat:
    each is evaluated exactly once, for its effects, in every build"""
    tick = Func('tick', [('k', INT, False)], INT, [W(S('t')), W(Var('k', INT)), OpAssign(Var('tn', INT), '+', _i(1)), Ret(Bin('+', Var('tn', INT), Var('k', INT)))])
    okf = Func('okf', [('k', INT, False)], BOOL, [W(S('o')), OpAssign(Var('tn', INT), '+', _i(10)), Ret(Bin('>', Var('k', INT), _i(0)))])
    q = Var('q', Arr(INT, False))
    T = lambda k: Call(tick, [Lit(INT, k)])                         # noqa: E731
    stmts = {
        'and': Bin('and', Call(okf, [arg(0)]), Bin('>', T(1), _i(0))),
        'or': Bin('or', Call(okf, [arg(0)]), Bin('>', T(2), _i(0))),
        'index': Index(q, Bin('%', T(3), _i(3))),
        'division': Bin('/', _i(100), T(4)),
        'modulo_by_call': Bin('%', arg(1), Bin('+', T(0), _i(1))),
        'negation': Un('-', T(5)),
        'not': Un('not', Call(okf, [T(6)])),
        'arith': Bin('+', T(7), Bin('*', T(8), _i(2))),
        'comparison': Bin('<', T(9), T(10)),
        'cast': Cast(T(11), BYTE),
        'length': Len(Index(Var('ws', Arr(STRING, True)), Bin('%', T(12), _i(2)))),
        'literal': ArrLit([T(13), T(14)], INT, True),
        'nested_index_call': Index(q, Bin('%', Bin('+', Index(q, Bin('%', T(15), _i(3))), _i(300)), _i(3))),
        'variable': Var('tn', INT),
        'speculation': Spec(T(16), _i(0)),
    }
    for sn, e in stmts.items():
        body = [Decl('q', Arr(INT, False), ArrLit([arg(0), arg(1), _i(3)], INT, False)),
                Decl('ws', Arr(STRING, True), ArrLit([S('ab'), S('c')], STRING, True)),
                _mark('['), ExprStmt(e), _mark(']'), W(Var('tn', INT)), _mark(' '),
                For(Decl('i', INT, _i(0)), Bin('<', Var('i', INT), _i(2)), OpAssign(Var('i', INT), '+', _i(1)), [ExprStmt(e)]), W(Var('tn', INT)), _mark('\n')]
        yield f'exprstmt/{sn}', Program([Decl('tn', INT, _i(0))], [Func('@is_you', [('v', Arr(INT, True), False)], EMPTY, body), tick, okf])


EXPRSTMT_ARGS = [['3', '4'], ['0', '7'], ['-2', '1']]


def tailcall_programs():
    """functions that end in a call of themselves whose arguments read the parameters in every order (accumulators,
    swaps, rotations), plus mutual recursion: the callee's parameters are the values computed from the CALLER's"""
    def F(name, params, body, ret=INT):
        return Func(name, [(p, INT, False) for p in params], ret, body)
    a, b, c, n = Var('a', INT), Var('b', INT), Var('c', INT), Var('n', INT)
    progs = {
        'gcd': (F('f', ['a', 'b'], [If(Bin('==', b, _i(0)), [Ret(a)]), Ret(Call('f', [b, Bin('%', a, b)], t=INT))]), [arg(0), arg(1)]),
        'swap_count': (F('f', ['a', 'b', 'n'], [If(Bin('<=', n, _i(0)), [Ret(Bin('-', Bin('*', a, _i(100)), b))]), Ret(Call('f', [b, a, Bin('-', n, _i(1))], t=INT))]),
                       [arg(0), arg(1), _i(3)]),
        'fib_acc': (F('f', ['n', 'a', 'b'], [If(Bin('<=', n, _i(0)), [Ret(a)]), Ret(Call('f', [Bin('-', n, _i(1)), b, Bin('+', a, b)], t=INT))]), [_i(10), _i(0), _i(1)]),
        'rotate': (F('f', ['a', 'b', 'c', 'n'], [If(Bin('<=', n, _i(0)), [Ret(Bin('+', Bin('*', a, _i(100)), Bin('+', Bin('*', b, _i(10)), c)))]),
                                                   Ret(Call('f', [c, a, b, Bin('-', n, _i(1))], t=INT))]), [_i(1), _i(2), _i(3), arg(2)]),
        'right_to_left_dependency': (F('f', ['a', 'b', 'n'], [If(Bin('<=', n, _i(0)), [Ret(Bin('-', a, b))]),
                                                                Ret(Call('f', [Bin('+', a, b), Bin('-', a, b), Bin('-', n, _i(1))], t=INT))]), [arg(0), arg(1), _i(4)]),
        'sum_down': (F('f', ['n', 'a'], [If(Bin('<=', n, _i(0)), [Ret(a)]), Ret(Call('f', [Bin('-', n, _i(1)), Bin('+', a, n)], t=INT))]), [_i(20), _i(0)]),
        'not_a_tail_call': (F('f', ['a', 'b'], [If(Bin('<=', a, _i(0)), [Ret(b)]), Ret(Bin('+', Call('f', [Bin('-', a, _i(1)), Bin('+', b, a)], t=INT), _i(1)))]), [_i(5), arg(0)]),
        'tail_call_in_branch': (F('f', ['a', 'b'], [If(Bin('>', a, _i(0)), [If(Bin('>', b, _i(50)), [Ret(Call('f', [Bin('-', a, _i(1)), Bin('-', b, a)], t=INT))],
                                                                                     [Ret(Call('f', [Bin('-', a, _i(1)), Bin('+', b, Bin('*', a, a))], t=INT))])]), Ret(b)]),
                                [_i(6), arg(0)]),
    }
    for name, (f, call_args) in progs.items():
        main = Func('@is_you', [('v', Arr(INT, True), False)], EMPTY, [W(Call(f, call_args)), _mark(' '), W(Call(f, list(reversed(call_args))[:len(f.params)] if len(call_args) == len(f.params) else call_args)), _mark('\n')])
        yield f'tailcall/{name}', Program([], [main, f])
    ev = Func('ev', [('n', INT, False), ('acc', INT, False)], INT, [If(Bin('==', n, _i(0)), [Ret(Var('acc', INT))]),
                                                                      Ret(Call('od', [Bin('-', n, _i(1)), Bin('+', Var('acc', INT), n)], t=INT))])
    od = Func('od', [('n', INT, False), ('acc', INT, False)], INT, [If(Bin('==', n, _i(0)), [Ret(Un('-', Var('acc', INT)))]),
                                                                      Ret(Call('ev', [Bin('-', n, _i(1)), Bin('-', Var('acc', INT), n)], t=INT))])
    main = Func('@is_you', [('v', Arr(INT, True), False)], EMPTY, [W(Call(ev, [_i(7), arg(0)])), _mark(' '), W(Call(od, [_i(4), arg(1)])), _mark('\n')])
    yield 'tailcall/mutual', Program([], [main, ev, od])


TAILCALL_ARGS = [['48', '18', '2'], ['7', '3', '5'], ['0', '9', '1']]


# ------------------------------------------------ globals side by side, bit-vectors
def global_neighbour_programs():
    """mutable globals of every scalar type declared next to each other, each assigned from every kind of expression
    (arithmetic, comparison, cast, call, element, unary); after every assignment ALL of them are printed: an assignment
    changes its own variable and nothing else, at every word size"""
    names = [('ga', BYTE, Lit(BYTE, 1, keep=True)), ('gf', BOOL, Lit(BOOL, False, keep=True)), ('gi', INT, _i(300)), ('gb', BYTE, Lit(BYTE, 2, keep=True)),
             ('gs', STRING, Lit(STRING, b'baba', keep=True)), ('gt', BOOL, Lit(BOOL, True, keep=True)), ('gc', BYTE, Lit(BYTE, 3, keep=True)), ('gj', INT, _i(-7))]
    V_ = {n: Var(n, t) for n, t, _ in names}
    idf = Func('idf', [('x', INT, False)], INT, [Ret(Bin('+', Var('x', INT), _i(1)))])

    def dump():
        out = []
        for n, t, _ in names:
            out += [W(Cast(V_[n], INT) if t == BYTE else V_[n]), _mark(',')]
        return out + [_mark('\n')]
    q = Var('q', Arr(INT, False))
    sources = {
        BYTE: [Cast(Bin('+', arg(0), _i(1)), BYTE), Cast(Call(idf, [arg(0)]), BYTE), Cast(Index(q, Lit(INT, 1)), BYTE), Index(S('xyz'), Bin('%', arg(0), _i(3))),
               Cast(Bin('>', arg(0), _i(2)), BYTE), Cast(Un('-', arg(0)), BYTE)],
        BOOL: [Bin('>', arg(0), _i(2)), Bin('==', Bin('%', arg(0), _i(2)), _i(1)), Cast(arg(0), BOOL), Un('not', Cast(arg(1), BOOL)),
               Bin('and', Bin('>', arg(0), _i(0)), Bin('<', arg(1), _i(9))), Bin('<', Call(idf, [arg(0)]), _i(3))],
        INT: [Bin('*', arg(0), _i(100)), Call(idf, [arg(1)]), Un('-', arg(0)), Cast(Cast(arg(0), BYTE), INT), Len(S('hello'))],
        STRING: [S('keke'), Index(Var('ws', Arr(STRING, True)), Bin('%', arg(0), _i(2)))],
    }
    for order in (0, 1):
        seq = names if order == 0 else list(reversed(names))
        body = [Decl('q', Arr(INT, False), ArrLit([arg(0), arg(1), _i(9)], INT, False)), Decl('ws', Arr(STRING, True), ArrLit([S('me'), S('flag')], STRING, True))] + dump()
        for n, t, _ in seq:
            for e in sources[t]:
                body += [Assign(V_[n], e)] + dump()
            if t in (INT, BYTE):
                body += [OpAssign(V_[n], '+', Lit(t, 1))] + dump()
        main = Func('@is_you', [('v', Arr(INT, True), False)], EMPTY, body)
        yield f'global-neighbours/order{order}', Program([Decl(n, t, init) for n, t, init in names], [main, idf])


NEIGHBOUR_ARGS = [['3', '4'], ['0', '300'], ['-1', '9']]


DIRTY = Func('dirty', [('k', INT, False)], EMPTY, [Decl('junk', Arr(INT, False), ArrLit([Un('-', Lit(INT, 1))] * 6 + [Var('k', INT)], INT, False)),
                                                   W(Index(Var('junk', Arr(INT, False)), Lit(INT, 6))), _mark(' ')])


def bitvector_programs():
    """bool arrays of 20 elements (stack literal with run-time entries, dynamic, global, parameter): every element written
    and read through a literal index, a local, a parameter, a computed expression and a global; groups of eight that are
    all false; a strict 0/1 wherever an element is used as a value"""
    n = 20
    for storage in ('literal', 'dynamic', 'global', 'const_literal'):
        t = Arr(BOOL, storage == 'const_literal')
        a = Var('a', t)
        gl, pre = [Decl('gk', INT, _i(0))], [ExprStmt(Call(DIRTY, [arg(0)]))]       # leave non-zero bytes where the array will be built
        elems = [Bin('==', Bin('%', Bin('+', arg(0), _i(k)), _i(3)), _i(0)) if k in (0, 17) else Lit(BOOL, k in (1, 2, 19)) for k in range(n)]      # elements 8..15: constant false
        if storage in ('literal', 'const_literal'):
            pre.append(Decl('a', t, ArrLit(elems, BOOL, storage == 'const_literal')))
        elif storage == 'dynamic':
            pre.append(VLA('a', BOOL, Bin('+', arg(1), _i(n))))
            pre += [Assign(Index(a, Lit(INT, k)), elems[k]) for k in range(n)]
        else:
            lits = [Lit(BOOL, k in (1, 2, 19), keep=True) for k in range(n)]
            gl.append(Decl('a', t, ArrLit(lits, BOOL, False)))
        i = Var('i', INT)
        show = lambda: [For(Decl('i', INT, _i(0)), Bin('<', i, Len(a)), OpAssign(i, '+', _i(1)), [W(Cast(Index(a, i), INT))]), _mark(' ')]   # noqa: E731
        body = pre + show()
        # reads through every kind of index, used as values (strict 0/1)
        p = Var('p', INT)
        for k in (0, 3, 7, 8, 9, 15, 16, 19):
            body += [W(Cast(Index(a, Lit(INT, k)), INT)), W(Bin('==', Index(a, Lit(INT, k)), Lit(BOOL, True))), W(Un('not', Index(a, Lit(INT, k)))), _mark(',')]
        body.append(_mark(' '))
        if storage != 'const_literal':
            reader = Func('flip', [('b', t, False), ('p', INT, False)], EMPTY, [Assign(Index(Var('b', t), p), Un('not', Index(Var('b', t), p))),
                                                                                 Assign(Index(Var('b', t), Bin('%', Bin('+', p, _i(8)), _i(n))), Lit(BOOL, True))])
            body += [Decl('loc', INT, Bin('+', arg(1), _i(9))), Assign(Index(a, Var('loc', INT)), Lit(BOOL, True)), Assign(Index(a, Lit(INT, 18)), Index(a, Lit(INT, 1))),
                     Assign(Index(a, Bin('+', Bin('*', arg(1), _i(2)), _i(12))), Bin('>', arg(0), _i(0))), Assign(Var('gk', INT), _i(13)),
                     Assign(Index(a, Var('gk', INT)), Lit(BOOL, True)), ExprStmt(Call(reader, [a, _i(11)])), ExprStmt(Call(reader, [a, Bin('+', arg(1), _i(3))]))] + show()
            funcs = [reader]
        else:
            funcs = []
        cnt = Func('count', [('b', Arr(BOOL, True), False)], INT, [Decl('c', INT, _i(0)),
                                                                    For(Decl('i', INT, _i(0)), Bin('<', i, Len(Var('b', Arr(BOOL, True)))), OpAssign(i, '+', _i(1)),
                                                                        [If(Index(Var('b', Arr(BOOL, True)), i), [OpAssign(Var('c', INT), '+', _i(1))])]), Ret(Var('c', INT))])
        body += [W(Call(cnt, [a])), _mark('\n')]
        main = Func('@is_you', [('v', Arr(INT, True), False)], EMPTY, body)
        yield f'bitvector/{storage}', Program(gl, [main] + funcs + [cnt, DIRTY])


BITVECTOR_ARGS = [['0', '0'], ['1', '0'], ['2', '0']]


def overload_arity_programs():
    """overloads of one name that differ in ARITY (and in parameter types), declared in every order; calls whose arguments
    need a coercion: the call goes to the overload with that many parameters, and every argument is evaluated once"""
    import itertools
    tick = Func('tick', [('k', INT, False)], INT, [W(S('t')), W(Var('k', INT)), Ret(Bin('+', Var('k', INT), _i(1)))])

    def fam():
        f1 = Func('ov', [('x', INT, False)], EMPTY, [W(S('<1:')), W(Var('x', INT)), W(S('>'))], tag='ov')
        f2 = Func('ov', [('x', INT, False), ('y', INT, False)], EMPTY, [W(S('<2:')), W(Var('x', INT)), _mark(','), W(Var('y', INT)), W(S('>'))], tag='ov')
        f3 = Func('ov', [('x', BYTE, False), ('y', INT, False), ('z', BOOL, False)], EMPTY,
                  [W(S('<3:')), W(Cast(Var('x', BYTE), INT)), _mark(','), W(Var('y', INT)), _mark(','), W(Var('z', BOOL)), W(S('>'))], tag='ov')
        f0 = Func('ov', [], EMPTY, [W(S('<0>'))], tag='ov')
        return f0, f1, f2, f3
    for perm in itertools.permutations(range(4)):
        f = fam()
        b = Var('b', BYTE)
        body = [Decl('b', BYTE, Cast(arg(0), BYTE)),
                ExprStmt(Call(f[2], [Lit(INT, 1), Lit(INT, 2)])), ExprStmt(Call(f[2], [b, Call(tick, [Lit(INT, 2)])])), ExprStmt(Call(f[1], [b])),
                ExprStmt(Call(f[3], [b, b, Bin('>', arg(0), _i(1))])), ExprStmt(Call(f[0], [])), ExprStmt(Call(f[2], [Call(tick, [Lit(INT, 5)]), b])),
                ExprStmt(Call(f[1], [Call(tick, [Lit(INT, 7)])])), ExprStmt(Call(f[3], [Lit(BYTE, 65), Call(tick, [Lit(INT, 9)]), Lit(BOOL, True)])), _mark('\n')]
        main = Func('@is_you', [('v', Arr(INT, True), False)], EMPTY, body)
        yield 'overload-arity/' + ''.join(str(i) for i in perm), Program([], [f[i] for i in perm] + [main, tick])


def const_shadow_programs():
    """a constant global and locals of the same name and type (constant with a literal initialiser, constant with a computed one,
    mutable, a parameter) in a nested block, in another function and in a for-initialiser: every use outside the local's scope -
    later in the same function, in functions declared or compiled before and after - still means the global's value"""
    vals = {INT: (3, 7, 5), BYTE: (65, 70, 75), BOOL: (True, False, False), STRING: (b'glob', b'blk', b'fn')}

    def use(t, v):
        if t == INT:
            return [W(v), _mark(','), W(Bin('+', v, _i(100))), _mark(','), W(Index(S('abcdefghij'), v)), _mark(' ')]
        if t == BYTE:
            return [W(v), _mark(','), W(Bin('+', v, Lit(BYTE, 1))), _mark(' ')]
        if t == BOOL:
            return [W(v), _mark(','), W(Un('not', v)), _mark(','), If(v, [_mark('T')], [_mark('F')]), _mark(' ')]
        return [W(v), _mark(','), W(Len(v)), _mark(' ')]
    for t in (INT, BYTE, BOOL, STRING):
        v0, v1, v2 = vals[t]
        for kind in ('const_literal', 'const_computed', 'mutable', 'param'):
            for order in (0, 1, 2):
                G = Var('N', t, cv=v0)

                def local(v, kind=kind):
                    """(declaration, variable) of a local named N"""
                    lit = Lit(t, v, keep=(kind == 'const_literal'))
                    if kind == 'const_literal':
                        return Decl('N', t, lit, const=True), Var('N', t, cv=v)
                    if kind == 'const_computed':
                        if t in (INT, BYTE):
                            init = Bin('+', Var('n', INT), _i(v - 1))
                            init = Cast(init, BYTE) if t == BYTE else init
                        elif t == BOOL:
                            init = Bin('==', Var('n', INT), _i(1 if v else 0))
                        else:
                            init = Index(ArrLit([S('x'), Lit(STRING, v)], STRING, True), Var('n', INT))
                        return Decl('N', t, init, const=True), Var('N', t)
                    return Decl('N', t, lit), Var('N', t)
                show = Func('show', [], EMPTY, [_mark('s')] + use(t, G))
                d1, l1 = local(v1)
                inner = Func('inner', [('n', INT, False)], EMPTY, [_mark('i')] + use(t, G) + [Block([d1] + use(t, l1) + [ExprStmt(Call(show, []))])] + use(t, G) +
                             [For(Decl('N', INT, _i(0)), Bin('<', Var('N', INT), _i(2)), OpAssign(Var('N', INT), '+', _i(1)), [W(Var('N', INT))]), _mark(' ')] + use(t, G))
                if kind == 'param':
                    shadow = Func('shadow', [('N', t, False), ('n', INT, False)], EMPTY, [_mark('p')] + use(t, Var('N', t)) + [ExprStmt(Call(show, []))])
                    call_shadow = Call(shadow, [Lit(t, v2), arg(0)])
                else:
                    d2, l2 = local(v2)
                    shadow = Func('shadow', [('n', INT, False)], EMPTY, [_mark('f'), d2] + use(t, l2) + [ExprStmt(Call(show, []))])
                    call_shadow = Call(shadow, [arg(0)])
                after = Func('after', [], t, [_mark('a')] + use(t, G) + [Ret(G)])
                res_ = Call(after, [])
                body = [ExprStmt(Call(show, [])), ExprStmt(Call(inner, [arg(0)])), ExprStmt(call_shadow), W(Cast(res_, INT) if t == BYTE else res_), _mark(' ')] + use(t, G) + [_mark('\n')]
                main = Func('@is_you', [('v', Arr(INT, True), False)], EMPTY, body)
                funcs = {0: [main, inner, shadow, after, show], 1: [show, after, shadow, inner, main], 2: [shadow, main, after, inner, show]}[order]
                yield f'const-shadow/{t}/{kind}/order{order}', Program([Decl('N', t, Lit(t, v0, keep=True), const=True)], funcs)


CONST_SHADOW_ARGS = [['1']]


def spec_bool_programs():
    """`a ?? b` on bool and byte operands (calls, variables, comparisons, elements against literals true / false, variables, comparisons,
    calls) where a condition is expected - if, while, not, and / or operand, !truth_is_defeat via a defeat function's argument - and as a
    value; each as the very FIRST statement of its function (registers as the caller left them) and again after other statements"""
    n, k = Var('n', INT), Var('k', INT)
    ready = Func('ready', [('x', INT, False)], BOOL, [_mark('r'), Ret(Bin('>', Var('x', INT), _i(2)))])
    chr_ = Func('chr', [('x', INT, False)], BYTE, [_mark('c'), Ret(Cast(Bin('+', Var('x', INT), _i(60)), BYTE))])
    fa = Var('fa', Arr(BOOL, False))
    lefts = {'call': lambda: Call(ready, [n]), 'param': lambda: Var('f', BOOL), 'compare': lambda: Bin('>', n, _i(2)), 'elem': lambda: Index(fa, Lit(INT, 1)),
             'not_call': lambda: Un('not', Call(ready, [n])), 'literal': lambda: Lit(BOOL, True)}
    rights = {'true': lambda: Lit(BOOL, True), 'false': lambda: Lit(BOOL, False), 'param': lambda: Var('g', BOOL), 'compare': lambda: Bin('==', k, _i(1)),
              'call': lambda: Call(ready, [k]), 'elem': lambda: Index(fa, Lit(INT, 0))}
    for ln, L in lefts.items():
        for rn, R in rights.items():
            mk = lambda: Spec(L(), R())    # noqa: E731
            params = [('n', INT, False), ('k', INT, False), ('f', BOOL, False), ('g', BOOL, False), ('fa', Arr(BOOL, False), False)]
            positions = {
                'if': [If(mk(), [_mark('T')], [_mark('F')])],
                'if_not': [If(Un('not', mk()), [_mark('T')], [_mark('F')])],
                'while': [While(mk(), [_mark('w'), OpAssign(n, '-', _i(7)), OpAssign(k, '+', _i(7)), Assign(Var('f', BOOL), Lit(BOOL, False)), Assign(Var('g', BOOL), Lit(BOOL, True)),
                                       Assign(Index(fa, Lit(INT, 1)), Lit(BOOL, False)), Assign(Index(fa, Lit(INT, 0)), Lit(BOOL, True)), If(Bin('<', n, _i(-40)), [Break()])]), _mark('e')],
                'and': [If(Bin('and', mk(), Bin('>', k, _i(-50))), [_mark('T')], [_mark('F')])],
                'or': [If(Bin('or', Bin('>', k, _i(50)), mk()), [_mark('T')], [_mark('F')])],
                'value': [W(mk())],
                'decl': [Decl('d', BOOL, mk()), W(Var('d', BOOL))],
                'as_int': [W(Bin('+', Cast(mk(), INT), _i(10)))],
                'return': [Ret(mk())],
            }
            funcs, calls = [], []
            for pn, stmts in positions.items():
                for first in (True, False):
                    pre = [] if first else [Decl('twice', INT, Bin('+', n, n)), W(S('x'))]
                    tail = [] if pn == 'return' else [Ret(Lit(BOOL, True))]
                    fn = Func(f'@{pn}_{"first" if first else "later"}', params, BOOL, pre + stmts + tail)
                    funcs.append(fn)
                    calls += [W(Call(fn, [n, k, Bin('>', n, k), Bin('<', n, _i(0)), fa])), _mark(' ')]
            body = [Decl('fa', Arr(BOOL, False), ArrLit([Bin('>', k, _i(0)), Bin('>', n, _i(0))], BOOL, False))] + calls + [_mark('\n')]
            main = Func('@is_you', [('n', INT, False), ('k', INT, False)], EMPTY, body)
            yield f'spec-bool/{ln}/{rn}', Program([], [main] + funcs + [ready, chr_])
    # byte operands
    for rn, R in (('literal', lambda: Lit(BYTE, 67)), ('call', lambda: Call(chr_, [k])), ('param', lambda: Var('b', BYTE))):
        for ln, L in (('call', lambda: Call(chr_, [n])), ('param', lambda: Var('a', BYTE)), ('cast', lambda: Cast(Bin('+', n, _i(60)), BYTE))):
            mk = lambda: Spec(L(), R())    # noqa: E731
            fn = Func('@pick', [('n', INT, False), ('k', INT, False), ('a', BYTE, False), ('b', BYTE, False)], BYTE,
                      [If(Bin('==', mk(), Lit(BYTE, 67)), [_mark('=')], [_mark('#')]), Decl('d', BYTE, mk()), W(Var('d', BYTE)), W(Cast(mk(), INT)), Ret(mk())])
            main = Func('@is_you', [('n', INT, False), ('k', INT, False)], EMPTY, [W(Call(fn, [n, k, Cast(Bin('+', n, _i(60)), BYTE), Cast(Bin('+', k, _i(60)), BYTE)])), _mark('\n')])
            yield f'spec-byte/{ln}/{rn}', Program([], [main, fn, chr_])


SPEC_BOOL_ARGS = [['7', '1'], ['1', '1'], ['1', '7'], ['3', '-3'], ['0', '0']]
