"""Scale grids: programs that push one count or size across the thresholds at which a
compiler's bookkeeping typically changes representation - frame offsets beyond 127 / 255
bytes, more than 8 / 127 / 255 / 256 elements, two- and three-digit label numbers, many
parameters, deep nesting - while everything else stays ordinary.  RefInt is the oracle; all
programs take `const int[] v` so that nothing is folded.  Enumerated, not sampled."""
from ..model.ast import *  # noqa: F401,F403
from .faultgrid import W, _mark, ARG, arg  # noqa: F401

S = lambda s: Lit(STRING, s.encode())  # noqa: E731


def _i(v):
    return Lit(INT, v, keep=True)


def _wi(e):
    return W(Cast(e, INT) if e.t == BYTE else e)


H = Func('h', [('x', INT, False)], INT, [Decl('p', INT, Bin('*', Var('x', INT), _i(3))), Decl('q', BYTE, Cast(Bin('+', Var('x', INT), _i(1)), BYTE)),
                                          Decl('r', Arr(INT, False), ArrLit([Var('p', INT), Cast(Var('q', BYTE), INT), _i(5)], INT, False)),
                                          Ret(Bin('+', Bin('-', Index(Var('r', Arr(INT, False)), Lit(INT, 0)), Cast(Var('q', BYTE), INT)), Index(Var('r', Arr(INT, False)), Lit(INT, 2))))])

LOCAL_COUNTS = (1, 7, 8, 9, 15, 16, 17, 31, 32, 33, 42, 43, 63, 64, 65, 85, 86, 127, 128, 129, 140, 255, 256, 257)


def _local_decl(k):
    """k-th local: (name, type, init expression in terms of n)"""
    n = Var('n', INT)
    t = (INT, BYTE, INT, BOOL, INT, STRING)[k % 6]
    if t == INT:
        init = Bin('+', Bin('*', n, _i(k + 1)), _i(k * 7 - 50))
    elif t == BYTE:
        init = Cast(Bin('+', n, _i(k * 5)), BYTE)
    elif t == BOOL:
        init = Bin('==', Bin('%', Bin('+', n, _i(k)), _i(3)), _i(0))
    else:
        init = Index(Var('names', Arr(STRING, True)), Bin('%', Bin('+', n, _i(k)), _i(3)))
    return f'x{k}', t, init


def many_locals_programs():
    """a function with N scalar locals of mixed type (N across the thresholds at which a frame offset needs a second
    byte at each word size), an array literal and a dynamic array declared after them, a call in the middle; locals at
    the first, middle and last position are modified after the call; all are printed.  Also with the locals spread over
    nested blocks, and as parameters + locals of a recursive function."""
    for N in LOCAL_COUNTS:
        for shape in ('flat', 'nested', 'recursive'):
            if shape != 'flat' and N not in (9, 33, 65, 129, 257):
                continue
            n = Var('n', INT)
            decls = [_local_decl(k) for k in range(N)]
            vs = [Var(nm, t) for nm, t, _ in decls]
            dump = []
            for v in vs:
                dump += [_wi(v), _mark(',')]
            touched = sorted({0, N // 2, N - 1})
            mods = []
            for k in touched:
                v = vs[k]
                if v.t == INT:
                    mods.append(OpAssign(v, '+', Call(H, [n])))
                elif v.t == BYTE:
                    mods.append(OpAssign(v, '+', Lit(BYTE, 3)))
                elif v.t == BOOL:
                    mods.append(Assign(v, Un('not', v)))
                else:
                    mods.append(Assign(v, S('new')))
            arr = Var('arr', Arr(INT, False))
            dyn = Var('dyn', Arr(BYTE, False))
            tail = [Decl('arr', Arr(INT, False), ArrLit([n, Call(H, [n]), _i(77)], INT, False)), VLA('dyn', BYTE, Bin('+', n, _i(2))),
                    Assign(Index(dyn, Lit(INT, 0)), Lit(BYTE, 65)), Assign(Index(dyn, Bin('+', n, _i(1))), Lit(BYTE, 66)),
                    W(Index(arr, Lit(INT, 1))), _mark(' '), W(Index(dyn, Lit(INT, 0))), W(Index(dyn, Bin('+', n, _i(1)))), _mark(' ')]
            names = Decl('names', Arr(STRING, True), ArrLit([S('ab'), S('cde'), S('f')], STRING, True))
            if shape == 'flat':
                body = [names] + [Decl(nm, t, init) for nm, t, init in decls] + [W(Call(H, [n])), _mark(':')] + tail + mods + dump + [_mark('\n'), Ret(Cast(vs[N - 1], INT) if vs[N - 1].t in (BYTE, BOOL) else (vs[N - 1] if vs[N - 1].t == INT else Len(vs[N - 1])))]
                f = Func('f', [('n', INT, False)], INT, body)
            elif shape == 'nested':
                # a third of the locals in the function body, a third in a loop body, a third in an if inside it
                a, b = N // 3, 2 * N // 3
                inner2 = [Decl(nm, t, init) for nm, t, init in decls[b:]] + tail + mods + dump + [_mark(';')]
                inner1 = [Decl(nm, t, init) for nm, t, init in decls[a:b]] + [If(Bin('>=', n, _i(0)), inner2), OpAssign(n, '+', _i(1))]
                body = [names] + [Decl(nm, t, init) for nm, t, init in decls[:a]] + [For(Decl('it', INT, _i(0)), Bin('<', Var('it', INT), _i(2)), OpAssign(Var('it', INT), '+', _i(1)), inner1),
                                                                                    _mark('\n'), Ret(n)]
                f = Func('f', [('n', INT, False)], INT, body)
            else:
                body = [names] + [Decl(nm, t, init) for nm, t, init in decls] + [If(Bin('>', n, _i(0)), [W(Call('f', [Bin('-', n, _i(1))], t=INT)), _mark('^')])] + tail + mods + dump + [_mark('\n'), Ret(Bin('+', n, _i(100)))]
                f = Func('f', [('n', INT, False)], INT, body)
            main = Func('@is_you', [('v', Arr(INT, True), False)], EMPTY, [Decl('keep', INT, _i(4242)), W(Call(f, [arg(0)])), _mark('|'), W(Call(f, [arg(1)])), _mark('|'), W(Var('keep', INT)), _mark('\n')])
            yield f'scale-locals/{shape}/{N}', Program([], [main, f, H])


LOCALS_ARGS = [['2', '1'], ['0', '3']]

PARAM_COUNTS = (1, 2, 3, 4, 5, 6, 7, 8, 9, 12, 16, 17, 24, 33, 64, 65)


def many_params_programs():
    """a function with P parameters (scalars of every type and arrays, mixed); every argument is a distinct expression
    with an effect; the callee prints all, changes its scalar parameters and elements of its array parameters; the
    caller prints its own variables afterwards (by-value scalars unchanged, by-reference arrays changed)"""
    tick = Func('tick', [('k', INT, False)], INT, [W(S('t')), W(Var('k', INT)), Ret(Bin('+', Var('k', INT), _i(1)))])
    for P in PARAM_COUNTS:
        for flavour in ('', '!'):
            if flavour and P not in (3, 9, 17, 65):
                continue
            params, args_, pre, post = [], [], [], []
            body = []
            ia, ba = Var('ia', Arr(INT, False)), Var('ba', Arr(BYTE, False))
            pre += [Decl('ia', Arr(INT, False), ArrLit([arg(0), _i(2), _i(3)], INT, False)), Decl('ba', Arr(BYTE, False), ArrLit([Lit(BYTE, 65), Cast(Bin('+', arg(1), _i(66)), BYTE)], BYTE, False)),
                    Decl('ci', INT, Bin('*', arg(0), _i(9))), Decl('cb', BYTE, Cast(Bin('+', arg(1), _i(70)), BYTE))]
            ci, cb = Var('ci', INT), Var('cb', BYTE)
            for k in range(P):
                kind = ('int', 'byte', 'intarr', 'bool', 'string', 'int', 'bytearr', 'int')[k % 8]
                nm = f'p{k}'
                if kind == 'int':
                    params.append((nm, INT, False))
                    args_.append(Call(tick, [_i(k)]) if k % 3 == 0 else (Bin('+', ci, _i(k)) if k % 3 == 1 else ci))
                    body += [W(Var(nm, INT)), OpAssign(Var(nm, INT), '*', _i(2)), W(Var(nm, INT)), _mark(',')]
                elif kind == 'byte':
                    params.append((nm, BYTE, False))
                    args_.append(cb if k % 2 else Lit(BYTE, 48 + k % 70))
                    body += [_wi(Var(nm, BYTE)), OpAssign(Var(nm, BYTE), '+', Lit(BYTE, 1)), _wi(Var(nm, BYTE)), _mark(',')]
                elif kind == 'bool':
                    params.append((nm, BOOL, False))
                    args_.append(Bin('>', ci, _i(k)))
                    body += [W(Var(nm, BOOL)), Assign(Var(nm, BOOL), Un('not', Var(nm, BOOL))), _mark(',')]
                elif kind == 'string':
                    params.append((nm, STRING, False))
                    args_.append(S(f's{k}'))
                    body += [W(Var(nm, STRING)), Assign(Var(nm, STRING), S('zz')), _mark(',')]
                elif kind == 'intarr':
                    params.append((nm, Arr(INT, False), False))
                    args_.append(ia)
                    body += [W(Index(Var(nm, Arr(INT, False)), Lit(INT, 0))), OpAssign(Index(Var(nm, Arr(INT, False)), Lit(INT, 0)), '+', _i(1)), _mark(',')]
                else:
                    params.append((nm, Arr(BYTE, True), False))
                    args_.append(ba if k % 16 < 8 else S('lit'))
                    body += [W(Index(Var(nm, Arr(BYTE, True)), Lit(INT, 1))), W(Len(Var(nm, Arr(BYTE, True)))), _mark(',')]
            # every parameter once more after all were changed: a store through one must not have hit another
            for nm, t, _ in params:
                if t == INT:
                    body.append(W(Var(nm, INT)))
                elif t == BYTE:
                    body.append(_wi(Var(nm, BYTE)))
                elif t == BOOL:
                    body.append(W(Var(nm, BOOL)))
                elif t == STRING:
                    body.append(W(Var(nm, STRING)))
                body.append(_mark('.'))
            body += [_mark('\n'), Ret(Bin('+', Var('p0', params[0][1]) if params[0][1] == INT else _i(1), _i(1)))]
            f = Func(flavour + 'f', params, INT, body)
            call = Call(f, args_)
            post = [_mark('|'), W(ci), _wi(cb), W(Index(ia, Lit(INT, 0))), W(Index(ba, Lit(INT, 1))), _mark('\n')]
            if flavour:
                stmts = pre + [Try([W(call)] + post, 'undo', [W(S('U'))])]
            else:
                stmts = pre + [W(call)] + post + [W(call)] + post
            main = Func('@is_you', [('v', Arr(INT, True), False)], EMPTY, stmts)
            yield f'scale-params/{flavour or "plain"}/{P}', Program([], [main, f, tick])


PARAMS_ARGS = [['3', '1'], ['-2', '100']]

ARRAY_LENGTHS = (7, 8, 9, 15, 16, 17, 63, 64, 65, 127, 128, 129, 255, 256, 257, 300, 511, 512, 513, 1000)


def long_array_programs():
    """arrays of L elements (L across 8, 128, 256, 512 and their neighbours) of int / byte / bool, as a dynamic local, a
    global of constant length, and a parameter: filled by formula, then the first, last and threshold elements and a
    checksum are read back; `.length`; a store to the last element does not reach a neighbour declared after it"""
    for L in ARRAY_LENGTHS:
        for el in (INT, BYTE, BOOL):
            for storage in ('dynamic', 'global', 'literal'):
                if storage == 'literal' and L > 300:
                    continue
                t = Arr(el, False)
                a, i = Var('a', t), Var('i', INT)

                def val(ix):
                    e = Bin('+', Bin('*', ix, _i(7)), arg(0))
                    if el == INT:
                        return e
                    if el == BYTE:
                        return Cast(e, BYTE)
                    return Bin('==', Bin('%', e, _i(3)), _i(0))
                gl, pre = [], []
                if storage == 'dynamic':
                    pre = [VLA('a', el, Bin('+', arg(1), _i(L)))]
                elif storage == 'global':
                    gl = [VLA('a', el, _i(L))]
                else:
                    pre = [Decl('a', t, ArrLit([val(Lit(INT, k)) if k in (0, L - 1) else {INT: Lit(INT, (k * 7) % 1000 - 300), BYTE: Lit(BYTE, (k * 7) & 0xFF), BOOL: Lit(BOOL, k % 3 == 0)}[el] for k in range(L)], el, False))]
                guard_b = Decl('before', INT, _i(1111))
                guard_a = Decl('after', Arr(INT, False), ArrLit([_i(2222), arg(0)], INT, False))
                fill = For(Decl('i', INT, _i(0)), Bin('<', i, Len(a)), OpAssign(i, '+', _i(1)), [Assign(Index(a, i), val(i))])
                summ = Func('summ', [('b', Arr(el, True), False)], INT,
                            [Decl('s', INT, _i(0)), For(Decl('i', INT, _i(0)), Bin('<', i, Len(Var('b', Arr(el, True)))), OpAssign(i, '+', _i(1)),
                                                        [OpAssign(Var('s', INT), '+', Bin('*', Cast(Index(Var('b', Arr(el, True)), i), INT), Bin('+', Bin('%', i, _i(5)), _i(1))))]),
                             Ret(Var('s', INT))])
                body = [guard_b] + pre + [guard_a]
                if storage != 'literal':
                    body.append(fill)
                probes = sorted({0, 1, 7, 8, 127, 128, 255, 256, L - 2, L - 1} & set(range(L)))
                for k in probes:
                    body += [_wi(Index(a, Lit(INT, k))), _mark(',')]
                body += [_mark(' '), W(Len(a)), _mark(' '), W(Call(summ, [a])), _mark(' ')]
                last = Bin('-', Len(a), _i(1))
                body += [Assign(Index(a, last), {INT: _i(-5), BYTE: Lit(BYTE, 200), BOOL: Un('not', Index(a, last))}[el]), _wi(Index(a, last)), _wi(Index(a, Bin('-', Len(a), _i(2)))), _mark(' '),
                         W(Var('before', INT)), W(Index(Var('after', Arr(INT, False)), Lit(INT, 0))), W(Index(Var('after', Arr(INT, False)), Lit(INT, 1))), _mark('\n')]
                main = Func('@is_you', [('v', Arr(INT, True), False)], EMPTY, body)
                yield f'scale-array/{storage}/{el}/{L}', Program(gl, [main, summ])


ARRAY_ARGS = [['5', '0']]

LABEL_COUNTS = (9, 10, 11, 12, 21, 100, 101, 111)


def many_labels_programs():
    """one program with K of everything that makes the compiler number a label or a table: K loops (each with break and
    continue), K ifs with else, K short-circuit operators, K distinct strings, K constant tables, K calls, spread over
    one function ('one') or over K small functions ('many'); label number k must never be confused with label 1k or k0"""
    for K in LABEL_COUNTS:
        for layout in ('one', 'many'):
            x = Var('x', INT)
            funcs, calls = [], []
            stmts = []
            for k in range(K):
                j = Var('j', INT)
                tbl = Var(f'tb{k}', Arr(INT, True))
                piece = [
                    For(Decl('j', INT, _i(0)), Bin('<', j, _i(4)), OpAssign(j, '+', _i(1)),
                        [If(Bin('==', j, _i(1)), [Continue()]), If(Bin('==', j, Bin('+', Bin('%', x, _i(2)), _i(2))), [Break()]), OpAssign(x, '+', Bin('+', j, _i(k)))]),
                    If(Bin('and', Bin('>', x, _i(k)), Bin('or', Bin('==', Bin('%', x, _i(3)), _i(k % 3)), Bin('<', x, _i(5 * k)))), [W(S(f'<T{k}>'))], [W(S(f'<E{k}>'))]),
                    Decl(f'tb{k}', Arr(INT, True), ArrLit([Lit(INT, k), Lit(INT, k * k), Lit(INT, 1000 + k)], INT, True), const=True),
                    W(Index(tbl, Bin('%', x, _i(3)))), _mark(' '),
                ]
                if layout == 'one':
                    stmts += piece
                else:
                    fk = Func(f'part{k}', [('x', INT, False)], INT, piece + [Ret(x)])
                    funcs.append(fk)
                    stmts += [Assign(x, Call(fk, [x]))]
            body = [Decl('x', INT, arg(0))] + stmts + [_mark('\n'), W(x), _mark('\n')]
            main = Func('@is_you', [('v', Arr(INT, True), False)], EMPTY, body)
            yield f'scale-labels/{layout}/{K}', Program([], [main] + funcs)


LABELS_ARGS = [['1'], ['4']]

TRY_COUNTS = (9, 10, 11, 12, 21, 34)


def many_tries_programs():
    """K try blocks in a row (alternating undo / stop, defeat by !is_defeat, by a defeat function, by !truth_is_defeat, or
    none) in one you-function and spread over K you-functions: handler number k belongs to try block number k"""
    dz = Func('!dz', [('q', INT, False)], INT, [If(Bin('==', Bin('%', Var('q', INT), _i(3)), _i(0)), [ExprStmt(Call('!is_defeat', []))]), Ret(Bin('+', Var('q', INT), _i(1)))])
    for K in TRY_COUNTS:
        for layout in ('one', 'many'):
            x = Var('x', INT)
            stmts, funcs = [], []
            for k in range(K):
                kind = 'undo' if k % 2 == 0 else 'stop'
                how = k % 4
                tb = [W(S(f'b{k}')), OpAssign(x, '+', _i(1))]
                if how == 0:
                    tb.append(ExprStmt(Call('!truth_is_defeat', [Bin('==', Bin('%', x, _i(2)), _i(0))])))
                elif how == 1:
                    tb.append(W(Call(dz, [x])))
                elif how == 2:
                    tb.append(If(Bin('>', x, _i(k)), [ExprStmt(Call('!is_defeat', []))]))
                tb.append(W(S(f'e{k}')))
                piece = [Try(tb, kind, [W(S(f'h{k}')), OpAssign(x, '+', _i(2))]), W(x), _mark(' ')]
                if layout == 'one':
                    stmts += piece
                else:
                    fk = Func(f'@part{k}', [('x', INT, False)], INT, piece + [Ret(x)])
                    funcs.append(fk)
                    stmts.append(Assign(x, Call(fk, [x])))
            body = [Decl('x', INT, arg(0))] + stmts + [_mark('\n')]
            main = Func('@is_you', [('v', Arr(INT, True), False)], EMPTY, body)
            yield f'scale-tries/{layout}/{K}', Program([], [main] + funcs + [dz])


TRIES_ARGS = [['0'], ['1'], ['5']]

DEPTHS = (3, 4, 5, 6, 8, 10)


def deep_nesting_programs():
    """D nested constructs (for loops, bare blocks, ifs in rotation), each owning a local and an array; the innermost
    body prints a value drawn from every level and then leaves by falling through, `continue`, `break` or `return`; the
    levels above keep running, so every level's array must still be intact afterwards"""
    for D in DEPTHS:
        for ex in ('fall', 'continue', 'break', 'return'):
            for arrkind in ('literal', 'dynamic'):
                n = Var('n', INT)
                inner = []
                tot = _i(0)
                for d in range(D):
                    a = Var(f'a{d}', Arr(INT, False))
                    tot = Bin('+', tot, Bin('+', Index(a, Lit(INT, 1)), Var(f'l{d}', INT)))
                inner = [W(tot), _mark(',')]
                cnt = Var('cnt', INT)
                inner += [OpAssign(cnt, '+', _i(1))]
                if ex != 'fall':
                    inner.append(If(Bin('==', Bin('%', cnt, _i(3)), _i(1)), [{'continue': Continue(), 'break': Break(), 'return': Ret(Bin('+', cnt, _i(500)))}[ex]]))
                inner += [W(S('.'))]
                body = inner
                for d in reversed(range(D)):
                    a = Var(f'a{d}', Arr(INT, False))
                    it = Var(f'i{d}', INT)
                    loopish = d % 3 == 0 or d == D - 1          # the innermost level is always a loop (break / continue are legal)
                    idx = it if loopish else _i(d)
                    decl_l = Decl(f'l{d}', INT, Bin('+', Bin('*', n, _i(d + 1)), idx))
                    if arrkind == 'literal':
                        decl_a = Decl(f'a{d}', Arr(INT, False), ArrLit([_i(d), Bin('+', idx, _i(10 * d)), n], INT, False))
                        setup = [decl_l, decl_a]
                    else:
                        decl_a = VLA(f'a{d}', INT, Bin('+', Bin('%', n, _i(2)), _i(2 + d % 2)))
                        setup = [decl_l, decl_a, Assign(Index(a, Lit(INT, 0)), _i(d)), Assign(Index(a, Lit(INT, 1)), Bin('+', idx, _i(10 * d)))]
                    after = [W(Index(a, Lit(INT, 1))), W(Var(f'l{d}', INT)), _mark(';')]
                    level = setup + body + after
                    if loopish:
                        body = [For(Decl(f'i{d}', INT, _i(0)), Bin('<', it, _i(2)), OpAssign(it, '+', _i(1)), level)]
                    elif d % 3 == 1:
                        body = [Block(level)]
                    else:
                        body = [If(Bin('>=', n, _i(-100)), level)]
                f = Func('f', [('n', INT, False)], INT, [Decl('cnt', INT, _i(0))] + body + [_mark('\n'), Ret(Var('cnt', INT))])
                main = Func('@is_you', [('v', Arr(INT, True), False)], EMPTY, [Decl('keep', Arr(INT, False), ArrLit([_i(31), arg(0)], INT, False)), W(Call(f, [arg(0)])), _mark('|'), W(Call(f, [arg(1)])),
                                                                              _mark('|'), W(Index(Var('keep', Arr(INT, False)), Lit(INT, 0))), W(Index(Var('keep', Arr(INT, False)), Lit(INT, 1))), _mark('\n')])
                yield f'scale-depth/{ex}/{arrkind}/{D}', Program([], [main, f])


DEPTH_ARGS = [['1', '2']]

GLOBAL_COUNTS = (10, 11, 33, 100, 129, 257)


def many_globals_programs():
    """G mutable globals of mixed type plus G distinct strings, each global assigned once (from the back) and all printed:
    every name refers to its own storage; tables and strings declared between them are not disturbed"""
    for G in GLOBAL_COUNTS:
        gl, body = [], []
        names = []
        for k in range(G):
            t = (INT, BYTE, BOOL, INT, STRING)[k % 5]
            init = {INT: _i(k * 3 - 7), BYTE: Lit(BYTE, (k * 11) & 0xFF, keep=True), BOOL: Lit(BOOL, k % 2 == 0, keep=True), STRING: Lit(STRING, f'g{k}'.encode(), keep=True)}[t]
            gl.append(Decl(f'gv{k}', t, init))
            names.append((f'gv{k}', t))
            if k % 10 == 3:
                gl.append(Decl(f'gt{k}', Arr(BYTE, False), ArrLit([Lit(BYTE, k & 0xFF, keep=True), Lit(BYTE, (k + 1) & 0xFF, keep=True)], BYTE, False)))

        def dump():
            out = []
            for nm, t in names:
                out += [_wi(Var(nm, t)), _mark(',')]
            for k in range(3, G, 10):
                out += [W(Index(Var(f'gt{k}', Arr(BYTE, False)), Lit(INT, 1))), _mark(',')]
            return out + [_mark('\n')]
        body += dump()
        for k in reversed(range(0, G, max(1, G // 12))):
            nm, t = names[k]
            v = Var(nm, t)
            body.append({INT: OpAssign(v, '+', arg(0)), BYTE: OpAssign(v, '+', Cast(arg(0), BYTE)), BOOL: Assign(v, Bin('>', arg(0), _i(k))), STRING: Assign(v, S(f'new{k}'))}[t])
        for k in range(3, G, 10):
            body.append(Assign(Index(Var(f'gt{k}', Arr(BYTE, False)), Lit(INT, 1)), Cast(Bin('+', arg(0), _i(k)), BYTE)))
        body += dump()
        main = Func('@is_you', [('v', Arr(INT, True), False)], EMPTY, body)
        yield f'scale-globals/{G}', Program(gl, [main])


GLOBALS_ARGS = [['5']]


def all_families():
    return ((many_locals_programs, LOCALS_ARGS), (many_params_programs, PARAMS_ARGS), (long_array_programs, ARRAY_ARGS), (many_labels_programs, LABELS_ARGS),
            (deep_nesting_programs, DEPTH_ARGS), (many_globals_programs, GLOBALS_ARGS), (deep_expr_programs, EXPR_ARGS))


ENTRY_COUNTS = (4, 5, 6, 7, 8, 12, 20, 40)


def many_entry_programs():
    """@is_you with P scalar parameters of mixed type (P = 4..40), without / with an array parameter first / in the middle / last;
    every parameter is printed, then a call and a local array follow (the entry frame is sized from the argument count).
    yields (tag, Program, args)"""
    text = {INT: ['-7', '300', '12', '0'], BYTE: ['65', '90', '48'], STRING: ['hey', '', 'x y']}
    for P in ENTRY_COUNTS:
        for arr_at in (None, 0, P // 2, P):
            params, args, body = [], [], []
            for i in range(P + 1):
                if arr_at == i:
                    t = Arr(INT, True)
                    params.append(('arr', t, False))
                    args += ['5', '-6', '7']
                    a = Var('arr', t)
                    body += [W(S('len=')), W(Len(a)), _mark(' '), W(Index(a, Lit(INT, 2))), _mark(' ')]
                if i < P:
                    kd = (INT, BYTE, INT, STRING, INT)[i % 5]
                    nm = f'p{i}'
                    params.append((nm, kd, False))
                    args.append(text[kd][i % len(text[kd])])
                    body += [_wi(Var(nm, kd)), _mark(',')]
            first_int = next(nm for nm, kd, _ in params if kd == INT)
            body += [Decl('loc', Arr(INT, False), ArrLit([Var(first_int, INT), Call(H, [Var(first_int, INT)]), _i(3)], INT, False)),
                     W(Index(Var('loc', Arr(INT, False)), Lit(INT, 1))), _mark(' '), _wi(Var(f'p{P - 1}', (INT, BYTE, INT, STRING, INT)[(P - 1) % 5])), _mark('\n')]
            main = Func('@is_you', params, EMPTY, body)
            yield f'scale-entry/{P}/arr@{arr_at}', Program([], [main, H]), args


EXPR_DEPTHS = (6, 12, 20, 28)


def deep_expr_programs():
    """expressions nested D deep in which every level has to keep a value alive while the next level is evaluated: right-nested
    arithmetic over effectful calls, calls as arguments of calls, an index inside an index, short-circuit chains, comparisons of sums -
    as value, as array index, as argument, in a condition and as a dynamic array length"""
    tick = Func('tick', [('k', INT, False)], INT, [W(S('t')), W(Var('k', INT)), Ret(Bin('+', Var('k', INT), _i(1)))])
    idf = Func('idf', [('x', INT, False), ('y', INT, False)], INT, [Ret(Bin('-', Bin('*', Var('x', INT), _i(2)), Var('y', INT)))])
    n = Var('n', INT)
    q = Var('q', Arr(INT, False))
    for D in EXPR_DEPTHS:
        def right_nested(ops):
            e = Call(tick, [_i(D)])
            for k in reversed(range(D)):
                left = (Call(tick, [_i(k)]), Bin('+', n, _i(k)), Index(q, Bin('%', Bin('+', n, _i(k)), _i(4))), n)[k % 4]
                e = Bin(ops[k % len(ops)], left, e)
            return e

        def nested_calls():
            e = n
            for k in range(D):
                e = Call(idf, [e, Call(tick, [_i(k)])]) if k % 2 else Call(idf, [Bin('+', n, _i(k)), e])
            return e

        def nested_index():
            e = Bin('%', n, _i(4))
            for k in range(D):
                e = Bin('%', Bin('+', Index(q, e), _i(k)), _i(4))
            return Index(q, e)

        def logic_chain():
            e = Bin('>', Call(tick, [_i(99)]), _i(0))
            for k in reversed(range(D)):
                c = Bin(('<', '>=', '!=')[k % 3], Bin('+', n, _i(k)), Call(tick, [_i(k)])) if k % 2 else Bin('>', Index(q, Lit(INT, k % 4)), _i(k - 3))
                e = Bin(('and', 'or')[k % 2], c, e)
            return e
        forms = {'sum': lambda: right_nested(('+', '-')), 'mixed': lambda: right_nested(('+', '*', '-')), 'calls': nested_calls, 'index': nested_index}
        for fn, mk in forms.items():
            body = [Decl('q', Arr(INT, False), ArrLit([n, _i(3), Bin('+', n, _i(1)), _i(2)], INT, False)),
                    W(mk()), _mark(' '),
                    W(Index(q, Bin('%', Bin('+', Bin('%', mk(), _i(4)), _i(4)), _i(4)))), _mark(' '),
                    W(Call(idf, [mk(), n])), _mark(' '),
                    If(Bin('>', mk(), n), [_mark('T')], [_mark('F')]),
                    VLA('dyn', INT, Bin('+', Bin('%', Bin('+', Bin('%', mk(), _i(3)), _i(3)), _i(3)), _i(1))), W(Len(Var('dyn', Arr(INT, False)))), _mark(' '),
                    Assign(Index(q, Lit(INT, 1)), mk()), W(Index(q, Lit(INT, 1))), W(Index(q, Lit(INT, 0))), _mark('\n')]
            f = Func('f', [('n', INT, False)], EMPTY, body)
            main = Func('@is_you', [('v', Arr(INT, True), False)], EMPTY, [Decl('keep', Arr(INT, False), ArrLit([_i(31), arg(0)], INT, False)), ExprStmt(Call(f, [arg(0)])), ExprStmt(Call(f, [arg(1)])),
                                                                          W(Index(Var('keep', Arr(INT, False)), Lit(INT, 0))), W(Index(Var('keep', Arr(INT, False)), Lit(INT, 1))), _mark('\n')])
            yield f'scale-expr/{fn}/{D}', Program([], [main, f, tick, idf])
        body = [Decl('q', Arr(INT, False), ArrLit([n, _i(3), Bin('+', n, _i(1)), _i(2)], INT, False)), If(logic_chain(), [_mark('T')], [_mark('F')]), W(logic_chain()), _mark(' '),
                Decl('b', BOOL, Un('not', logic_chain())), W(Var('b', BOOL)), _mark('\n')]
        f = Func('f', [('n', INT, False)], EMPTY, body)
        main = Func('@is_you', [('v', Arr(INT, True), False)], EMPTY, [ExprStmt(Call(f, [arg(0)])), ExprStmt(Call(f, [arg(1)]))])
        yield f'scale-expr/logic/{D}', Program([], [main, f, tick])


EXPR_ARGS = [['1', '2'], ['-3', '0']]
