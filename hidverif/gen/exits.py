""""exits" profile for C16: function bodies assembled from control-flow shapes
whose exit analysis is non-trivial.  Every constant-true loop carries a fuel
counter so that runs terminate, while the *static* shape (break / return /
terminal call / defeat as the only way out) varies freely."""
import random

from ..model.ast import *  # noqa: F401,F403

X = Var('x', INT)
FUEL = Var('fuel', INT)


class ExitGen:
    def __init__(self, seed):
        self.r = random.Random(seed)
        self.marks = 0
        self.uid = 0

    def mark(self):
        self.marks += 1
        return ExprStmt(Call('write', [Lit(BYTE, 33 + self.marks % 90)]))

    def cond(self):
        r = self.r
        m = r.choice([2, 3])
        c = Bin(r.choice(['==', '!=']), Bin('%', Bin('+', X, FUEL) if r.random() < 0.3 else X, Lit(INT, m, keep=True)), Lit(INT, r.randrange(m)))
        k = r.random()
        if k < 0.06:
            return Lit(BOOL, True)
        if k < 0.12:
            return Lit(BOOL, False)
        return c

    def exit_stmt(self, ctx, allow=('ret', 'break', 'continue', 'win', 'broken', 'defeat', 'dcall')):
        r = self.r
        opts = []
        if 'ret' in allow:
            opts += ['ret', 'ret']
        if ctx['loop']:
            opts += [o for o in ('break', 'continue') if o in allow]
        if 'win' in allow and r.random() < 0.3:
            opts.append('win')
        if 'broken' in allow and r.random() < 0.15:
            opts.append('broken')
        if ctx['defeat']:
            opts += [o for o in ('defeat', 'dcall') if o in allow]
            if 'dcall' in allow:
                opts.append('dexpr')
        if not opts:
            opts = ['ret']
        k = r.choice(opts)
        return self.make_exit(k, ctx)

    def make_exit(self, k, ctx):
        if k == 'ret':
            return Ret(None if ctx['ret'] == EMPTY else Bin('+', X, Lit(INT, self.r.randint(0, 9))))
        if k == 'break': return Break()
        if k == 'continue': return Continue()
        if k == 'win': return ExprStmt(Call('all_is_win', []))
        if k == 'broken': return ExprStmt(Call('all_is_broken', []))
        if k == 'defeat': return ExprStmt(Call('!is_defeat', []))
        if k == 'dexpr':
            # a defeat call nested in an expression (not a statement-level call)
            call = Call(ctx['dvfunc'], [X])
            c = self.r.random()
            if c < 0.4 and ctx['ret'] != EMPTY:
                return Ret(Bin('+', call, Lit(INT, 1)) if self.r.random() < 0.5 else call)
            if c < 0.7:
                self.uid += 1
                return Decl(f'dx{self.uid}', INT, call)
            return If(Bin('>', call, Lit(INT, 4)), [self.mark()])
        return ExprStmt(Call(ctx['dfunc'], [X]))

    def infinite_loop(self, d, ctx):
        """while (true) / for (;;) whose only ways out are chosen statically"""
        r = self.r
        c2 = dict(ctx, loop=True)
        # guaranteed-eventually exit (fuel): never `continue`
        ex = self.exit_stmt(c2, allow=('ret', 'break', 'win', 'broken', 'defeat'))
        body = [OpAssign(FUEL, '-', Lit(INT, 1, keep=True)), If(Bin('<=', FUEL, Lit(INT, 0, keep=True)), [self.mark(), ex])]
        body += self.stmts(r.randint(0, 3), d - 1, c2)
        if r.random() < 0.5:
            return While(Lit(BOOL, True), body)
        return For(None, None, None, body)

    def dead_loop(self, d, ctx):
        """while (false) / for (;false;) whose body ends in an exit and has no
        break: the loop is constant but NOT infinite, so whatever follows it is
        reachable and a value function still needs its return"""
        r = self.r
        c2 = dict(ctx, loop=True)
        body = self.stmts(r.randint(0, 2), d - 1, c2)
        body = [s for s in body if not isinstance(s, Break)]
        body.append(self.exit_stmt(c2, allow=('ret', 'continue', 'win', 'broken', 'defeat')))
        if r.random() < 0.5:
            return While(Lit(BOOL, False), body)
        return For(None, Lit(BOOL, False), None, body)

    def counted_loop(self, d, ctx):
        self.uid += 1
        iv = f'i{self.uid}'
        c2 = dict(ctx, loop=True)
        return For(Decl(iv, INT, Lit(INT, 0, keep=True)), Bin('<', Var(iv, INT), Lit(INT, self.r.randint(1, 3), keep=True)),
                   OpAssign(Var(iv, INT), '+', Lit(INT, 1, keep=True)), self.stmts(self.r.randint(1, 3), d - 1, c2))

    def stmts(self, n, d, ctx):
        r = self.r
        out = []
        for _ in range(n):
            c = r.random()
            if c < 0.22 or d <= 0:
                if r.random() < 0.25 and d <= 0:
                    out.append(If(self.cond(), [self.exit_stmt(ctx)]))
                else:
                    out.append(self.mark())
            elif c < 0.40:
                a = self.stmts(r.randint(1, 2), d - 1, ctx)
                b = self.stmts(r.randint(1, 2), d - 1, ctx) if r.random() < 0.6 else None
                if r.random() < 0.5:
                    a.append(self.exit_stmt(ctx))
                if b is not None and r.random() < 0.5:
                    b.append(self.exit_stmt(ctx))
                out.append(If(self.cond(), a, b))
            elif c < 0.50:
                out.append(self.infinite_loop(d, ctx))
            elif c < 0.53:
                out.append(self.dead_loop(d, ctx))
            elif c < 0.60:
                out.append(self.counted_loop(d, ctx))
            elif c < 0.72 and ctx['you'] and not ctx['defeat']:
                tctx = dict(ctx, you=False, defeat=True)
                body = self.stmts(r.randint(1, 3), d - 1, tctx)
                if r.random() < 0.6:
                    body.append(self.exit_stmt(tctx, allow=('ret', 'break', 'continue', 'defeat', 'dcall', 'win')))
                handler = self.stmts(r.randint(1, 2), d - 1, ctx)
                if r.random() < 0.4:
                    handler.append(self.exit_stmt(ctx))
                out.append(Try(body, r.choice(['undo', 'stop']), handler))
            elif c < 0.80 and ctx['defeat']:
                pb = self.stmts(r.randint(1, 2), d - 1, ctx)
                if r.random() < 0.6:
                    pb.append(self.exit_stmt(ctx, allow=('ret', 'break', 'continue')))
                out.append(Preempt(pb))
            elif c < 0.86:
                out.append(Block(self.stmts(r.randint(1, 2), d - 1, ctx)))
            elif c < 0.93:
                out.append(self.exit_stmt(ctx))
                if r.random() < 0.7:
                    out.append(self.mark())        # statically unreachable statement
            elif c < 0.965:
                # user-defined overloads of the terminal builtins return normally
                out.append(ExprStmt(Call(self.r.choice(ctx['fake_terminals']), [Lit(STRING, b'w')])))
            else:
                out.append(OpAssign(X, '+', Lit(INT, 1)))
        return out

    def program(self):
        r = self.r
        flavor = r.choice(['', '', '@', '@', '!'])
        ret = r.choice([EMPTY, INT, INT])
        d1 = Func('!dz', [('k', INT, False)], EMPTY, [ExprStmt(Call('!truth_is_defeat', [Bin('==', Bin('%', Var('k', INT), Lit(INT, 2, keep=True)), Lit(INT, 1))]))])
        dv = Func('!dv', [('k', INT, False)], INT, [If(Bin('==', Bin('%', Var('k', INT), Lit(INT, 3, keep=True)), Lit(INT, 1)), [ExprStmt(Call('!is_defeat', []))]),
                                                      Ret(Bin('+', Var('k', INT), Lit(INT, 1)))])
        fakes = [Func('all_is_broken', [('why', STRING, False)], EMPTY, [ExprStmt(Call('write', [Lit(BYTE, ord('~'))]))]),
                 Func('all_is_win', [('why', STRING, False)], EMPTY, [ExprStmt(Call('write', [Lit(BYTE, ord('^'))]))])]
        ctx = dict(loop=False, ret=ret, you=flavor == '@', defeat=flavor == '!', dfunc=d1, dvfunc=dv, fake_terminals=fakes)
        f = Func(flavor + 'ft', [('x', INT, False)], ret)
        body = self.stmts(r.randint(2, 5), 3, ctx)
        tail = r.random()
        if ret != EMPTY and tail < 0.45:
            body.append(Ret(Bin('*', X, Lit(INT, 2))))
        elif tail < 0.6:
            body.append(self.exit_stmt(ctx))
        elif tail < 0.68:
            body.append(self.dead_loop(2, ctx))
        f.body = body
        nxt = Func(flavor + 'fnext', [('x', INT, False)], ret,
                   [ExprStmt(Call('write', [Lit(STRING, b'<NEXT>')]))] + ([Ret(Lit(INT, -1))] if ret != EMPTY else []))
        call = Call(f, [Var('a', INT)])
        use = ExprStmt(Call('write', [call])) if ret != EMPTY else ExprStmt(call)
        inner = [Assign(FUEL, Lit(INT, 6)), ExprStmt(Call('write', [Lit(BYTE, ord('['))])), use, ExprStmt(Call('write', [Lit(BYTE, ord(']'))]))]
        if flavor == '!':
            inner = [Assign(FUEL, Lit(INT, 6)), Try([ExprStmt(Call('write', [Lit(BYTE, ord('['))])), use, ExprStmt(Call('write', [Lit(BYTE, ord(']'))]))],
                                                   r.choice(['undo', 'stop']), [ExprStmt(Call('write', [Lit(BYTE, ord('#'))]))])]
        main = Func('@is_you', [('a', INT, False)], EMPTY, inner + [ExprStmt(Call('writeln', [FUEL]))])
        prog = Program([Decl('fuel', INT, Lit(INT, 6, keep=True))], [main, f, nxt, d1, dv] + fakes)
        return prog, flavor, ret


# ---------------------------------------------------------------- enumerated
def loop_exit_programs():
    """every loop kind x body shape (which of continue / break / return / terminal call appear, and whether the body
    can complete) x what follows the loop x return type x function flavour.  Every iteration first decrements x, the
    conditions depend on x's parity and sign, so every program terminates for every input.
    yields (tag, Program, ret)"""
    mk = ExitGen(0)
    dz = Func('!dz', [('k', INT, False)], EMPTY, [ExprStmt(Call('!truth_is_defeat', [Bin('==', Bin('%', Var('k', INT), Lit(INT, 2, keep=True)), Lit(INT, 1))]))])
    DZ = lambda e: ExprStmt(Call(dz, [e]))      # noqa: E731   defeat iff e is odd
    c1 = lambda: Bin('==', Bin('%', X, Lit(INT, 2, keep=True)), Lit(INT, 0))      # noqa: E731
    c2 = lambda: Bin('<', X, Lit(INT, 0))                                            # noqa: E731
    c3 = lambda: Bin('>', X, Lit(INT, 1))                                            # noqa: E731

    def shapes(ret):
        r = lambda k=0: Ret(None if ret == EMPTY else Bin('+', X, Lit(INT, k)))     # noqa: E731
        m = mk.mark
        inner_for = lambda body: For(Decl('j', INT, Lit(INT, 0, keep=True)), Bin('<', Var('j', INT), Lit(INT, 3, keep=True)),    # noqa: E731
                                     OpAssign(Var('j', INT), '+', Lit(INT, 1, keep=True)), body)
        return {
            'continue_then_return': [If(c1(), [m(), Continue()]), r()],
            'break_then_return': [If(c1(), [m(), Break()]), r()],
            'continue_break_return': [If(c1(), [Continue()]), If(c2(), [Break()]), m(), r(1)],
            'return_both_arms': [If(c1(), [r(1)], [r(2)])],
            'continue_else_return': [If(c1(), [Continue()], [r()])],
            'inner_break_then_return': [inner_for([If(Bin('==', Var('j', INT), Lit(INT, 1)), [Break()]), m()]), r()],
            'inner_continue_then_return': [inner_for([If(Bin('==', Var('j', INT), Lit(INT, 1)), [Continue()]), m()]), r()],
            'only_return': [m(), r()],
            # an exit of the OUTER loop before / between / after nested loops, in bodies that cannot complete (what a code generator
            # remembers about the outer loop must survive the nested one)
            'continue_inner_loop_return': [If(c1(), [m(), Continue()]), inner_for([m()]), r()],
            'break_inner_loop_return': [If(c1(), [m(), Break()]), inner_for([m()]), r()],
            'continue_two_inner_loops_return': [If(c1(), [Continue()]), inner_for([m()]), While(Lit(BOOL, False, keep=True), [m()]), r(2)],
            'inner_loop_continue_return': [inner_for([m()]), If(c1(), [m(), Continue()]), r()],
            'continue_inner_loop_with_own_exits_return': [If(c1(), [Continue()]), inner_for([If(Bin('==', Var('j', INT), Lit(INT, 1)), [Continue()]), If(Bin('==', Var('j', INT), Lit(INT, 2)), [Break()]), m()]), r()],
            'continue_inner_loop_win': [If(c1(), [m(), Continue()]), inner_for([m()]), ExprStmt(Call('all_is_win', []))],
            'plain_body': [If(c1(), [Continue()]), If(c2(), [Break()]), m()],
            'continue_then_win': [If(c1(), [m(), Continue()]), ExprStmt(Call('all_is_win', []))],
            'block_continue_return': [Block([If(c1(), [Continue()]), r()])],
            'inner_returning_loop': [While(c3(), [OpAssign(X, '-', Lit(INT, 1, keep=True)), If(c1(), [Continue()]), r(7)]), m()],
            'return_in_nested_if': [If(c1(), [If(c3(), [r(3)]), m(), Continue()]), r()],
            'break_in_else_return': [If(c1(), [r(1)], [Break()])],
            # an earlier conditional exit and a later statement that never returns, in ONE statement list
            # the last statement of the body has one arm that leaves and one that completes
            'else_continues_then_completes': [If(c1(), [m()], [Continue()])],
            'else_breaks_then_completes': [If(c1(), [m()], [m(), Break()])],
            'else_returns_then_completes': [If(c2(), [r(8)], [m()]), If(c1(), [m()], [r(9)])],
            'nested_block_break_last': [m(), Block([If(c2(), [Break()], [m()])])],
            'try_last_handler_leaves': [Try([If(c1(), [ExprStmt(Call('!is_defeat', []))]), m()], 'stop', [If(c2(), [Break()]), Continue()])],
            # a try nested in a stop handler, then a later try/undo whose body reaches defeat: the inner handler must not stay armed
            'try_in_stop_handler_then_undo': [Try([DZ(Bin('+', X, Lit(INT, 1))), m()], 'stop',
                                                  [m(), Try([DZ(Bin('+', X, Lit(INT, 1))), m()], 'stop', [m()]), m()]),
                                              Try([m(), DZ(Lit(INT, 1)), m()], 'undo', [m()]),
                                              Try([m(), DZ(X), m()], 'undo', [m()]),
                                              If(c2(), [Break()])],
            'try_in_undo_handler_then_stop': [Try([DZ(X), m()], 'undo',
                                                  [Try([DZ(Lit(INT, 1)), m()], 'stop', [m()]), m()]),
                                              Try([DZ(Bin('+', X, Lit(INT, 1))), m()], 'stop', [m()]), Try([DZ(Lit(INT, 3)), m()], 'undo', [m()]), If(c2(), [r(2)])],
            'break_then_win': [If(c2(), [m(), Break()]), ExprStmt(Call('all_is_win', []))],
            'break_then_broken': [If(c1(), [Break()]), m(), ExprStmt(Call('all_is_broken', []))],
            'return_then_win': [If(c1(), [r(4)]), ExprStmt(Call('all_is_win', []))],
            'try_break_then_defeat': [Try([If(c1(), [m(), Break()]), ExprStmt(Call('!is_defeat', []))], 'stop', [m()])],
            'try_continue_then_defeat': [Try([If(c1(), [Continue()]), If(c2(), [Break()]), ExprStmt(Call('!is_defeat', []))], 'stop', [m()])],
            'try_return_then_defeat': [Try([If(c1(), [r(6)]), ExprStmt(Call('!is_defeat', []))], 'undo', [m()])],
        }
    dec = lambda: OpAssign(X, '-', Lit(INT, 1, keep=True))      # noqa: E731
    for ret in (EMPTY, INT):
        for shape in shapes(ret):
            for loop in ('while_cond', 'while_true', 'for_counted', 'for_ever', 'while_const_false'):
                for after in ('none', 'stmts'):
                    for flavor in ('', '@'):
                        if shape.startswith('try_') and flavor != '@':
                            continue        # try blocks need a you-function
                        if flavor == '@' and not shape.startswith('try_') and (after == 'none' or loop in ('for_ever',)):
                            continue        # thin the product: flavour matters little here
                        # every iteration owns an array: whatever leaves or completes the body has to give it back
                        body = [dec(), Decl('own', Arr(INT, False), ArrLit([X, FUEL], INT, False))] + shapes(ret)[shape] if loop != 'while_const_false' else [dec()] + shapes(ret)[shape]
                        if loop == 'while_cond':
                            lp = While(Bin('>', X, Lit(INT, 0)), body)
                        elif loop == 'while_true':
                            lp = While(Lit(BOOL, True), body)
                        elif loop == 'for_counted':
                            lp = For(Decl('k', INT, Lit(INT, 0, keep=True)), Bin('<', Var('k', INT), X), OpAssign(Var('k', INT), '+', Lit(INT, 1, keep=True)), body)
                        elif loop == 'for_ever':
                            lp = For(None, None, None, body)
                        else:
                            lp = While(Lit(BOOL, False), body)
                        if loop in ('while_true', 'for_ever') and shape in ('continue_then_win',):
                            pass
                        fb = [mk.mark(), lp]
                        if after == 'stmts':
                            fb += [mk.mark(), Ret(None if ret == EMPTY else Bin('+', X, Lit(INT, 100)))]
                        f = Func(flavor + 'ft', [('x', INT, False)], ret, fb)
                        nxt = Func(flavor + 'fnext', [('x', INT, False)], ret,
                                   [ExprStmt(Call('write', [Lit(STRING, b'<NEXT>')]))] + ([Ret(Lit(INT, -1))] if ret != EMPTY else []))
                        call = Call(f, [Var('a', INT)])
                        use = ExprStmt(Call('write', [call])) if ret != EMPTY else ExprStmt(call)
                        main = Func('@is_you', [('a', INT, False)], EMPTY,
                                    [ExprStmt(Call('write', [Lit(BYTE, ord('['))])), use, ExprStmt(Call('write', [Lit(BYTE, ord(']'))])),
                                     ExprStmt(Call('writeln', [FUEL]))])
                        yield (f'loopexit/{ret}/{shape}/{loop}/{after}/{flavor or "plain"}',
                               Program([Decl('fuel', INT, Lit(INT, 6, keep=True))], [main, f, nxt, dz]), ret)
