"""Seeded generator of well-typed GenAST programs (DESIGN.md section 3.1).

One generator, many profiles: a profile is a dict of weights/flags (see
PROFILES).  Termination is by construction: counted loops whose counter the
body never assigns, call graph is a DAG plus bounded recursion on a decreasing
argument.
"""
import random

from ..model.ast import *  # noqa: F401,F403
from ..model import ast as A


class V:
    """scope entry"""
    __slots__ = ('t', 'const', 'length', 'glob', 'frozen', 'cv')

    def __init__(self, t, const=False, length=None, glob=False, frozen=False, cv=None):
        self.t, self.const, self.length, self.glob, self.frozen, self.cv = t, const, length, glob, frozen, cv


BASE = dict(
    n_funcs=(1, 4), n_globals=(0, 4), main_stmts=(4, 10), func_stmts=(2, 6),
    expr_depth=3, stmt_depth=3, hostile=0.04, strings=0.5, logic_any=0.15,
    shrink=0.25, recursion=0.3, vla=0.4, while_loops=0.3, shadow=0.2, main_args=0.4,
    const_fold_safe=True, time=False, unreachable=0.0, big_lits=0.0, capture=0.5, overloads=0.6,
)

PROFILES = {
    'sequential': dict(BASE),
    'deep': dict(BASE, expr_depth=5, n_funcs=(2, 5), func_stmts=(2, 4)),
    'fault': dict(BASE, hostile=0.35, main_stmts=(3, 7)),
    'memory': dict(BASE, vla=0.8, recursion=0.5, n_funcs=(2, 5), hostile=0.08),
}


class ProgGen:
    def __init__(self, seed, profile='sequential', **over):
        self.r = random.Random(seed)
        self.cfg = dict(PROFILES[profile] if isinstance(profile, str) else profile)
        self.cfg.update(over)
        self.uid = 0
        self.funcs = []       # Func objects callable so far (DAG order: later ones first)
        self.gsc = {}
        self.marks = 0
        self.bump = None
        self.overloads = []
        self.poke = None

    # ------------------------------------------------------------- naming
    def name(self, p):
        self.uid += 1
        return f'{p}{self.uid}'

    def chance(self, key):
        return self.r.random() < self.cfg[key]

    # ------------------------------------------------------------ literals
    def int_lit(self, small=False):
        r = self.r
        if small:
            v = r.choice([0, 1, 2, 3, 4, 5, 7, 9, 10])
        else:
            v = r.choice([0, 1, 2, 3, 5, 7, 10, 16, 100, 127, 128, 200, 255, 256, 257, 1000, 12345, 32767,
                          r.randint(0, 300), r.randint(0, 32767)])
            if r.random() < 0.25:
                v = -v
            if v == 0 and r.random() < 0.1:
                v = -32768
        if self.chance('big_lits'):
            v = r.choice([32768, 65535, 65536, 70000, -32769, 1 << 24, (1 << 31) - 1, 1 << 31, -(1 << 31) - 1])
        text = None
        if v >= 0 and r.random() < 0.15:
            text = r.choice([hex(v), oct(v), bin(v)])
        return Lit(INT, v, text=text)

    def byte_lit(self):
        r = self.r
        return Lit(BYTE, r.choice([0, 1, 9, 10, 32, 39, 48, 65, 92, 97, 127, 128, 200, 255, r.randint(0, 255)]))

    def str_lit(self):
        r = self.r
        n = r.choice([0, 1, 1, 2, 3, 5, 8, 12])
        if r.random() < 0.7:
            data = bytes(r.choice(b'abcXYZ019 _-+*/<>,.') for _ in range(n))
        else:
            data = bytes(r.randint(0, 255) for _ in range(n))
        return Lit(STRING, data)

    def lit(self, t):
        if t == INT: return self.int_lit()
        if t == BYTE: return self.byte_lit()
        if t == BOOL: return Lit(BOOL, self.r.random() < 0.5)
        return self.str_lit()

    # --------------------------------------------------------- expressions
    def vars_of(self, sc, pred):
        return [n for n, v in sc.items() if pred(v)]

    def arr_src(self, sc, el=None):
        """an array-typed variable (name, V)"""
        c = [(n, v) for n, v in sc.items() if A.is_arr(v.t) and (el is None or v.t.el == el)]
        return self.r.choice(c) if c else None

    def index_for(self, sc, d, length_expr, known_len):
        """an index expression that is in bounds unless we are being hostile"""
        r = self.r
        if self.chance('hostile'):
            return r.choice([self.expr(INT, sc, d), Lit(INT, r.choice([-1, -2, 1 << 14])),
                             Bin('+', length_expr, Lit(INT, r.choice([0, 1]))) if length_expr is not None else Lit(INT, 99)])
        if known_len is not None and known_len > 0:
            if r.random() < 0.4:
                return Lit(INT, r.randrange(known_len))
            return Bin('%', self.expr(self.num_t(), sc, d), Lit(INT, known_len, keep=True))
        if length_expr is not None:
            return Bin('%', self.expr(self.num_t(), sc, d), length_expr)
        return Lit(INT, 0)

    def num_t(self):
        return self.r.choice([INT, INT, BYTE])

    def divisor(self, sc, d):
        """a divisor expression that is non-zero unless we are being hostile"""
        r = self.r
        e = self.expr(self.num_t(), sc, d)
        if self.chance('hostile'):
            return r.choice([e, Lit(INT, 0), Bin('-', e, e) if False else e])
        m = r.choice([3, 7, 50])
        return Bin('+', Bin('%', e, Lit(INT, m, keep=True)), Lit(INT, r.choice([m + 1, m + 10, 100]), keep=True))

    def callable_funcs(self, ret, flavors=('',)):
        return [f for f in self.funcs if f.ret == ret and f.flavor in flavors and f.tag not in ('rec', 'bump')]

    def call_args(self, f, sc, d):
        args = []
        for n, t, c in f.params:
            if A.is_arr(t):
                if t == Arr(BYTE, True) and self.cfg['strings'] and self.r.random() < 0.3:
                    # a string is coercible to const byte[]
                    args.append(self.expr(STRING, sc, min(d, 2)) if self.r.random() < 0.6 else Cast(self.expr(STRING, sc, 1), Arr(BYTE, True)))
                    continue
                cands = [nm for nm, v in sc.items() if A.is_arr(v.t) and v.t.el == t.el and (t.const or not v.t.const)]
                if not cands:
                    if t.const or self.r.random() < 0.5:
                        k = self.r.choice([1, 2, 3, 5])
                        args.append(ArrLit([self.expr(t.el, sc, min(d, 1)) for _ in range(k)], t.el, t.const))
                        continue
                    return None
                nm = self.r.choice(cands)
                args.append(Var(nm, sc[nm].t))
            else:
                args.append(self.coerced(t, sc, d))
        return args

    def coerced(self, t, sc, d):
        """expression in a position whose target type is t (implicit coercions allowed)"""
        r = self.r
        if t == INT and r.random() < 0.2:
            return self.expr(BYTE, sc, d)
        if t == BYTE and self.chance('shrink'):
            return self.shrinkable(sc, d)
        return self.expr(t, sc, d)

    def shrinkable(self, sc, d):
        """an INT-typed expression that is coercible to byte (literal shrinking rule)"""
        r = self.r
        if d <= 0 or r.random() < 0.5:
            return Lit(INT, r.randint(0, 255))
        c = r.random()
        a = self.shrinkable(sc, d - 1) if r.random() < 0.6 else self.expr(BYTE, sc, d - 1)
        b = self.shrinkable(sc, d - 1) if r.random() < 0.6 else self.expr(BYTE, sc, d - 1)
        if c < 0.7:
            e = Bin(r.choice(['+', '-', '*']), a, b)
        elif c < 0.85:
            e = Un(r.choice(['+', '-']), a)
        else:
            e = Bin(r.choice(['/', '%']), a, Bin('+', b, Lit(INT, 1, keep=True)))
        if self.cfg['const_fold_safe'] and is_const(e):
            v = const_eval(e)
            if v is None or not (0 <= v <= 255):
                return Lit(INT, r.randint(0, 255))
        return e

    def expr(self, t, sc, d):
        e = self._expr(t, sc, d)
        if self.cfg['const_fold_safe'] and not isinstance(e, Lit) and is_const(e):
            # keep constant sub-expressions inside the range where folding is exact
            v = const_eval(e)
            if v is None or not const_exact(e):
                return self.lit(t)
        return e

    def _expr(self, t, sc, d):
        r = self.r
        if A.is_arr(t):
            raise ValueError('array expr')
        vs = self.vars_of(sc, lambda v: v.t == t)
        if d <= 0 or r.random() < 0.18:
            if vs and r.random() < 0.65:
                n = r.choice(vs)
                return Var(n, t, sc[n].cv)
            return self.lit(t)
        c = r.random()
        fs = self.callable_funcs(t)
        if fs and c < 0.18:
            f = r.choice(fs)
            args = self.call_args(f, sc, d - 1)
            if args is not None:
                return Call(f, args)
        src = self.arr_src(sc, t)
        if src and c < 0.32:
            n, v = src
            av = Var(n, v.t)
            return Index(av, self.index_for(sc, d - 1, Len(av), v.length))
        if t == INT:
            if c < 0.38 and self.cfg['strings'] and r.random() < 0.35:
                # .length of a computed string (call result, element, literal), not just of a variable
                return Len(self.expr(STRING, sc, d - 1))
            if c < 0.38:
                any_arr = self.arr_src(sc)
                ss = self.vars_of(sc, lambda v: v.t == STRING)
                if any_arr and (not ss or r.random() < 0.6):
                    return Len(Var(any_arr[0], any_arr[1].t))
                if ss:
                    return Len(Var(r.choice(ss), STRING))
            if c < 0.48:
                st = r.choice([BYTE, BOOL])
                return Cast(self.expr(st, sc, d - 1), INT)
            if c < 0.56:
                return Un(r.choice(['-', '+']), self.expr(self.num_t(), sc, d - 1))
            op = r.choice(['+', '-', '*', '/', '%', '+', '-', '*'])
            a = self.expr(self.num_t(), sc, d - 1)
            b = self.divisor(sc, d - 1) if op in '/%' else self.expr(self.num_t(), sc, d - 1)
            return Bin(op, a, b)
        if t == BYTE:
            ss = self.vars_of(sc, lambda v: v.t == STRING)
            if ss and c < 0.45 and self.cfg['strings']:
                s = Var(r.choice(ss), STRING)
                return Index(s, self.index_for(sc, d - 1, Len(s), None))
            st = r.choice([INT, INT, BOOL])
            return Cast(self.expr(st, sc, d - 1), BYTE)
        if t == BOOL:
            if c < 0.5:
                op = r.choice(['<', '<=', '>', '>=', '==', '!='])
                return Bin(op, self.expr(self.num_t(), sc, d - 1), self.expr(self.num_t(), sc, d - 1))
            if c < 0.58:
                return Bin(r.choice(['==', '!=']), self.expr(BOOL, sc, d - 1), self.expr(BOOL, sc, d - 1))
            if c < 0.78:
                return Bin(r.choice(['and', 'or']), self.truthy_operand(sc, d - 1), self.truthy_operand(sc, d - 1))
            if c < 0.88:
                return Un('not', self.truthy_operand(sc, d - 1))
            st = r.choice([INT, BYTE] + ([STRING] if self.cfg['strings'] else []))
            return Cast(self.expr(st, sc, d - 1), BOOL)
        # STRING
        fs = self.callable_funcs(STRING)
        sa = self.arr_src(sc, STRING)
        if sa and c < 0.5:
            av = Var(sa[0], sa[1].t)
            return Index(av, self.index_for(sc, d - 1, Len(av), sa[1].length))
        if vs:
            n = r.choice(vs)
            return Var(n, STRING, sc[n].cv)
        return self.str_lit()

    def truthy_operand(self, sc, d):
        if self.chance('logic_any'):
            t = self.r.choice([INT, BYTE] + ([STRING] if self.cfg['strings'] else []))
            return self.expr(t, sc, d)
        return self.expr(BOOL, sc, d)

    # ---------------------------------------------------------- statements
    def mark(self):
        """a cheap unique output marker so control flow is visible"""
        self.marks += 1
        return ExprStmt(Call('write', [Lit(BYTE, 33 + self.marks % 90)]))

    def write_stmt(self, sc, d):
        r = self.r
        ts = [INT, INT, BOOL, BYTE] + ([STRING] if self.cfg['strings'] else [])
        t = r.choice(ts)
        out = [ExprStmt(Call('writeln' if r.random() < 0.25 else 'write', [self.expr(t, sc, d)]))]
        if r.random() < 0.15:
            ba = self.arr_src(sc, BYTE)
            if ba and ba[1].length is not None and not getattr(ba[1], 'uninit', False):
                out.append(ExprStmt(Call('write', [Var(ba[0], ba[1].t)])))
        out.append(ExprStmt(Call('write', [Lit(BYTE, 32)])))
        return out

    def decl_scalar(self, sc, allow_shadow=False):
        r = self.r
        ts = [INT, INT, BYTE, BOOL] + ([STRING] if self.chance('strings') else [])
        t = r.choice(ts)
        nm = self.name('v')
        if allow_shadow and self.chance("shadow"):
            # a local may shadow a global (never another local)
            gs = [n for n, v in sc.items() if v.glob and not A.is_arr(v.t) and n[0] == 'g' and n[1:].isdigit()]
            if gs:
                nm = r.choice(gs)
        const = r.random() < 0.12
        init = self.coerced(t, sc, self.cfg['expr_depth'])
        cv = None
        if const and is_const(init):
            cv = const_eval(init)
            if t == BOOL: cv = _truthy(cv)
        sc[nm] = V(t, const=const, cv=cv)
        return Decl(nm, t, init, const=const)

    def fill_loop(self, nm, el, n_expr, sc):
        iv = self.name('i')
        sc2 = dict(sc)
        sc2[iv] = V(INT, frozen=True)
        tgt = Index(Var(nm, Arr(el, False)), Var(iv, INT))
        return For(Decl(iv, INT, Lit(INT, 0, keep=True)), Bin('<', Var(iv, INT), n_expr),
                   OpAssign(Var(iv, INT), '+', Lit(INT, 1, keep=True)),
                   [Assign(tgt, self.coerced(el, sc2, 2))])

    def decl_array(self, sc):
        r = self.r
        els = [INT, INT, BYTE, BOOL] + ([STRING] if self.chance('strings') else [])
        el = r.choice(els)
        nm = self.name('a')
        ln = r.choice([1, 2, 3, 5, 8, 9, 17])
        if self.chance('vla'):
            ln_e = Lit(INT, ln, keep=True)
            if r.random() < 0.4:
                ivs = self.vars_of(sc, lambda v: v.t == INT and v.frozen)
                base = Var(r.choice(ivs), INT) if ivs else Lit(INT, 0)
                ln_e = Bin('+', Bin('%', base, Lit(INT, 4, keep=True)), Lit(INT, ln + 4, keep=True))
                ln = None
            out = [VLA(nm, el, ln_e)]
            av = Var(nm, Arr(el, False))
            out.append(self.fill_loop(nm, el, Len(av), sc))   # sc does not contain nm yet: no self-reads
            sc[nm] = V(Arr(el, False), length=ln)
            return out
        const = r.random() < 0.3
        if const and r.random() < 0.5 and el != STRING:
            elems = [self.lit(el) for _ in range(ln)]      # becomes a const global (all primitive)
        elif const and el == STRING:
            elems = [self.str_lit() for _ in range(ln)]
        else:
            elems = [self.coerced(el, sc, 2) for _ in range(ln)]
        sc[nm] = V(Arr(el, const), length=ln)
        return [Decl(nm, Arr(el, const), ArrLit(elems, el, const))]

    def alias(self, sc):
        src = self.arr_src(sc)
        if not src:
            return []
        n, v = src
        nm = self.name('r')
        const = v.t.const or self.r.random() < 0.0   # const view of a mutable array is rejected by hidc ("Volatile" in declaration)
        t = Arr(v.t.el, const)
        sc[nm] = V(t, length=v.length)
        return [Decl(nm, t, Var(n, v.t))]

    def assign(self, sc, d):
        r = self.r
        scal = [(n, v) for n, v in sc.items() if not A.is_arr(v.t) and not v.const and not v.frozen]
        arrs = [(n, v) for n, v in sc.items() if A.is_arr(v.t) and not v.t.const]
        if arrs and (not scal or r.random() < 0.45):
            n, v = r.choice(arrs)
            av = Var(n, v.t)
            tgt = Index(av, self.index_for(sc, 2, Len(av), v.length))
            el = v.t.el
            if el in (INT, BYTE) and r.random() < 0.4:
                op = r.choice(ARITH)
                return [OpAssign(tgt, op, self.opassign_rhs(el, op, sc))]
            return [Assign(tgt, self.coerced(el, sc, d))]
        if scal:
            n, v = r.choice(scal)
            if v.t in (INT, BYTE) and r.random() < 0.4:
                op = r.choice(ARITH)
                return [OpAssign(Var(n, v.t), op, self.opassign_rhs(v.t, op, sc))]
            return [Assign(Var(n, v.t), self.coerced(v.t, sc, d))]
        return []

    def opassign_rhs(self, t, op, sc):
        """right-hand side of `x op= e`: for a byte target `x op e` must stay coercible to byte"""
        if t == BYTE:
            if op in '/%' and not self.chance('hostile'):
                return Bin('+', self.expr(BYTE, sc, 1), Lit(INT, 1, keep=True))
            return self.expr(BYTE, sc, 2)
        return self.divisor(sc, 2) if op in '/%' else self.expr(self.num_t(), sc, 2)

    def call_stmt(self, sc, d, flavors=('',)):
        fs = self.callable_funcs(EMPTY, flavors) or [f for f in self.funcs if f.flavor in flavors and f.tag not in ('rec', 'bump')]
        if not fs:
            return []
        f = self.r.choice(fs)
        args = self.call_args(f, sc, d)
        if args is None:
            return []
        return [ExprStmt(Call(f, args))]

    def counted_loop(self, sc, d, ctx):
        r = self.r
        n = r.randint(1, 4)
        ctx2 = dict(ctx, in_loop=True, nested=True)
        if self.chance('while_loops'):
            k = self.name('k')
            sc2 = dict(sc)
            sc2[k] = V(INT, frozen=True)
            body = [OpAssign(Var(k, INT), '-', Lit(INT, 1, keep=True))] + self.stmts(sc2, r.randint(1, 3), d - 1, ctx2)
            return [Block([Decl(k, INT, Lit(INT, n, keep=True)), While(Bin('>', Var(k, INT), Lit(INT, 0, keep=True)), body)])]
        iv = self.name('i')
        sc2 = dict(sc)
        sc2[iv] = V(INT, frozen=True)
        return [For(Decl(iv, INT, Lit(INT, 0, keep=True)), Bin('<', Var(iv, INT), Lit(INT, n, keep=True)),
                    OpAssign(Var(iv, INT), '+', Lit(INT, 1, keep=True)), self.stmts(sc2, r.randint(1, 3), d - 1, ctx2))]

    def stmts(self, sc, n, d, ctx):
        """ctx: dict(in_loop, ret (type or None=no return allowed), flavor)"""
        r = self.r
        out = []
        sc = dict(sc)
        ed = self.cfg['expr_depth']
        for _ in range(n):
            c = r.random()
            if c < 0.13:
                out.append(self.decl_scalar(sc, ctx.get("nested", False)))
            elif c < 0.22:
                out.extend(self.decl_array(sc))
            elif c < 0.25:
                out.extend(self.alias(sc))
            elif c < 0.45:
                out.extend(self.assign(sc, ed))
            elif c < 0.66:
                out.extend(self.write_stmt(sc, ed))
            elif c < 0.75 and d > 0:
                out.append(If(self.expr(BOOL, sc, ed), self.stmts(sc, r.randint(1, 3), d - 1, dict(ctx, nested=True)),
                              self.stmts(sc, r.randint(1, 2), d - 1, dict(ctx, nested=True)) if r.random() < 0.5 else None))
            elif c < 0.83 and d > 0:
                out.extend(self.counted_loop(sc, d, ctx))
            elif c < 0.86 and d > 0:
                out.append(Block(self.stmts(sc, r.randint(1, 3), d - 1, dict(ctx, nested=True))))
            elif c < 0.90 and ctx.get('in_loop'):
                if r.random() < 0.5:
                    out.append(If(self.expr(BOOL, sc, 2), [r.choice([Break, Continue])()]))
                else:
                    out.append(r.choice([Break, Continue])())
                    if not self.chance('unreachable'):
                        break
            elif c < 0.93 and ctx.get('ret', 'no') != 'no' and d < self.cfg['stmt_depth']:
                rt = ctx['ret']
                out.append(If(self.expr(BOOL, sc, 2), [Ret(self.coerced(rt, sc, 2) if rt != EMPTY else None)]))
            elif c < 0.955 and self.bump is not None and 'gi' in sc and sc['gi'].glob:
                out.extend(self.capture_stmts(sc))
            elif c < 0.962:
                # the remaining builtins: sleep(int), debug(), progress()
                k = r.random()
                if k < 0.5:
                    out.append(ExprStmt(Call('sleep', [self.coerced(INT, sc, 2)])))
                else:
                    out.append(ExprStmt(Call(r.choice(['debug', 'progress']), [])))
            elif c < 0.985 and self.overloads:
                out.extend(self.overload_call(sc))
            else:
                out.extend(self.call_stmt(sc, 2))
        return out

    # ---------------------------------------------------------- overloads
    def make_overloads(self):
        """a family of functions sharing one name; each member prints a unique tag"""
        r = self.r
        nm = self.name('ov')
        types = r.sample([INT, BYTE, BOOL, STRING], r.randint(2, 3))
        ret = r.choice([EMPTY, INT])
        fam = []
        for t in types:
            self.marks += 1
            body = [ExprStmt(Call('write', [Lit(STRING, f'<{nm}:{t}>'.encode())]))]
            if t in (INT, BYTE):
                body.append(ExprStmt(Call('write', [Cast(Var('q', t), INT) if t == BYTE else Var('q', INT)])))
            if ret != EMPTY:
                body.append(Ret(Lit(INT, len(fam) + 1)))
            fam.append(Func(nm, [('q', t, False)], ret, body, tag='ov'))
        return fam

    def overload_call(self, sc):
        """call resolved by the documented rule: the member whose parameter type matches the argument's static type
        exactly, otherwise the first declared member the argument can be coerced to"""
        r = self.r
        fam = r.choice(self.overloads)
        have = [f.params[0][1] for f in fam]
        choices = [(f, f.params[0][1]) for f in fam]            # exact matches
        if BYTE not in have and INT in have:
            choices.append((fam[have.index(INT)], BYTE))           # byte -> int is the only member it can be coerced to
        f, at = r.choice(choices)
        arg = self.expr(at, sc, 2)
        call = Call(f, [arg])
        return [ExprStmt(call) if f.ret == EMPTY else ExprStmt(Call('write', [call]))]

    def capture_stmts(self, sc):
        """value-capture discipline: a mutable global is read (as index, operand, argument, element) and a
        later-evaluated call in the same statement changes it; the earlier read must have been captured"""
        r = self.r
        gi = Var('gi', INT)
        bump = self.bump
        arrs = [(n, v) for n, v in sc.items() if A.is_arr(v.t) and not v.t.const and v.length and v.t.el in (INT, BYTE, BOOL)]
        out = []
        W = lambda e: ExprStmt(Call('write', [e]))      # noqa: E731
        sp = ExprStmt(Call('write', [Lit(BYTE, 32)]))
        c = r.random()
        iarrs = [(n, v) for n, v in arrs if v.t.el == INT]
        if iarrs and self.poke is not None and c < 0.25:
            # the element read (or op-assigned) earlier in the statement is overwritten by a later call through the
            # by-reference array; the earlier read must have been captured
            n, v = r.choice(iarrs)
            av = Var(n, v.t)
            k = r.randrange(v.length)
            el = Index(av, Lit(INT, k))
            call = Call(self.poke, [av, Lit(INT, k), Lit(INT, r.randint(50, 99))])
            out.append(Assign(Index(av, Lit(INT, k)), Lit(INT, r.randint(1, 9))))
            kind = r.random()
            if kind < 0.4:
                out.append(OpAssign(Index(av, Lit(INT, k)), r.choice(['+', '-', '*']), call))
            elif kind < 0.7:
                out.append(W(Bin(r.choice(['+', '-', '*']), el, call)))
            else:
                out.append(W(Index(ArrLit([el, call, Index(av, Lit(INT, k))], INT, True), Lit(INT, r.randrange(3)))))
            out += [sp, W(Index(av, Lit(INT, k))), sp]
            return out
        if arrs and c < 0.55:
            n, v = r.choice(arrs)
            av = Var(n, v.t)
            k = r.randrange(v.length)
            to = r.choice([v.length + 2, v.length, (k + 1) % v.length, -1])
            call = Call(bump, [Lit(INT, to)])
            rhs = {INT: call, BYTE: Cast(call, BYTE), BOOL: Bin('>', call, Lit(INT, 0))}[v.t.el]
            out.append(Assign(gi, Lit(INT, k)))
            kind = r.random()
            if kind < 0.5 or v.t.el == BOOL:
                out.append(Assign(Index(av, gi), rhs))
            elif kind < 0.8:
                out.append(OpAssign(Index(av, gi), r.choice(['+', '-', '*']), call if v.t.el == INT else Cast(call, BYTE)))
            else:
                out.append(Assign(Index(av, Bin('%', Call(bump, [Lit(INT, k)]), Lit(INT, v.length, keep=True))), {INT: gi, BYTE: Cast(gi, BYTE), BOOL: Bin('==', gi, Lit(INT, k))}[v.t.el]))
            shown = Index(av, Lit(INT, k))
            out += [W(shown if v.t.el != BYTE else Cast(shown, INT)), sp]
        else:
            out.append(Assign(gi, Lit(INT, r.randint(0, 9))))
            call = Call(bump, [Lit(INT, r.randint(10, 40))])
            kind = r.random()
            if kind < 0.3:
                out.append(W(Bin(r.choice(['+', '-', '*']), gi, call)))
            elif kind < 0.5:
                out.append(W(Bin(r.choice(['<', '==', '>=']), gi, call)))
            elif kind < 0.7:
                out.append(W(Index(ArrLit([gi, call, gi], INT, True), Lit(INT, r.randrange(3)))))
            elif kind < 0.85:
                out.append(W(Bin('+', Bin('*', gi, Lit(INT, 2)), Bin('-', call, gi))))
            else:
                nm = self.name('cv')
                out += [Decl(nm, INT, Bin('-', gi, call)), W(Var(nm, INT))]
                sc[nm] = V(INT)
            out.append(sp)
        out += [W(gi), sp, Assign(gi, Lit(INT, 0))]
        return out

    # ----------------------------------------------------------- functions
    def make_func(self, gsc):
        r = self.r
        params = []
        sc = dict(gsc)
        for _ in range(r.randint(0, 3)):
            if r.random() < 0.35:
                el = r.choice([INT, BYTE, BOOL] + ([STRING] if self.chance('strings') else []))
                t = Arr(el, r.random() < 0.5)
            else:
                t = r.choice([INT, INT, BYTE, BOOL] + ([STRING] if self.chance('strings') else []))
            pn = self.name('p')
            if gsc and self.chance('shadow') and not A.is_arr(t):
                cand = r.choice([g_ for g_ in gsc if g_ != 'gi'] or ['p_unused'])
                if all(cand != q for q, _, _ in params):
                    pn = cand
            params.append((pn, t, False))
            sc[pn] = V(t)
        ret = r.choice([EMPTY, INT, INT, BYTE, BOOL] + ([STRING] if self.chance('strings') else []))
        f = Func(self.name('f'), params, ret)
        lo, hi = self.cfg['func_stmts']
        body = self.stmts(sc, r.randint(lo, hi), 2, dict(in_loop=False, ret=ret))
        if ret != EMPTY:
            body.append(Ret(self.coerced(ret, sc, 2)))
        f.body = body
        return f

    def make_recursive(self, gsc):
        """int rec(int n, int acc [, int[] arr]) with n decreasing"""
        r = self.r
        nm = self.name('rec')
        with_arr = r.random() < 0.5
        params = [('n', INT, False), ('acc', INT, False)] + ([('arr', Arr(INT, False), False)] if with_arr else [])
        f = Func(nm, params, INT, tag='rec')
        sc = dict(gsc)
        sc['n'] = V(INT, frozen=True)
        sc['acc'] = V(INT)
        if with_arr:
            sc['arr'] = V(Arr(INT, False))
        base = [Ret(self.expr(INT, sc, 2))]
        pre = self.stmts(sc, r.randint(0, 2), 1, dict(in_loop=False, ret='no'))
        rec_args = [Bin('-', Var('n', INT), Lit(INT, 1, keep=True)), self.expr(INT, sc, 2)] + ([Var('arr', Arr(INT, False))] if with_arr else [])
        if r.random() < 0.5:
            tail = [Ret(Bin(r.choice(['+', '-', '*']), Call(f, rec_args), self.expr(INT, sc, 1)))]
        else:
            tmp = self.name('t')
            tail = [Decl(tmp, INT, Call(f, rec_args)), self.mark(), Ret(Bin('+', Var(tmp, INT), Var('acc', INT)))]
        f.body = [If(Bin('<=', Var('n', INT), Lit(INT, 0, keep=True)), base)] + pre + tail
        return f

    def globals_(self):
        r = self.r
        gl = []
        gsc = {}
        lo, hi = self.cfg['n_globals']
        for _ in range(r.randint(lo, hi)):
            c = r.random()
            if c < 0.6:
                t = r.choice([INT, INT, BYTE, BOOL] + ([STRING] if self.chance('strings') else []))
                nm = self.name('g')
                const = r.random() < 0.15
                init = self.lit(t)
                init.keep = True
                gl.append(Decl(nm, t, init, const=const))
                gsc[nm] = V(t, const=const, glob=True, cv=init.v if const else None)
            elif c < 0.9:
                el = r.choice([INT, BYTE, BOOL] + ([STRING] if self.chance('strings') else []))
                nm = self.name('ga')
                ln = r.choice([1, 3, 8, 9])
                const = r.random() < 0.4
                elems = []
                for _ in range(ln):
                    x = self.lit(el)
                    x.keep = True
                    elems.append(x)
                gl.append(Decl(nm, Arr(el, const), ArrLit(elems, el, const)))
                gsc[nm] = V(Arr(el, const), length=ln, glob=True)
            else:
                el = r.choice([INT, BYTE, BOOL])
                nm = self.name('gz')
                ln = r.choice([1, 4, 9])
                gl.append(VLA(nm, el, Lit(INT, ln, keep=True)))
                gsc[nm] = V(Arr(el, False), length=ln, glob=True)
        return gl, gsc

    def main_params(self):
        """entry point parameter mix and a matching argument vector"""
        r = self.r
        if not self.chance('main_args'):
            return [], [], {}
        params, args, sc = [], [], {}
        n = r.randint(0, 2)
        kinds = [r.choice([INT, BYTE, STRING]) for _ in range(n)]
        arr_at = r.randint(0, n) if r.random() < 0.7 else None
        for i in range(n + 1):
            if arr_at == i:
                el = r.choice([INT, BYTE, STRING])
                const = True if el == STRING else r.random() < 0.5
                nm = self.name('av')
                k = r.randint(0, 4)
                params.append((nm, Arr(el, const), False))
                sc[nm] = V(Arr(el, const), length=None)
                for _ in range(k):
                    args.append(self.arg_text(el))
            if i < n:
                nm = self.name('ap')
                params.append((nm, kinds[i], False))
                sc[nm] = V(kinds[i])
                args.append(self.arg_text(kinds[i]))
        return params, args, sc

    def arg_text(self, t):
        r = self.r
        if t == INT:
            return str(r.choice([0, 1, -1, 7, 255, 256, 32767, -32768, r.randint(-300, 300)]))
        if t == BYTE:
            return str(r.choice([0, 1, 65, 127, 128, 255, r.randint(0, 255)]))
        return r.choice(['', 'a', 'hello', 'x y', 'Zq9', 'hé'])

    def add_capture_helpers(self, gl, gsc):
        if not self.chance('capture'):
            return
        gl.append(Decl('gi', INT, Lit(INT, 0, keep=True)))
        gsc['gi'] = V(INT, glob=True, frozen=True)
        gi = Var('gi', INT)
        self.bump = Func('bump', [('to', INT, False)], INT,
                         [Decl('old', INT, gi), Assign(gi, Var('to', INT)), Ret(Bin('+', Var('old', INT), Lit(INT, 1)))], tag='bump')
        pa = Var('pa', Arr(INT, False))
        self.poke = Func('poke', [('pa', Arr(INT, False), False), ('k', INT, False), ('v', INT, False)], INT,
                         [Assign(Index(pa, Var('k', INT)), Var('v', INT)), Ret(Bin('+', Var('v', INT), Lit(INT, 1)))], tag='bump')

    def program(self):
        r = self.r
        gl, gsc = self.globals_()
        self.add_capture_helpers(gl, gsc)
        self.gsc = gsc
        if self.chance('overloads'):
            self.overloads.append(self.make_overloads())
        lo, hi = self.cfg['n_funcs']
        nf = r.randint(lo, hi)
        for _ in range(nf):
            if self.chance('recursion') and r.random() < 0.5:
                f = self.make_recursive(gsc)
            else:
                f = self.make_func(gsc)
            self.funcs.insert(0, f)
        params, args, psc = self.main_params()
        sc = dict(gsc)
        sc.update(psc)
        main = Func('@is_you', params, EMPTY)
        lo, hi = self.cfg['main_stmts']
        main.body = self.stmts(sc, r.randint(lo, hi), self.cfg['stmt_depth'], dict(in_loop=False, ret=EMPTY))
        # make sure recursive functions are exercised with a small depth
        for f in self.funcs:
            if f.name.startswith('rec') and r.random() < 0.8:
                a = [Lit(INT, r.randint(0, 6)), self.expr(INT, sc, 1)]
                if len(f.params) == 3:
                    cands = [nm for nm, v in sc.items() if A.is_arr(v.t) and v.t.el == INT and not v.t.const]
                    if not cands:
                        continue
                    cn = r.choice(cands)
                    a.append(Var(cn, sc[cn].t))
                main.body.append(ExprStmt(Call('writeln', [Call(f, a)])))
        prog = Program(gl, [main] + list(self.funcs) + ([self.bump, self.poke] if self.bump is not None else [])
                       + [f for fam in self.overloads for f in fam])
        return prog, args


# ------------------------------------------------------- constant analysis
def is_const(e):
    """would hidc fold this expression completely at compile time?"""
    if isinstance(e, Lit):
        return True
    if isinstance(e, Var):
        return e.cv is not None
    if isinstance(e, Bin):
        return is_const(e.a) and is_const(e.b)
    if isinstance(e, Un):
        return is_const(e.a)
    if isinstance(e, Cast):
        return not A.is_arr(e.t) and is_const(e.e)
    if isinstance(e, Spec):
        return is_const(e.a) and is_const(e.b)       # hidc folds a ?? b to a when both are constants
    return False


def const_eval(e):
    """exact (unbounded) value the way hidc folds it; None if folding would be rejected"""
    if isinstance(e, Lit):
        return e.v
    if isinstance(e, Var):
        return e.cv
    if isinstance(e, Spec):
        a, b = const_eval(e.a), const_eval(e.b)
        return None if a is None or b is None else a
    if isinstance(e, Un):
        a = const_eval(e.a)
        if a is None: return None
        if e.op == '-': return -int(a)
        if e.op == '+': return int(a)
        return not _truthy(a)
    if isinstance(e, Cast):
        a = const_eval(e.e)
        if a is None: return None
        if e.t == BOOL: return _truthy(a)
        if e.t == BYTE: return int(a) & 0xFF      # hidc truncates constant casts to byte
        return int(a)
    if isinstance(e, Bin):
        a, b = const_eval(e.a), const_eval(e.b)
        if a is None or b is None: return None
        op = e.op
        if op == 'and': return _truthy(a) and _truthy(b)
        if op == 'or': return _truthy(a) or _truthy(b)
        if op == '==': return a == b
        if op == '!=': return a != b
        a, b = int(a), int(b)
        if op == '+': return a + b
        if op == '-': return a - b
        if op == '*': return a * b
        if op in '/%':
            if b == 0: return None
            return a // b if op == '/' else a % b
        return {'<': a < b, '<=': a <= b, '>': a > b, '>=': a >= b}[op]
    return None


def _truthy(v):
    return len(v) != 0 if isinstance(v, (bytes, bytearray)) else v != 0


def const_exact(e, bits=16):
    """True iff every integer sub-result of the constant expression stays inside
    the signed 16-bit range and every byte cast is of a value in 0..255, i.e.
    folding on unbounded integers is exact at every supported word size"""
    lo, hi = -(1 << (bits - 1)), (1 << (bits - 1)) - 1
    for x in A.walk_expr(e):
        if isinstance(x, (Bin, Un, Cast, Lit, Var)) and x.t in (INT, BYTE) and is_const(x):
            v = const_eval(x)
            if v is None:
                return False
            if x.t == BYTE and not (0 <= int(v) <= 255):
                return False
            if not (lo <= int(v) <= hi):
                return False
    return True
