"""Defeat-placement enumeration for C03: every defeat-capable construct in every
legal context, every exit route out of a try followed by another try.
Programs are text templates (no reference model is needed: the oracle is
"no committed halt")."""
import itertools

HEAD = r'''
int n = 0;
empty !dz(int k) { write('z'); !truth_is_defeat(k == 1); }
empty !dp(int k) { write('p'); preempt { write('q'); n += 1; } !truth_is_defeat(k == 1); }
empty !dw(int k) { while (k > 5) { preempt { write('w'); } k -= 1; } !truth_is_defeat(k == 1); }
empty !dd(int k) { write('d'); !dz(0); !dz(k); }
empty !dr(int k) { if (k > 0) { !dr(k - 1); } else { !truth_is_defeat(n == 99); } }
int !dv(int k) { if (k == 1) { !is_defeat(); } return k + 1; }
int side(int k) { n += 1; return k; }
empty !dt(int k) { write('c'); if (k == 1) { !truth_is_defeat(true); } }
empty !dc(int k) { write('c'); if (k == 1) { !truth_is_defeat(2 + 2 == 4 and not false); } !truth_is_defeat(false); }
empty !dn(int k) { write('c'); !truth_is_defeat(not not (k == 1)); !truth_is_defeat(not (k != 1)); }
empty !dl(int k) { for (int i = 0; i < 3; i += 1) { if (i == 2 and k == 1) { !is_defeat(); } if (i == 0) { continue; } } }
'''

CONSTRUCTS = [
    ('is_defeat', "!is_defeat();"),
    ('cond_is_defeat', "if (x == 1) { !is_defeat(); }"),
    ('tid_compare', "!truth_is_defeat(x == 1);"),
    ('tid_compare_call', "!truth_is_defeat(side(x) == side(1));"),
    ('tid_or', "!truth_is_defeat(x == 1 or x == 3);"),
    ('tid_not', "!truth_is_defeat(not (x != 1));"),
    ('tid_and', "!truth_is_defeat(x >= 1 and x <= 1);"),
    ('tid_const_true', "!truth_is_defeat(true);"),
    ('tid_const_false', "!truth_is_defeat(false);"),
    ('tid_generic', "!truth_is_defeat((x - 2) is bool);"),
    ('tid_boolvar', "bool bf = x == 1; !truth_is_defeat(bf);"),
    ('tid_not_var', "bool bg = x != 1; !truth_is_defeat(not bg);"),
    ('dcall', "!dz(x);"),
    ('dcall_preemptive', "!dp(x);"),
    ('dcall_preemptive_while', "!dw(x);"),
    ('dcall_nested', "!dd(x);"),
    ('dcall_recursive', "!dr(x);"),
    ('dcall_const_true', "!dt(x);"),
    ('dcall_const_folded', "!dc(x);"),
    ('dcall_double_not', "!dn(x);"),
    ('dcall_loop_defeat', "!dl(x);"),
    ('tid_double_not', "!truth_is_defeat(not not (x == 1));"),
    ('dcall_value', "write(!dv(x));"),
    ('dcall_value_in_expr', "int t = !dv(x) + side(2); write(t);"),
    ('preempt_then_defeat', "preempt { write('P'); x = 0; } !truth_is_defeat(x == 1);"),
    ('preempt_exit', "preempt { write('P'); EXIT } !truth_is_defeat(x == 1);"),
    ('win_in_try', "if (x == 3) { all_is_win(); } !truth_is_defeat(x == 1);"),
    ('broken_in_try', "if (x == 3) { all_is_broken(); } !truth_is_defeat(x == 1);"),
    ('array_then_defeat', "int[] ta = [x, side(x), 3]; ta[0] += 1; !truth_is_defeat(ta[0] == 2);"),
]

WRAPPERS = [
    ('plain', "S"),
    ('if', "if (x >= 0) { S }"),
    ('else', "if (x < 0) { write('n'); } else { S }"),
    ('while', "int wi = 0; while (wi < 2) { wi += 1; S }"),
    ('for', "for (int fi = 0; fi < 2; fi += 1) { S }"),
    ('block', "{ int bl = x; S }"),
    ('in_preempt', "preempt { write('O'); S } !truth_is_defeat(y == 1);"),
]

# how the try statement sits in the you-function, and how it is left
ROUTES = [
    ('fallthrough', "TRY", ""),
    ('loop_break', "for (int li = 0; li < 2; li += 1) { TRY write('l'); }", "break;"),
    ('loop_continue', "for (int li = 0; li < 2; li += 1) { TRY write('l'); }", "continue;"),
    ('helper_return', "@helper(x, y);", "return;"),
]

SECOND = [
    ('then_undo', "try { write('a'); !dz(y); write('b'); } undo { write('u'); }"),
    ('then_stop', "try { write('a'); !dp(y); write('b'); } stop { write('s'); }"),
    ('then_undo_direct', "try { write('a'); !truth_is_defeat(y == 1); } undo { write('u'); }"),
]

HANDLERS = [
    ('simple', "write('h');"),
    ('handler_with_try', "write('h'); try { !dz(y); write('k'); } undo { write('v'); }"),
]


def programs():
    """yield (tag, source); every program takes int arguments x y"""
    for (cn, c), (wn, w), kind, (rn, rt, ex), (sn, second), (hn, h) in itertools.product(
            CONSTRUCTS, WRAPPERS, ('undo', 'stop'), ROUTES, SECOND, HANDLERS):
        if 'EXIT' in c:
            if not ex:
                continue
            c2 = c.replace('EXIT', ex)
        else:
            c2 = c
            if ex and wn != 'plain':
                continue
            if ex:
                c2 = c + f" if (y == 1) {{ {ex} }}"
        if hn != 'simple' and (wn != 'plain' or sn != 'then_undo'):
            continue
        body = w.replace('S', c2)
        tr = f"try {{ write('t'); {body} write('e'); }} {kind} {{ {h} }}"
        if rn == 'helper_return':
            src = (HEAD + f"empty @helper(int x, int y) {{ {tr} write('r'); }}\n"
                   f"empty @is_you(int x, int y) {{ {rt} write('m'); {second} writeln(n); }}\n")
        else:
            src = HEAD + f"empty @is_you(int x, int y) {{ {rt.replace('TRY', tr)} write('m'); {second} writeln(n); }}\n"
        yield f'{cn}/{wn}/{kind}/{rn}/{sn}/{hn}', src


INPUTS = [('0', '0'), ('1', '0'), ('3', '0'), ('0', '1'), ('1', '1'), ('7', '1')]


# Programs that break a flavour/context rule so that a defeat-capable construct sits where nothing can avert
# or catch it.  hidc must reject every one of them; if a (changed) compiler accepts one, C03 still applies to it
# ("every accepted program ... never halts"), so it is run.
PICK = "int !pick(int k) { write('k'); if (k == 1) { !is_defeat(); } return k + 1; }\n"
ILLEGAL_IF_ACCEPTED = [
    ('defeat_expr_in_stop_handler_decl', "empty @is_you(int x, int y) { try { write('t'); !truth_is_defeat(x == 1); } stop { int v = !pick(y); write(v); } writeln(); }"),
    ('defeat_expr_in_stop_handler_if', "empty @is_you(int x, int y) { try { write('t'); !truth_is_defeat(x == 1); } stop { if (!pick(y) > 0) { write('g'); } } writeln(); }"),
    ('defeat_expr_in_stop_handler_write', "empty @is_you(int x, int y) { try { write('t'); !truth_is_defeat(x == 1); } stop { write(!pick(y)); } writeln(); }"),
    ('defeat_expr_in_undo_handler', "empty @is_you(int x, int y) { try { write('t'); !truth_is_defeat(x == 1); } undo { int v = !pick(y); write(v); } writeln(); }"),
    ('defeat_stmt_in_stop_handler', "empty @is_you(int x, int y) { try { write('t'); !truth_is_defeat(x == 1); } stop { !truth_is_defeat(y == 1); write('h'); } writeln(); }"),
    ('defeat_stmt_in_undo_handler', "empty @is_you(int x, int y) { try { write('t'); !truth_is_defeat(x == 1); } undo { !pick(y); write('h'); } writeln(); }"),
    ('is_defeat_in_handler', "empty @is_you(int x, int y) { try { write('t'); !truth_is_defeat(x == 1); } stop { if (y == 1) { !is_defeat(); } } writeln(); }"),
    ('preempt_in_handler', "empty @is_you(int x, int y) { try { write('t'); !truth_is_defeat(x == 1); } stop { preempt { write('p'); } !truth_is_defeat(y == 1); } writeln(); }"),
    ('defeat_in_you_outside_try', "empty @is_you(int x, int y) { int v = !pick(y); write(v); writeln(); }"),
    ('defeat_stmt_in_you_outside_try', "empty @is_you(int x, int y) { !truth_is_defeat(y == 1); writeln(); }"),
    ('defeat_in_ordinary_function', "int plain(int k) { return !pick(k); } empty @is_you(int x, int y) { write(plain(y)); writeln(); }"),
    ('defeat_stmt_in_ordinary_function', "empty plain(int k) { !truth_is_defeat(k == 1); } empty @is_you(int x, int y) { plain(y); writeln(); }"),
    ('preempt_in_you_outside_try', "empty @is_you(int x, int y) { preempt { write('p'); } writeln(); }"),
    ('preempt_in_ordinary_function', "empty plain(int k) { preempt { write('p'); } } empty @is_you(int x, int y) { plain(y); writeln(); }"),
    ('defeat_in_spec_left', "empty @is_you(int x, int y) { write(!pick(y) ?? 0); writeln(); }"),
    ('defeat_in_spec_right', "empty @is_you(int x, int y) { write(x ?? !pick(y)); writeln(); }"),
    ('defeat_in_global_init', "int g = !pick(1); empty @is_you(int x, int y) { write(g); writeln(); }"),
    ('defeat_after_try', "empty @is_you(int x, int y) { try { write('t'); } undo { write('u'); } !truth_is_defeat(y == 1); writeln(); }"),
    ('defeat_in_you_helper', "empty @h(int k) { !truth_is_defeat(k == 1); } empty @is_you(int x, int y) { @h(y); writeln(); }"),
    ('defeat_in_loop_in_you', "empty @is_you(int x, int y) { for (int i = 0; i < 2; i += 1) { !truth_is_defeat(y == i); } writeln(); }"),
    ('defeat_in_handler_of_try_in_loop', "empty @is_you(int x, int y) { for (int i = 0; i < 2; i += 1) { try { !truth_is_defeat(x == i); } stop { write(!pick(y)); } } writeln(); }"),
]


def illegal_programs():
    for tag, body in ILLEGAL_IF_ACCEPTED:
        yield tag, PICK + body + "\n"
