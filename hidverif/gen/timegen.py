"""Generator of time-travelling programs (profile "time", DESIGN.md section 6 C02):
histories of try/undo and try/stop blocks in one run, preempt in try bodies and
defeat functions, defeat functions calling defeat functions, exits out of try by
break/continue/return, `??` with side-effecting operands, handlers containing
further tries."""
from ..model.ast import *  # noqa: F401,F403
from ..model import ast as A
from .progs import ProgGen, V, BASE

TIME = dict(BASE, n_funcs=(0, 2), n_globals=(0, 2), func_stmts=(1, 3), hostile=0.0, strings=0.2,
            recursion=0.0, vla=0.3, main_args=0.25, expr_depth=2,
            tries=(2, 5), p_stop=0.5, p_dcall=0.8, p_spec=0.25, p_loop_try=0.3, p_you_helper=0.5,
            p_diverge=0.3, p_arrays_in_try=0.6, p_handler_try=0.15, defeat_funcs=(1, 3))


class TimeGen(ProgGen):
    def __init__(self, seed, **over):
        super().__init__(seed, dict(TIME), **over)
        self.dfuncs = []
        self.yfuncs = []
        self.counters = []

    # ------------------------------------------------------------ pieces
    def gvar(self):
        return Var(self.r.choice(['g', 'h']), INT)

    def gexpr(self, sc):
        r = self.r
        g = self.gvar()
        c = r.random()
        if c < 0.3:
            return g
        if c < 0.6:
            return Bin('+', g, Lit(INT, r.randint(1, 5)))
        if c < 0.8:
            return Bin('*', g, Lit(INT, r.randint(2, 3)))
        ivs = self.vars_of(sc, lambda v: v.t == INT and not v.glob)
        if ivs:
            return Bin('+', g, Var(r.choice(ivs), INT))
        return Bin('-', g, Lit(INT, r.randint(1, 3)))

    def cond(self, sc):
        r = self.r
        m = r.choice([2, 3, 4, 5])
        base = Bin('%', self.gexpr(sc), Lit(INT, m, keep=True))
        c = r.random()
        if c < 0.55:
            return Bin(r.choice(['==', '!=']), base, Lit(INT, r.randrange(m)))
        if c < 0.7:
            return Bin(r.choice(['<', '<=', '>', '>=']), base, Lit(INT, r.randrange(m)))
        if c < 0.8:
            return Bin('or', self.cond(sc), self.cond(sc))
        if c < 0.87:
            return Un('not', self.cond(sc))
        if c < 0.92:
            return Bin('and', self.cond(sc), self.cond(sc))
        if c < 0.95:
            return Lit(BOOL, r.random() < 0.3)
        return Cast(base, BOOL)

    def mut(self, sc):
        r = self.r
        v = self.gvar()
        c = r.random()
        if c < 0.5:
            return OpAssign(v, '+', Lit(INT, r.randint(1, 4)))
        if c < 0.8:
            return Assign(v, self.gexpr(sc))
        arrs = [(n, x) for n, x in sc.items() if A.is_arr(x.t) and not x.t.const and x.t.el == INT and x.length]
        if arrs:
            n, x = r.choice(arrs)
            return Assign(Index(Var(n, x.t), Lit(INT, r.randrange(x.length))), self.gexpr(sc))
        return OpAssign(v, '-', Lit(INT, 1))

    def show(self):
        return ExprStmt(Call('write', [self.gvar()]))

    def local_array(self, sc):
        r = self.r
        nm = self.name('ta')
        n = r.choice([1, 2, 3, 5])
        if r.random() < 0.5:
            sc[nm] = V(Arr(INT, False), length=n)
            return [Decl(nm, Arr(INT, False), ArrLit([self.gexpr(sc) for _ in range(n)], INT, False))]
        out = [VLA(nm, INT, Bin('+', Bin('%', self.gvar(), Lit(INT, 3, keep=True)), Lit(INT, n + 3, keep=True)))]
        sc[nm] = V(Arr(INT, False), length=n)   # at least n+1 elements
        out.append(Assign(Index(Var(nm, Arr(INT, False)), Lit(INT, 0)), self.gexpr(sc)))
        return out

    def exit_stmt(self, ctx):
        r = self.r
        opts = []
        if ctx.get('in_loop'):
            opts += [Break(), Continue()]
        if ctx.get('ret', 'no') != 'no' and r.random() < 0.5:
            rt = ctx['ret']
            opts.append(Ret(None if rt == EMPTY else self.gvar()))
        return r.choice(opts) if opts else None

    # ------------------------------------------- statements under defeat
    def try_items(self, sc, n, d, ctx):
        """statements for a try body or a defeat-function body"""
        r = self.r
        out = []
        sc = dict(sc)
        for _ in range(n):
            c = r.random()
            if c < 0.2:
                out.append(self.mark())
            elif c < 0.33:
                out.append(self.mut(sc))
            elif c < 0.5:
                pb = [self.mark()]
                if r.random() < 0.7:
                    pb.append(self.mut(sc))
                if r.random() < 0.4:
                    x = self.exit_stmt(ctx)
                    if x is not None:
                        pb.append(x)
                out.append(Preempt(pb))
            elif c < 0.62:
                out.append(ExprStmt(Call('!truth_is_defeat', [self.cond(sc)])))
            elif c < 0.66:
                out.append(If(self.cond(sc), [ExprStmt(Call('!is_defeat', []))]))
            elif c < 0.74 and d > 0:
                iv = self.name('i')
                sc2 = dict(sc)
                sc2[iv] = V(INT, frozen=True)
                out.append(For(Decl(iv, INT, Lit(INT, 0, keep=True)), Bin('<', Var(iv, INT), Lit(INT, r.randint(2, 3), keep=True)),
                               OpAssign(Var(iv, INT), '+', Lit(INT, 1, keep=True)),
                               self.try_items(sc2, r.randint(1, 3), d - 1, dict(ctx, in_loop=True))))
            elif c < 0.82 and d > 0:
                out.append(If(self.cond(sc), self.try_items(sc, r.randint(1, 2), d - 1, ctx),
                              self.try_items(sc, 1, d - 1, ctx) if r.random() < 0.4 else None))
            elif c < 0.90 and ctx.get('dfuncs') and self.chance('p_dcall'):
                f = r.choice(ctx['dfuncs'])
                call = Call(f, [Lit(INT, r.randint(0, 4)) if t == INT else self.cond(sc) for _, t, _ in f.params])
                if f.ret == INT and r.random() < 0.7:
                    # a defeat call nested in an expression (the exit analysis only sees statement-level calls)
                    k = r.random()
                    if k < 0.3:
                        out.append(ExprStmt(Call('write', [call])))
                    elif k < 0.55:
                        out.append(Assign(self.gvar(), Bin('+', call, Lit(INT, 1))))
                    elif k < 0.8:
                        out.append(If(Bin('>', call, Lit(INT, r.randint(0, 3))), [self.mark()]))
                    elif ctx.get('ret') == INT:
                        out.append(Ret(call))
                        break
                    else:
                        nm = self.name('dv')
                        sc[nm] = V(INT)
                        out.append(Decl(nm, INT, call))
                else:
                    out.append(ExprStmt(call))
            elif c < 0.94 and self.funcs:
                out.extend(self.call_stmt(sc, 1))
            elif c < 0.96 and self.chance('p_arrays_in_try'):
                out.extend(self.local_array(sc))
            elif c < 0.975 and self.chance('p_diverge'):
                out.append(If(self.cond(sc), [While(Lit(BOOL, True), [])]))
            elif c < 0.99:
                x = self.exit_stmt(ctx)
                if x is not None:
                    out.append(If(self.cond(sc), [x]))
            else:
                out.append(self.show())
        return out

    def make_defeat_func(self, idx, callees):
        r = self.r
        preemptive = r.random() < 0.5
        recursive = r.random() < 0.25
        nm = f'!d{idx}'
        params = [('k', INT, False)] + ([('c', BOOL, False)] if r.random() < 0.3 else [])
        ret = EMPTY if r.random() < 0.6 else INT
        if idx == 1 and r.random() < 0.6:
            params, ret = [('k', INT, False)], INT       # a value-returning defeat function usable inside expressions
        f = Func(nm, params, ret)
        sc = dict(self.gsc)
        sc['k'] = V(INT, frozen=True)
        if len(params) == 2:
            sc['c'] = V(BOOL)
        ctx = dict(in_loop=False, ret=ret, dfuncs=list(callees))
        body = [self.mark()]
        if recursive:
            body.append(If(Bin('>', Var('k', INT), Lit(INT, 0, keep=True)),
                           [ExprStmt(Call(f, [Bin('-', Var('k', INT), Lit(INT, 1, keep=True))] + ([Lit(BOOL, False)] if len(params) == 2 else [])))]))
        items = self.try_items(sc, r.randint(1, 4), 1, ctx)
        if not preemptive:
            items = strip_preempt(items)
        elif not A._has_preempt(items):
            items.insert(r.randint(0, len(items)), Preempt([self.mark(), self.mut(sc)]))
        body += items
        if r.random() < 0.6:
            body.append(ExprStmt(Call('!truth_is_defeat', [Bin('==', Bin('%', Bin('+', self.gvar(), Var('k', INT)), Lit(INT, 3, keep=True)), Lit(INT, r.randrange(3)))])))
        if ret != EMPTY:
            body.append(Ret(self.gvar()))
        f.body = body
        return f

    def counter_func(self):
        """ordinary side-effecting function for ?? operands"""
        r = self.r
        nm = self.name('cnt')
        t = r.choice([INT, INT, BYTE, BOOL])
        f = Func(nm, [('k', INT, False)], t)
        val = Bin('%', Bin('+', self.gvar(), Var('k', INT)), Lit(INT, 3, keep=True))
        body = [self.mark(), OpAssign(self.gvar(), '+', Lit(INT, 1))]
        if r.random() < 0.1:
            body.append(If(Bin('==', val, Lit(INT, 2)), [While(Lit(BOOL, True), [])]))
        body.append(Ret(val if t == INT else Cast(val, t)))
        f.body = body
        return f

    def spec_expr(self, sc):
        r = self.r
        if r.random() < 0.35:
            # plain variable / literal on the left, computed (non-call) expression on the right
            a = r.choice([self.gvar(), Lit(INT, r.randrange(4)), Bin('%', self.gvar(), Lit(INT, 3, keep=True))])
            ivs = self.vars_of(sc, lambda v: v.t == INT and not v.glob)
            if ivs and r.random() < 0.5:
                a = Var(r.choice(ivs), INT)
            b = r.choice([Bin('+', Bin('%', self.gvar(), Lit(INT, 3, keep=True)), Lit(INT, r.randrange(3))),
                          Bin('*', self.gvar(), Lit(INT, r.randint(1, 2))), Un('-', self.gvar()),
                          Bin('-', self.gvar(), self.gvar()), Lit(INT, r.randrange(4))])
            return Spec(a, b)
        f = r.choice(self.counters)
        a = Call(f, [Lit(INT, r.randint(0, 3))])
        if f.ret == INT:
            b = r.choice([Lit(INT, r.randrange(3)), self.gvar(), Bin('%', self.gvar(), Lit(INT, 3, keep=True))])
            if len(self.counters) > 1 and r.random() < 0.2:
                f2 = r.choice([x for x in self.counters if x.ret == INT] or [f])
                b = Call(f2, [Lit(INT, r.randint(0, 3))])
        elif f.ret == BYTE:
            b = r.choice([Lit(BYTE, r.randrange(3)), Lit(INT, r.randrange(3))])
        else:
            b = Lit(BOOL, r.random() < 0.5)
        return Spec(a, b)

    def spec_stmt(self, sc):
        r = self.r
        e = self.spec_expr(sc)
        c = r.random()
        if c < 0.4:
            return [ExprStmt(Call('write', [e]))]
        if c < 0.6:
            nm = self.name('sv')
            sc[nm] = V(e.t)
            return [Decl(nm, e.t, e), ExprStmt(Call('write', [Var(nm, e.t)]))]
        if c < 0.8:
            test = e if e.t == BOOL else Bin('==', e, Lit(INT, r.randrange(3)))
            return [If(test, [self.mark()], [self.mark()])]
        if e.t == INT:
            return [Assign(self.gvar(), e)]
        return [ExprStmt(Call('write', [e]))]

    def try_block(self, sc, d, ctx):
        r = self.r
        kind = 'stop' if self.chance('p_stop') else 'undo'
        tctx = dict(ctx, dfuncs=self.dfuncs)
        vfs = [f for f in self.dfuncs if f.ret == INT and len(f.params) == 1]
        if vfs and r.random() < 0.15:
            # a try body whose only defeat calls are nested in expressions and which does not fall through;
            # the handler does, so what follows the try must still run when the handler ran
            call = Call(r.choice(vfs), [Lit(INT, r.randint(0, 4))])
            body = [self.mark()] + ([self.mut(sc)] if r.random() < 0.5 else [])
            opts = ['write_return']
            if ctx.get('ret') == INT:
                opts += ['return_call', 'return_call']
            if ctx.get('in_loop'):
                opts += ['assign_break', 'if_continue']
            k = r.choice(opts)
            if k == 'return_call':
                body.append(Ret(call))
            elif k == 'write_return':
                body += [ExprStmt(Call('write', [call])), Ret(None if ctx.get('ret') == EMPTY else self.gvar())]
            elif k == 'assign_break':
                body += [Assign(self.gvar(), call), Break()]
            else:
                body += [If(Bin('>', call, Lit(INT, 1)), [self.mark()]), Continue()]
            handler = [self.mark(), self.mut(sc)]
            return Try(body, kind, handler)
        body = self.try_items(sc, r.randint(2, 5), d, tctx)
        c = r.random()
        if c < 0.35:
            body.append(ExprStmt(Call('!is_defeat', [])))
        elif c < 0.7:
            body.append(ExprStmt(Call('!truth_is_defeat', [self.cond(sc)])))
        hctx = dict(ctx)
        handler = self.you_items(sc, r.randint(1, 2), 0 if not self.chance('p_handler_try') else 1, hctx, allow_try=self.chance('p_handler_try'))
        return Try(body, kind, handler)

    def you_items(self, sc, n, d, ctx, allow_try=True):
        r = self.r
        out = []
        sc = dict(sc)
        for _ in range(n):
            c = r.random()
            if c < 0.2:
                out.append(self.mark())
            elif c < 0.35:
                out.append(self.mut(sc))
            elif c < 0.5 and allow_try:
                out.append(self.try_block(sc, 2, ctx))
            elif c < 0.6 and self.counters and self.chance('p_spec'):
                out.extend(self.spec_stmt(sc))
            elif c < 0.7 and d > 0:
                out.append(If(self.cond(sc), self.you_items(sc, r.randint(1, 2), d - 1, ctx, allow_try)))
            elif c < 0.8 and d > 0 and allow_try and self.chance('p_loop_try'):
                iv = self.name('L')
                sc2 = dict(sc)
                sc2[iv] = V(INT, frozen=True)
                body = self.you_items(sc2, r.randint(1, 3), d - 1, dict(ctx, in_loop=True), allow_try)
                if not any(isinstance(s, Try) for s in body):
                    body.insert(0, self.try_block(sc2, 1, dict(ctx, in_loop=True)))
                out.append(For(Decl(iv, INT, Lit(INT, 0, keep=True)), Bin('<', Var(iv, INT), Lit(INT, r.randint(2, 3), keep=True)),
                               OpAssign(Var(iv, INT), '+', Lit(INT, 1, keep=True)), body))
            elif c < 0.86 and ctx.get('yfuncs'):
                f = r.choice(ctx['yfuncs'])
                call = Call(f, [Lit(INT, r.randint(0, 3))])
                out.append(ExprStmt(call) if f.ret == EMPTY else ExprStmt(Call('write', [call])))
            elif c < 0.92 and self.funcs:
                out.extend(self.call_stmt(sc, 1))
            else:
                out.append(self.show())
        return out

    def make_you_func(self, idx):
        r = self.r
        ret = r.choice([EMPTY, INT])
        f = Func(f'@y{idx}', [('k', INT, False)], ret)
        sc = dict(self.gsc)
        sc['k'] = V(INT, frozen=True)
        ctx = dict(in_loop=False, ret=ret, yfuncs=list(self.yfuncs))
        body = self.you_items(sc, r.randint(1, 3), 1, ctx)
        if not any(isinstance(s, Try) for s in body):
            body.append(self.try_block(sc, 2, ctx))
        if ret != EMPTY:
            body.append(Ret(self.gexpr(sc)))
        f.body = body
        return f

    def program(self):
        r = self.r
        gl, gsc = self.globals_()
        for nm in ('g', 'h'):
            gl.append(Decl(nm, INT, Lit(INT, r.randint(0, 3), keep=True)))
            gsc[nm] = V(INT, glob=True)
        self.gsc = gsc
        lo, hi = self.cfg['n_funcs']
        for _ in range(r.randint(lo, hi)):
            self.funcs.insert(0, self.make_func(gsc))
        for _ in range(r.randint(0, 2)):
            self.counters.append(self.counter_func())
        lo, hi = self.cfg['defeat_funcs']
        for i in range(r.randint(lo, hi)):
            self.dfuncs.append(self.make_defeat_func(i + 1, list(self.dfuncs)))
        if self.chance('p_you_helper'):
            for i in range(r.randint(1, 2)):
                self.yfuncs.append(self.make_you_func(i + 1))
        params, args, psc = self.main_params()
        sc = dict(gsc)
        sc.update(psc)
        main = Func('@is_you', params, EMPTY)
        ctx = dict(in_loop=False, ret=EMPTY, yfuncs=self.yfuncs)
        lo, hi = self.cfg['tries']
        body = []
        for _ in range(r.randint(lo, hi)):
            body.extend(self.you_items(sc, r.randint(0, 2), 1, ctx, allow_try=True))
            body.append(self.try_block(sc, 2, ctx))
            body.append(self.show())
            body.append(ExprStmt(Call('writeln', [Var('h', INT)])))
        main.body = body
        prog = Program(gl, [main] + self.yfuncs + self.dfuncs + self.counters + list(self.funcs))
        return prog, args


def strip_preempt(stmts):
    out = []
    for s in stmts:
        if isinstance(s, Preempt):
            continue
        for attr in ('a', 'b', 'body'):
            if attr in s.__slots__ and isinstance(getattr(s, attr), list):
                setattr(s, attr, strip_preempt(getattr(s, attr)))
        out.append(s)
    return out
