"""Scope-exit enumeration for C08: arrays of every kind declared at every
nesting level of a loop body, left by every exit route, for 1..50 iterations.
Text templates (the oracle is M-BAL / M-SAN / peak-ap twins, no model)."""
import itertools

HEAD = r'''
int sink = 0;
int f(int k) { int[] t = [k, k + 1]; sink += t[1]; return t[0] * 2; }
int g(int k) { int q[k % 3 + 1]; q[0] = k; return q[0] + 1; }
empty !d1(int k) { int[] e = [k, 1]; !truth_is_defeat(e[0] == 1); }
empty !d2(int k) { bool m[k % 5 + 3]; m[0] = true; !d1(k); write('2'); }
empty !d3(int k) { int[] w = [f(k), g(k)]; !d2(k); write('3'); }
int @y(int k) { int[] t = [k, 5]; try { !truth_is_defeat(k == 1); t[1] = 6; } stop { t[1] = 9; } return t[1]; }
empty use(int[] a) { a[0] += 1; sink += a[0]; }
empty use(const byte[] a) { sink += a.length; }
'''

ARRAYS = [
    ('literal', "int[] A = [x, 2, 3]; use(A);"),
    ('vla_dyn', "int A[x % 3 + 2]; A[0] = x; use(A);"),
    ('vla_bool', "bool A[9]; A[8] = true; if (A[8]) { sink += 1; }"),
    ('const_stack', "const byte[] A = [1, x is byte, 3]; use(A);"),
    ('string_vla', "string A[2]; A[0] = \"s\"; sink += A[0].length;"),
    ('literal_calls', "int[] A = [f(x), g(x), f(g(x))]; use(A);"),
    ('alias', "int[] B0 = [x, 9]; int[] A = B0; use(A);"),
    ('two', "int[] A = [x]; byte Z[x % 2 + 1]; Z[0] = 'z'; use(A);"),
    ('empty_literal', "int[] A = []; sink += A.length;"),
    ('empty_then_real', "byte[] A = []; int[] B1 = [x, x]; sink += A.length + B1[1];"),
]

# EXIT statement executed when (i % 3 == 1); 'where' says which contexts it is legal in
EXITS = [
    ('fallthrough', "sink += 1;", 'any'),
    ('break', "break;", 'loop'),
    ('continue', "continue;", 'loop'),
    ('return', "return;", 'any'),
    ('defeat_direct', "!is_defeat();", 'try'),
    ('defeat_cond', "!truth_is_defeat(x >= 0);", 'try'),
    ('defeat_1deep', "!d1(1);", 'try'),
    ('defeat_2deep', "!d2(1);", 'try'),
    ('defeat_3deep', "!d3(1);", 'try'),
    ('preempt_break', "preempt { write('p'); break; } !truth_is_defeat(x >= 0);", 'tryloop'),
    ('preempt_continue', "preempt { write('p'); continue; } !truth_is_defeat(x >= 0);", 'tryloop'),
]

LOOPS = [
    ('for', "for (int i = 0; i < n; i += 1) { BODY }"),
    ('while', "int i = 0; while (i < n) { i += 1; BODY }"),
    ('while_true', "int i = 0; while (true) { i += 1; if (i > n) { break; } BODY }"),
]

# shapes: where the array (ARR) and the exit (EXIT) sit relative to the loop body
SHAPES = [
    ('same_level', "ARR if (i % 3 == 1) { EXIT } write('.');"),
    ('exit_deeper', "ARR if (i % 3 == 1) { { int pad = i; { EXIT } } } write('.');"),
    ('array_deeper', "{ ARR if (i % 3 == 1) { EXIT } } write('.');"),
    ('two_levels', "ARR { ARR2 if (i % 3 == 1) { EXIT } write(','); } write('.');"),
    ('inner_loop', "ARR for (int j = 0; j < 2; j += 1) { ARR2 if (i % 3 == 1 and j == 1) { EXIT } } write('.');"),
    # an earlier exit of the same loop taken BEFORE the iteration owns anything, then the array, then the exit under test
    ('guard_continue_before_array', "if (i % 4 == 2) { write('g'); continue; } ARR if (i % 3 == 1) { EXIT } write('.');"),
    # the exit construct is the LAST statement of the block that owns the array (nothing follows it inside that block)
    ('loop_last_in_block', "{ ARR for (int j = 0; j < 3; j += 1) { ARR2 if (i % 3 == 1 and j == 1) { EXIT } } } write('.');"),
    ('if_else_last_in_block', "{ ARR if (i % 3 == 1) { EXIT } else { sink += 2; } } write('.');"),
    ('array_in_for_init_scope', "for (int j = x - x; j < 2; j += 1) { ARR if (i % 3 == 1 and j == 1) { EXIT } }"),
    # the exit is the unconditional LAST statement of the loop body itself
    ('exit_last_unconditional', "ARR write('.'); if (i > 50) { return; } EXIT"),
    # the try body allocates nothing itself; the defeat function it calls does, and is defeated while its arrays are live
    ('try_without_arrays', "ARR try { if (i % 3 == 1) { EXIT } write(','); } stop { write('t'); } write('.');"),
    ('try_without_arrays_array_after', "try { if (i % 3 == 1) { EXIT } write(','); } stop { write('t'); } ARR write('.');"),
    # the loop body's try/stop and, in the same iteration, a call to a you-function that has a try/stop of its own (defeated or not): what the
    # first handler needs in order to restore the frame must survive the callee's try, from one iteration to the next
    ('try_then_you_call', "ARR try { if (i % 3 == 1) { EXIT } write(','); } stop { write('t'); } sink += @y(i % 2); write('.');"),
    ('try_you_call_then_try', "ARR sink += @y(i % 2); try { if (i % 3 == 1) { EXIT } write(','); } stop { write('t'); } write('.');"),
    ('try_with_you_call_inside', "ARR try { sink += @y((i + 1) % 2); if (i % 3 == 1) { EXIT } write(','); } stop { write('t'); sink += @y(1); } write('.');"),
    ('guard_break_before_array', "if (i == 5) { write('G'); break; } ARR if (i % 3 == 1) { EXIT } write('.');"),
]


def programs():
    for (an, arr), (en, ex, where), (ln, loop), (sn, shape), tryk in itertools.product(
            ARRAYS, EXITS, LOOPS, SHAPES, ('none', 'stop_inside', 'stop_around', 'undo_inside')):
        in_try = tryk != 'none'
        if sn.startswith('try_'):
            if where != 'try' or tryk != 'none':
                continue          # the shape brings its own try/stop: defeat exits only, no outer try
        elif where in ('try', 'tryloop') and tryk not in ('stop_inside', 'stop_around'):
            continue
        if where == 'tryloop' and tryk != 'stop_inside':
            continue
        if tryk == 'undo_inside' and en not in ('fallthrough', 'break', 'continue', 'return'):
            continue
        if tryk == 'stop_around' and en in ('break', 'continue') and False:
            continue
        if sn == 'inner_loop' and en in ('break', 'continue', 'preempt_break', 'preempt_continue'):
            pass   # exits the inner loop only: still a scope exit
        body = shape.replace('ARR2', arr.replace('A', 'C').replace('B0', 'D0').replace('Z', 'Y')).replace('ARR', arr).replace('EXIT', ex)
        if tryk == 'stop_inside':
            body = f"try {{ {body} }} stop {{ write('s'); }}"
        elif tryk == 'undo_inside':
            body = f"try {{ {body} }} undo {{ write('u'); }}"
        lp = loop.replace('BODY', body)
        if tryk == 'stop_around':
            lp = f"try {{ {lp} }} stop {{ write('S'); }}"
        src = (HEAD + f"empty @work(int x, int n) {{ int[] outer = [7, 8]; {lp} write(outer[1]); }}\n"
               "empty @is_you(int x, int n) { @work(x, n); @work(x + 1, n); writeln(sink); }\n")
        yield f'{an}/{en}/{ln}/{sn}/{tryk}', src, en != 'fallthrough'
