"""Greedy delta debugging on GenAST: drop statements / functions / globals and
simplify expressions while a predicate (the same monitor still fires) holds."""
import copy

from .model.ast import *  # noqa: F401,F403
from .model import ast as A


def _stmt_lists(prog):
    out = []

    def rec(lst):
        out.append(lst)
        for s in lst:
            for attr in ('a', 'b', 'body', 'handler'):
                if attr in s.__slots__:
                    sub = getattr(s, attr)
                    if isinstance(sub, list):
                        rec(sub)
    for f in prog.funcs:
        rec(f.body)
    return out


def _expr_slots(prog):
    """(container, attr-or-index) pairs holding expressions"""
    out = []

    def rec_e(holder, key, e):
        out.append((holder, key))
        for attr in ('a', 'b', 'e', 'src', 'idx'):
            if attr in e.__slots__:
                x = getattr(e, attr)
                if isinstance(x, Node) and not isinstance(x, (Decl, Assign, OpAssign, ExprStmt)):
                    rec_e(e, attr, x)
        if isinstance(e, Call):
            for i, a in enumerate(e.args):
                rec_e(e.args, i, a)
        if isinstance(e, ArrLit):
            for i, a in enumerate(e.elems):
                rec_e(e.elems, i, a)

    def rec_s(s):
        for attr in ('init', 'length', 'e', 'c'):
            if attr in s.__slots__:
                x = getattr(s, attr)
                if isinstance(x, (Decl, Assign, OpAssign, ExprStmt, VLA)):
                    rec_s(x)
                elif isinstance(x, Node):
                    rec_e(s, attr, x)
        if 'step' in s.__slots__ and s.step is not None:
            rec_s(s.step)
        if 'target' in s.__slots__ and isinstance(s.target, Index):
            rec_e(s.target, 'idx', s.target.idx)
        for attr in ('a', 'b', 'body', 'handler'):
            if attr in s.__slots__:
                sub = getattr(s, attr)
                if isinstance(sub, list):
                    for x in sub:
                        rec_s(x)
    for f in prog.funcs:
        for s in f.body:
            rec_s(s)
    return out


def _get(holder, key):
    return holder[key] if isinstance(holder, list) else getattr(holder, key)


def _set(holder, key, v):
    if isinstance(holder, list):
        holder[key] = v
    else:
        setattr(holder, key, v)


def _default_lit(t):
    if t == INT: return Lit(INT, 1)
    if t == BYTE: return Lit(BYTE, 65)
    if t == BOOL: return Lit(BOOL, True)
    if t == STRING: return Lit(STRING, b'x')
    return None


def minimize(prog, pred, max_tests=400):
    """pred(prog) -> bool (True: still failing).  Returns a reduced deep copy."""
    prog = copy.deepcopy(prog)
    tests = [0]

    def ok(p):
        tests[0] += 1
        if tests[0] > max_tests:
            return False
        try:
            return bool(pred(p))
        except Exception:
            return False

    changed = True
    while changed and tests[0] <= max_tests:
        changed = False
        # drop functions other than the entry point
        for f in list(prog.funcs):
            if f.name == '@is_you':
                continue
            prog.funcs.remove(f)
            if ok(prog):
                changed = True
            else:
                prog.funcs.append(f)
        for g in list(prog.globals):
            i = prog.globals.index(g)
            prog.globals.remove(g)
            if ok(prog):
                changed = True
            else:
                prog.globals.insert(i, g)
        # drop statements, last to first
        for lst in _stmt_lists(prog):
            i = len(lst) - 1
            while i >= 0:
                s = lst.pop(i)
                if ok(prog):
                    changed = True
                else:
                    lst.insert(i, s)
                    # try hoisting the body of a compound statement
                    for attr in ('a', 'body'):
                        if attr in s.__slots__ and isinstance(getattr(s, attr), list) and not isinstance(s, (Try, Preempt)):
                            lst[i:i + 1] = [Block(getattr(s, attr))]
                            if ok(prog):
                                changed = True
                                break
                            lst[i:i + 1] = [s]
                i -= 1
        # simplify expressions
        for holder, key in _expr_slots(prog):
            try:
                e = _get(holder, key)
            except (IndexError, AttributeError):
                continue
            if isinstance(e, Lit) or not isinstance(e, Node):
                continue
            cands = []
            for attr in ('a', 'b', 'e'):
                if attr in e.__slots__:
                    x = getattr(e, attr)
                    if isinstance(x, Node) and getattr(x, 't', None) == e.t:
                        cands.append(x)
            d = _default_lit(e.t)
            if d is not None:
                cands.append(d)
            for c in cands:
                _set(holder, key, c)
                if ok(prog):
                    changed = True
                    break
                _set(holder, key, e)
    return prog
