"""python -m hidverif run <Cxx> [--tier quick|thorough] | shard ... | replay <path> | selfcheck"""
import argparse
import json
import os
import sys


def main():
    ap = argparse.ArgumentParser(prog='hidverif')
    sub = ap.add_subparsers(dest='cmd', required=True)
    r = sub.add_parser('run')
    r.add_argument('prop')
    r.add_argument('--tier', default=None)
    r.add_argument('--jobs', type=int, default=0)
    s = sub.add_parser('shard')
    s.add_argument('prop'); s.add_argument('spec'); s.add_argument('out')
    p = sub.add_parser('replay')
    p.add_argument('path')
    sub.add_parser('selfcheck')
    a = ap.parse_args()
    if a.cmd == 'run':
        from . import runner
        tier = a.tier or os.environ.get('VERIF_TIER') or 'quick'
        if tier not in ('quick', 'thorough'):
            tier = 'quick'
        try:
            seed = int(os.environ.get('VERIF_SEED', '0'))
        except ValueError:
            seed = 0
        return runner.run_check(a.prop.upper(), tier, seed, a.jobs or runner.NCPU)
    if a.cmd == 'shard':
        from . import runner
        with open(a.spec) as f:
            spec = json.load(f)
        runner.run_shard_process(a.prop.upper(), spec, a.out)
        return 0
    if a.cmd == 'selfcheck':
        from .svm import selfcheck
        selfcheck.run()
        print('SVM self-check ok:', len(selfcheck.CASES), 'cases')
        return 0
    if a.cmd == 'replay':
        from . import replay
        return replay.main(a.path)


if __name__ == '__main__':
    sys.exit(main())
