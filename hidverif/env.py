"""Locate and import the compiler under test from /repo's current working tree.

hidc is a *namespace package* (no top-level __init__.py); with an editable
install also present the portions are merged and each sub-package comes from
the first path that has it.  Putting HID_REPO first is sufficient, but every
worker asserts that the sub-packages really come from HID_REPO and refuses to
run (inconclusive) otherwise.
"""
import os
import sys

REPO = os.path.realpath(os.environ.get('HID_REPO', '/repo'))
VERIF = os.path.dirname(os.path.dirname(os.path.realpath(__file__)))
GUARD = 'HIDC_VERIF'

_loaded = False


class MachineryError(Exception):
    """The verification machinery itself is unusable: verdict inconclusive."""


def load():
    global _loaded
    if _loaded:
        return
    if REPO in sys.path:
        sys.path.remove(REPO)
    sys.path.insert(0, REPO)
    os.environ.setdefault(GUARD, '1')
    import hidc.lexer, hidc.parser, hidc.ast, hidc.codegen.generator, hidc.errors  # noqa
    for m in (hidc.lexer, hidc.parser, hidc.ast, hidc.codegen.generator, hidc.errors,
              sys.modules['hidc.codegen.asm'], sys.modules['hidc.codegen.stdlib'],
              sys.modules['hidc.parser.grammar'], sys.modules['hidc.lexer.readers']):
        f = os.path.realpath(m.__file__)
        if not f.startswith(REPO + os.sep):
            raise MachineryError(f'{m.__name__} loaded from {f}, not from {REPO}')
    _loaded = True


def compile_src(source, word=2, stack=500, unchecked=False, lint=False):
    """source (str) -> list of assembly lines (bytes).  Exceptions propagate."""
    load()
    from hidc.lexer import SourceCode
    from hidc.parser import parse
    from hidc.ast import Environment
    from hidc.codegen import CodeGen
    env = Environment.empty(unreachable_error=lint)
    parse(SourceCode.from_string(source)).evaluate(env)
    cg = CodeGen(env, word_size=word, stack_size=stack, unchecked=unchecked)
    return list(cg.gen_lines())


def compile_file_bytes(data, word=2, stack=500, unchecked=False):
    """like compile_src, but through the command-line tool's input path: the bytes are written to a scratch file and read
    back with SourceCode.from_file"""
    load()
    import os
    from hidc.lexer import SourceCode
    from hidc.parser import parse
    from hidc.ast import Environment
    from hidc.codegen import CodeGen
    scratch = os.environ.get('HIDVERIF_SCRATCH') or os.path.join(VERIF, '.scratch')
    os.makedirs(scratch, exist_ok=True)
    path = os.path.join(scratch, f'src-{os.getpid()}.hid')
    with open(path, 'wb') as f:
        f.write(data)
    try:
        env = Environment.empty()
        parse(SourceCode.from_file(path)).evaluate(env)
        cg = CodeGen(env, word_size=word, stack_size=stack, unchecked=unchecked)
        return list(cg.gen_lines())
    finally:
        try:
            os.remove(path)
        except OSError:
            pass


def typecheck_src(source, lint=False):
    load()
    from hidc.lexer import SourceCode
    from hidc.parser import parse
    from hidc.ast import Environment
    env = Environment.empty(unreachable_error=lint)
    return parse(SourceCode.from_string(source)).evaluate(env), env


def compiler_error_types():
    load()
    import hidc.errors as E
    return E.CompilerError, E.InternalCompilerError
