"""M-SAN "SphinxSan": shadow classification of every load/store of a compiled
program (DESIGN.md section 4).

State memory is classified into registers, try_fp/defeat, stack (split by the
*live* ap and fp words into array region [stack_start, ap), gap [ap, fp) and
caller frames [fp, stack_end)), and global objects (extent = label to next
label).  Live array segments are tracked from the instructions that move ap.

Every load/store instruction carries a static access class derived from its
operand form:
    FRAME   base operand is [fp]            -> must stay inside the gap
    FRESH   base operand is [ap]            -> must stay inside the newest segment
    ELEM    base operand is anything else   -> must stay inside the object that
                                               contains the base value
    PTR     lws/lbs/sws/sbs/lwc/lbc through a register (stdlib pointer walk)
    DIRECT  named word / byte
"""
import bisect

from ..svm.vm import Monitor


class SanMonitor(Monitor):
    name = 'san'

    def attach(self, vm):
        self.vm = vm
        prog = vm.p
        lab = prog.labels
        st = {n: a for n, (s, a) in lab.items() if s == 'state'}
        self.ok = all(k in st for k in ('ap', 'fp', 'r0', 'r1', 'r2', 'stack_start', 'stack_end'))
        self.counts = {}
        self.spec_reports = 0
        self.state = ()              # live array segments (start, end) ascending
        if not self.ok:
            return
        self.A_ap, self.A_fp = st['ap'], st['fp']
        self.stack_start, self.stack_end = st['stack_start'], st['stack_end']
        self.special = [st[n] for n in ('try_fp', 'defeat') if n in st]
        self.gobj = sorted({a for a in st.values() if a >= self.stack_end} | {len(prog.state)})
        self.cobj = sorted({a for n, (s, a) in lab.items() if s == 'const'} | {len(prog.const)})
        self.cls = []
        for op, ops, ln in prog.code:
            c = None
            if op in ('lwso', 'lbso', 'lwco', 'lbco'):
                c = self._base_class(ops[1])
            elif op in ('swso', 'sbso'):
                c = self._base_class(ops[0])
            elif op in ('lws', 'lbs', 'lwc', 'lbc'):
                c = 'PTR' if ops[1][0] == 'S' else 'DIRECT'
            elif op in ('sws', 'sbs'):
                c = 'PTR' if ops[0][0] == 'S' else 'DIRECT'
            self.cls.append(c)
        vm.watch_words.setdefault(self.A_ap, []).append(self)

    def _base_class(self, o):
        if o[0] == 'S' and o[1] == self.A_fp:
            return 'FRAME'
        if o[0] == 'S' and o[1] == self.A_ap:
            return 'FRESH'
        return 'ELEM'

    @staticmethod
    def _obj_of(bounds, b):
        i = bisect.bisect_right(bounds, b) - 1
        if i < 0 or i + 1 >= len(bounds):
            return None
        return bounds[i], bounds[i + 1]

    def rep(self, msg):
        self.vm.report('san', msg)

    def on_access(self, space, base, a, size, store):
        if not self.ok:
            return
        vm = self.vm
        c = self.cls[vm.pc]
        self.counts[c] = self.counts.get(c, 0) + 1
        ap = vm.rdw(self.A_ap)
        fp = vm.rdw(self.A_fp)
        if space == 'C':
            o = self._obj_of(self.cobj, base if c == 'ELEM' else a)
            if o is None or not (o[0] <= a and a + size <= o[1]):
                self.rep(f'const {c} load @{a}+{size} outside object of base {base}: {o}')
            return
        if c == 'FRAME':
            if not (ap <= a and a + size <= fp):
                self.rep(f'frame {"store" if store else "load"} @{a}+{size} outside gap [{ap},{fp})')
        elif c == 'FRESH':
            segs = self.state
            seg = segs[-1] if segs else None
            if seg is None or not (seg[0] <= a and a + size <= seg[1] and seg[1] == ap):
                self.rep(f'fresh-array access @{a}+{size} outside newest segment {seg} ap={ap}')
        elif c == 'ELEM':
            o = None
            if self.stack_start <= base < ap:
                for s in self.state:
                    if s[0] <= base < s[1] or (s[0] == base == s[1]):
                        o = s if o is None else (o[0], max(o[1], s[1]))
            elif base >= self.stack_end:
                o = self._obj_of(self.gobj, base)
            if o is None:
                # zero-length array: base == its start == its end; any access is outside
                self.rep(f'element {"store" if store else "load"} @{a}+{size}: base {base} is in no live object ap={ap} fp={fp}')
            elif not (o[0] <= a and a + size <= o[1]):
                self.rep(f'element {"store" if store else "load"} @{a}+{size} outside object {o} of base {base} ap={ap} fp={fp}')
        elif c == 'PTR':
            if store:
                ok = ap <= a and a + size <= fp
            elif a >= self.stack_end:
                o = self._obj_of(self.gobj, a)
                ok = o is not None and a + size <= o[1]
            else:
                ok = self.stack_start <= a and a + size <= fp
            if not ok:
                self.rep(f'pointer {"store" if store else "load"} @{a}+{size} not entitled ap={ap} fp={fp}')
        if store and c != 'DIRECT':
            w = vm.w
            if a < self.stack_start or any(x <= a + size - 1 and a <= x + w - 1 for x in self.special):
                self.rep(f'indirect store into registers/try context @{a}')
            elif self.stack_start <= a < self.stack_end and a + size > fp and c != 'ELEM':
                self.rep(f'store into caller frames @{a} fp={fp}')

    def on_word_write(self, addr, old, new):
        # ap moved
        if new > old:
            self.state = self.state + ((old, new),)
        elif new < old:
            segs = self.state
            while segs and segs[-1][0] >= new:
                segs = segs[:-1]
            if segs and segs[-1][1] > new:
                self.rep(f'ap released into the middle of segment {segs[-1]}: new ap={new}')
                segs = segs[:-1] + ((segs[-1][0], new),)
            self.state = segs
        if not (self.stack_start <= new <= self.vm.rdw(self.A_fp)):
            self.rep(f'ap={new} outside [stack_start={self.stack_start}, fp={self.vm.rdw(self.A_fp)}]')
