"""M-BAL: balance of (fp, ap) at loop heads, loop exits, call returns and stop
handlers, per activation (DESIGN.md section 4), and M-FALL: sequential control
transfer across a function boundary.

Shadow call stack: push at a taken jump to a function-entry label, pop at a
taken `j [reg]` landing on end_call_N, unwind at a stop handler entered through
[defeat].  A state is only ever compared with *the same activation's own
observation at the most recent entry of the same loop*.
"""
import re

from ..svm.vm import Monitor

STDLIB_ENTRIES = ('all_is_win', 'all_is_broken', 'stack_overflow', 'division_by_zero',
                  'out_of_bounds', 'nonlocal_preempt', 'write_const_byte_array', 'write_string',
                  'write_state_byte_array', 'write_bool', 'write_int')
_WRITERS = frozenset(('add', 'sub', 'mul', 'div', 'mod', 'and', 'or', 'xor', 'asl', 'asr', 'mov',
                      'lws', 'lwc', 'lbs', 'lbc', 'lwso', 'lwco', 'lbso', 'lbco'))
_LAB = re.compile(r'(loop|continue|break|end_call|try_handler)_(\d+)')


class BalMonitor(Monitor):
    name = 'bal'

    def attach(self, vm):
        self.vm = vm
        prog = vm.p
        self.kind = {}
        code = {n: a for n, (s, a) in prog.labels.items() if s == 'code'}
        st = {n: a for n, (s, a) in prog.labels.items() if s == 'state'}
        self.code_names = code
        self.ok = 'ap' in st and 'fp' in st
        self.stats = {'loop_entry': 0, 'loop_back': 0, 'break': 0, 'continue': 0, 'call': 0,
                      'ret': 0, 'handler': 0, 'handler_checked': 0}
        if not self.ok:
            return
        for n, a in code.items():
            m = _LAB.fullmatch(n)
            if m:
                self.kind.setdefault(a, []).append((m.group(1), int(m.group(2))))
            elif n.startswith('func_') or n in STDLIB_ENTRIES:
                self.kind.setdefault(a, []).append(('func', n))
        self.A_ap, self.A_fp = st['ap'], st['fp']
        self.A_defeat = st.get('defeat')
        # handler restore check points: first instruction after try_handler_N
        # that does not write fp or ap
        self.hcheck = {}
        for n, a in code.items():
            if n.startswith('try_handler_'):
                p = a
                while p < len(prog.code) and p < a + 6:
                    op, ops, _ = prog.code[p]
                    if op in _WRITERS and ops[0][0] == 'S' and ops[0][1] in (self.A_ap, self.A_fp, self.A_defeat, st.get('try_fp')):
                        p += 1
                        continue
                    break
                self.hcheck.setdefault(p, []).append(a)
                self.kind.setdefault(p, []).append(('hcheck', a))
        # a function entry label can share its address with loop_N (unchecked
        # builds have no entry guard): the frame must be pushed first
        for a in self.kind:
            self.kind[a].sort(key=lambda kn: 0 if kn[0] == 'func' else 1)
        vm.watch |= set(self.kind)
        # a call is `j func; halt; end_call_N:` - the only kind of jump that
        # opens an activation (a back edge may land on a function label too)
        self.call_sites = {a - 2 for n, a in code.items() if n.startswith('end_call_')}
        if self.A_defeat is not None:
            vm.watch_words.setdefault(self.A_defeat, []).append(self)
        # frame = (name, fp_entry, ap_entry, recs)   recs: tuple of (key, value) pairs (immutable)
        self.state = ((('<entry>', vm.rdw(self.A_fp), vm.rdw(self.A_ap), ()),), None)

    # state = (shadow stack, pending handler record)
    def rep(self, msg):
        self.vm.report('bal', msg)

    @staticmethod
    def _get(recs, key):
        for k, v in reversed(recs):
            if k == key:
                return v
        return None

    @staticmethod
    def _put(recs, key, val):
        return tuple(kv for kv in recs if kv[0] != key) + ((key, val),)

    def on_word_write(self, addr, old, new):
        # handler installation: mov [defeat], try_handler_N
        ks = self.kind.get(new, ())
        if any(k[0] == 'try_handler' for k in ks):
            stack, pend = self.state
            fr = stack[-1]
            rec = (len(stack), self.vm.rdw(self.A_fp), self.vm.rdw(self.A_ap))
            self.state = (stack[:-1] + ((fr[0], fr[1], fr[2], self._put(fr[3], ('h', new), rec)),), pend)

    def on_arrive(self, pc, jumped_from):
        if not self.ok:
            return
        ks = self.kind.get(pc)
        if not ks:
            return
        vm = self.vm
        fp, ap = vm.rdw(self.A_fp), vm.rdw(self.A_ap)
        via_reg = jumped_from is not None and vm.code[jumped_from][1][0][0] == 'S'
        for k, n in ks:
            stack, pend = self.state
            fr = stack[-1]
            if k == 'func':
                if jumped_from in self.call_sites:
                    self.stats['call'] += 1
                    self.state = (stack + ((n, fp, ap, ()),), pend)
            elif k == 'end_call':
                if via_reg:
                    self.stats['ret'] += 1
                    if len(stack) < 2:
                        self.rep('return with empty shadow stack')
                        continue
                    if fp != fr[1]:
                        self.rep(f'fp at return {fp} != fp at callee entry {fr[1]} ({fr[0]})')
                    if ap != fr[2]:
                        self.rep(f'ap at return {ap} != ap at call {fr[2]} ({fr[0]})')
                    self.state = (stack[:-1], pend)
            elif k == 'loop':
                brk = self.code_names.get(f'break_{n}', 1 << 60)
                if jumped_from is None or jumped_from in self.call_sites or not (pc <= jumped_from < brk):
                    self.stats['loop_entry'] += 1
                    self.state = (stack[:-1] + ((fr[0], fr[1], fr[2], self._put(fr[3], ('l', n), (fp, ap))),), pend)
                else:
                    self.stats['loop_back'] += 1
                    r = self._get(fr[3], ('l', n))
                    if r is None:
                        self.rep(f'back edge to loop_{n} never entered in this activation')
                    elif r != (fp, ap):
                        self.rep(f'loop_{n} head (fp,ap)={(fp, ap)} != at loop entry {r}')
            elif k in ('break', 'continue'):
                lo = self.code_names.get(f'loop_{n}', -1)
                hi = self.code_names.get(f'break_{n}', 1 << 60)
                src = jumped_from if jumped_from is not None else pc - 1
                if not (lo <= src < hi) or jumped_from in self.call_sites:
                    continue      # co-located label reached from outside the loop, or by a call
                self.stats[k] += 1
                r = self._get(fr[3], ('l', n))
                if r is None:
                    self.rep(f'{k}_{n} reached but loop_{n} not entered in this activation')
                elif r != (fp, ap):
                    self.rep(f'{k}_{n} (fp,ap)={(fp, ap)} != at loop entry {r} via '
                             f'{"jump" if jumped_from is not None else "fallthrough"}')
            elif k == 'try_handler':
                if via_reg:
                    # stop handler entered through [defeat]: unwind the shadow stack
                    self.stats['handler'] += 1
                    rec = None
                    depth = len(stack)
                    while depth > 0:
                        rec = self._get(stack[depth - 1][3], ('h', pc))
                        if rec:
                            break
                        depth -= 1
                    if not rec or rec[0] != depth:
                        self.rep(f'stop handler at pc {pc} entered but not installed by a live activation')
                        continue
                    self.state = (stack[:depth], (pc, rec[1], rec[2]))
            elif k == 'hcheck':
                if pend is not None and pend[0] == n:
                    self.stats['handler_checked'] += 1
                    if (fp, ap) != (pend[1], pend[2]):
                        self.rep(f'after stop-handler restore (fp,ap)={(fp, ap)} != at try entry {(pend[1], pend[2])}')
                    self.state = (stack, None)


class FallMonitor(Monitor):
    """M-FALL: pc -> pc+1 without a taken jump must not change the enclosing
    function region."""
    name = 'fall'

    def attach(self, vm):
        self.vm = vm
        prog = vm.p
        code = {n: a for n, (s, a) in prog.labels.items() if s == 'code'}
        self.entries = {}
        for n, a in code.items():
            if n.startswith('func_') or n in STDLIB_ENTRIES:
                self.entries.setdefault(a, []).append(n)
        self.entries.pop(0, None)
        vm.watch |= set(self.entries)
        self.state = 0

    def on_arrive(self, pc, jumped_from):
        if jumped_from is None and pc in self.entries:
            self.vm.report('fall', f'sequential fall into {self.entries[pc]} from pc {pc - 1} '
                                   f'(line {self.vm.code[pc - 1][2]})')
