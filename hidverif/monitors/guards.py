"""Counts executions of runtime-check sites (evidence that a run exercised the
guards): arrivals at no_overflow_N / index_in_bounds_N / div_allowed_N /
safe_length_N by a taken jump, and `j nonlocal_preempt` sites executed."""
import re

from ..svm.vm import Monitor

_G = re.compile(r'(no_overflow|index_in_bounds|div_allowed|safe_length)_\d+')


class GuardMonitor(Monitor):
    name = 'guards'

    def attach(self, vm):
        self.vm = vm
        self.kind = {}
        for n, (s, a) in vm.p.labels.items():
            if s == 'code':
                m = _G.fullmatch(n)
                if m:
                    self.kind[a] = m.group(1)
        vm.watch |= set(self.kind)
        self.state = ()          # tuple of (kind, count) pairs, immutable

    def on_arrive(self, pc, jumped_from):
        k = self.kind.get(pc)
        if k is not None and jumped_from is not None:
            d = dict(self.state)
            d[k] = d.get(k, 0) + 1
            self.state = tuple(sorted(d.items()))

    def totals(self):
        return dict(self.state)


class PeakMonitor(Monitor):
    """highest ap (top of the array region) and lowest fp on the committed timeline"""
    name = 'peak'

    def attach(self, vm):
        self.vm = vm
        st = {n: a for n, (s, a) in vm.p.labels.items() if s == 'state'}
        self.ok = 'ap' in st and 'fp' in st
        self.state = (0, 1 << 62)
        if self.ok:
            self.A_ap, self.A_fp = st['ap'], st['fp']
            self.base = st['stack_start']
            vm.watch_words.setdefault(self.A_ap, []).append(self)
            vm.watch_words.setdefault(self.A_fp, []).append(self)

    def on_word_write(self, addr, old, new):
        hi, lo = self.state
        if addr == self.A_ap:
            if new > hi:
                self.state = (new, lo)
        elif new < lo:
            self.state = (hi, new)

    def peak_array_bytes(self):
        return max(0, self.state[0] - self.base) if self.ok else None
