"""Strict assembler for exactly the dialect of Sphinx assembly that hidc emits.

Anything outside the dialect is an AsmError; an AsmError on compiler output is
itself an observation (M-ASM).  See DESIGN.md section 2.1.
"""
import re
import dataclasses as dc


class AsmError(Exception):
    pass


ESC = {'\\': 0x5c, "'": 0x27, '"': 0x22, 'n': 10, 'r': 13, 't': 9, '0': 0,
       'a': 7, 'b': 8, 'f': 12, 'v': 11}


def decode_escapes(body: bytes, where) -> bytes:
    out = bytearray()
    i = 0
    n = len(body)
    while i < n:
        c = body[i]
        if c != 0x5c:
            out.append(c)
            i += 1
            continue
        if i + 1 >= n:
            raise AsmError(f'{where}: dangling backslash')
        e = chr(body[i + 1])
        if e == 'x':
            hx = body[i + 2:i + 4]
            if len(hx) != 2 or not re.fullmatch(rb'[0-9a-fA-F]{2}', hx):
                raise AsmError(f'{where}: bad \\x escape')
            out.append(int(hx, 16))
            i += 4
        elif e in ESC:
            out.append(ESC[e])
            i += 2
        else:
            raise AsmError(f'{where}: unknown escape \\{e}')
    return bytes(out)


TOK = re.compile(rb'''
    \s*(?:
      (?P<hex>0x[0-9a-fA-F]+)(?P<hw>w)?\b
    | (?P<dec>\d+)(?P<dw>w)?\b
    | (?P<chr>'(?:\\x[0-9a-fA-F]{2}|\\.|[^\\'])')
    | (?P<argc>\$argc)
    | (?P<name>[A-Za-z_.][A-Za-z_0-9.]*)
    | (?P<op>[-+&()\[\]{},])
    )''', re.X | re.S)


WS = re.compile(rb'\s*')


def tokenize(text: bytes, where):
    pos = 0
    toks = []
    n = len(text)
    while True:
        m = WS.match(text, pos)
        pos = m.end()
        if pos >= n:
            break
        m = TOK.match(text, pos)
        if not m:
            raise AsmError(f'{where}: cannot tokenize {text[pos:]!r}')
        kind = m.lastgroup
        if m.group('hex') is not None:
            toks.append(('int', int(m.group('hex'), 16), bool(m.group('hw'))))
        elif m.group('dec') is not None:
            toks.append(('int', int(m.group('dec')), bool(m.group('dw'))))
        elif m.group('chr') is not None:
            b = decode_escapes(m.group('chr')[1:-1], where)
            if len(b) != 1:
                raise AsmError(f'{where}: bad char literal')
            toks.append(('int', b[0], False))
        elif m.group('argc') is not None:
            toks.append(('argc',))
        elif m.group('name') is not None:
            toks.append(('name', m.group('name').decode()))
        else:
            toks.append(('op', m.group('op').decode()))
        pos = m.end()
    return toks


# Expression AST: ('int', v, is_words) | ('name', s) | ('argc',) | ('neg', e) | ('bin', op, a, b)
class ExprParser:
    def __init__(self, toks, where):
        self.t = toks
        self.i = 0
        self.where = where

    def peek(self):
        return self.t[self.i] if self.i < len(self.t) else None

    def eat(self, op=None):
        tok = self.peek()
        if tok is None:
            raise AsmError(f'{self.where}: unexpected end of operand')
        if op is not None and tok != ('op', op):
            raise AsmError(f'{self.where}: expected {op}, got {tok}')
        self.i += 1
        return tok

    def expr(self):  # lowest: &
        left = self.sum()
        while self.peek() == ('op', '&'):
            self.eat()
            left = ('bin', '&', left, self.sum())
        return left

    def sum(self):
        left = self.unary()
        while self.peek() in (('op', '+'), ('op', '-')):
            op = self.eat()[1]
            left = ('bin', op, left, self.unary())
        return left

    def unary(self):
        if self.peek() == ('op', '-'):
            self.eat()
            return ('neg', self.unary())
        if self.peek() == ('op', '+'):
            self.eat()
            return self.unary()
        return self.atom()

    def atom(self):
        tok = self.eat()
        if tok[0] in ('int', 'name', 'argc'):
            return tok
        if tok == ('op', '('):
            e = self.expr()
            self.eat(')')
            return e
        raise AsmError(f'{self.where}: unexpected {tok}')

    def operand(self):
        tok = self.peek()
        if tok == ('op', '['):
            self.eat()
            e = self.expr()
            self.eat(']')
            return ('S', e)
        if tok == ('op', '{'):
            self.eat()
            e = self.expr()
            self.eat('}')
            return ('C', e)
        return ('I', self.expr())

    def operands(self):
        ops = []
        if self.peek() is None:
            return ops
        ops.append(self.operand())
        while self.peek() == ('op', ','):
            self.eat()
            ops.append(self.operand())
        if self.peek() is not None:
            raise AsmError(f'{self.where}: trailing tokens {self.t[self.i:]}')
        return ops


def strip_comment(line: bytes) -> bytes:
    # ';' starts a comment unless inside a quoted literal
    i = 0
    n = len(line)
    q = None
    while i < n:
        c = line[i:i + 1]
        if q:
            if c == b'\\':
                i += 2
                continue
            if c == q:
                q = None
        elif c in (b'"', b"'"):
            q = c
        elif c == b';':
            return line[:i]
        i += 1
    return line


@dc.dataclass
class Program:
    word: int
    code: list            # [(mnemonic, [operand...], lineno)]
    state: bytearray
    const: bytes
    labels: dict          # name -> (section, addr)
    code_labels: dict     # pc -> [names]
    comments: dict        # pc -> [comment text preceding that instruction]
    argc: int
    lines: list


ARITY = {
    'halt': 0, 'j': 1, 'mov': 2, 'yield': 1, 'sleep': 1, 'flag': 1,
    **{h: 2 for h in ('heq', 'hne', 'hlt', 'hgt', 'hle', 'hge', 'hltu', 'hgtu', 'hleu', 'hgeu')},
    **{a: 3 for a in ('add', 'sub', 'mul', 'div', 'mod', 'and', 'or', 'xor', 'asl', 'asr')},
    **{l: 2 for l in ('lws', 'lwc', 'lbs', 'lbc')},
    **{l: 3 for l in ('lwso', 'lwco', 'lbso', 'lbco')},
    'sws': 2, 'sbs': 2, 'swso': 3, 'sbso': 3,
}

LABEL = re.compile(rb'\s*([A-Za-z_.][A-Za-z_0-9.]*)\s*:')


def parse_int_arg(s, where):
    try:
        return int(s, 10)
    except ValueError:
        raise AsmError(f'{where}: argument {s!r} is not an integer')


def assemble(lines, args=()):
    """lines: iterable of bytes.  args: sequence of str (command line)."""
    lines = [l if isinstance(l, bytes) else l.encode() for l in lines]
    word = 2
    argv_spec = None
    section = None
    # pass 1: collect items with deferred expressions
    items = {'state': [], 'const': []}   # (kind, payload)
    sizes = {'state': 0, 'const': 0}
    code = []
    labels = {}
    code_labels = {}
    comments = {}
    pending_comments = []
    # first find %format word (it must precede use), and argv
    for ln, raw in enumerate(lines):
        s = raw.strip()
        if s.startswith(b'%format'):
            parts = s.split()
            if parts[1] == b'word':
                word = int(parts[2])
        elif s.startswith(b'%argv'):
            argv_spec = s[5:].split()
    # bind argv
    argmap = {}
    args = [a if isinstance(a, str) else a.decode() for a in args]
    if argv_spec is None:
        if args:
            raise AsmError('program takes no arguments')
    else:
        names = []
        var = None
        for i, spec in enumerate(argv_spec):
            m = re.fullmatch(rb'<(\w+)>', spec)
            if m:
                names.append((m.group(1).decode(), False))
                continue
            m = re.fullmatch(rb'\[<(\w+)>\.\.\.\]', spec)
            if m:
                if var is not None:
                    raise AsmError('two variadic args')
                var = i
                names.append((m.group(1).decode(), True))
                continue
            raise AsmError(f'bad argv spec {spec!r}')
        nfixed = len(names) - (1 if var is not None else 0)
        if len(args) < nfixed or (var is None and len(args) != nfixed):
            raise AsmError('wrong number of arguments')
        if var is None:
            for (nm, _), a in zip(names, args):
                argmap[nm] = a
        else:
            nvar = len(args) - nfixed
            k = 0
            for i, (nm, isvar) in enumerate(names):
                if isvar:
                    argmap[nm] = args[k:k + nvar]
                    k += nvar
                else:
                    argmap[nm] = args[k]
                    k += 1
    argc = len(args)

    def add_label(name, where):
        if name in labels:
            raise AsmError(f'{where}: duplicate label {name}')
        if section == 'code':
            labels[name] = ('code', len(code))
            code_labels.setdefault(len(code), []).append(name)
        else:
            labels[name] = (section, sizes[section])

    for ln, raw in enumerate(lines):
        where = f'line {ln + 1}'
        stripped = raw.strip()
        if stripped.startswith(b';'):
            if section == 'code':
                pending_comments.append(stripped[1:].strip().decode('utf-8', 'replace'))
            continue
        s = strip_comment(raw).strip()
        if not s:
            continue
        if s.startswith(b'%'):
            parts = s.split()
            if parts[0] == b'%section':
                section = parts[1].decode()
                if section not in ('state', 'const', 'code'):
                    raise AsmError(f'{where}: bad section')
            elif parts[0] in (b'%format', b'%argv'):
                pass
            else:
                raise AsmError(f'{where}: unknown directive {parts[0]!r}')
            continue
        if section is None:
            raise AsmError(f'{where}: content outside section')
        while True:
            m = LABEL.match(s)
            if not m:
                break
            add_label(m.group(1).decode(), where)
            s = s[m.end():].strip()
        if not s:
            continue
        parts = s.split(None, 1)
        head = parts[0].decode()
        rest = parts[1] if len(parts) > 1 else b''
        if head.startswith('.'):
            if section == 'code':
                raise AsmError(f'{where}: data directive in code')
            if head == '.ascii':
                r = rest.strip()
                if len(r) < 2 or r[:1] != b'"' or r[-1:] != b'"':
                    raise AsmError(f'{where}: malformed .ascii')
                body = r[1:-1]
                # an unescaped quote inside the body is malformed
                j = 0
                while j < len(body):
                    if body[j] == 0x5c:
                        j += 2
                        continue
                    if body[j] == 0x22:
                        raise AsmError(f'{where}: stray quote in .ascii')
                    j += 1
                if j != len(body):
                    raise AsmError(f'{where}: .ascii ends inside escape')
                data = decode_escapes(body, where)
                items[section].append(('raw', data))
                sizes[section] += len(data)
            elif head in ('.word', '.byte'):
                exprs = [o for o in ExprParser(tokenize(rest, where), where).operands()]
                for o in exprs:
                    if o[0] != 'I':
                        raise AsmError(f'{where}: non-immediate in data')
                sz = word if head == '.word' else 1
                items[section].append(('vals', sz, [o[1] for o in exprs], where))
                sizes[section] += sz * len(exprs)
            elif head == '.zero':
                ops = ExprParser(tokenize(rest, where), where).operands()
                if len(ops) != 1 or ops[0][0] != 'I':
                    raise AsmError(f'{where}: bad .zero')
                # must be resolvable now (no labels)
                n = eval_expr(ops[0][1], {}, word, argc, where)
                if n < 0:
                    raise AsmError(f'{where}: negative .zero')
                items[section].append(('raw', bytes(n)))
                sizes[section] += n
            elif head == '.arg':
                p = rest.split()
                name = p[0].decode()
                fmt = p[1].decode()
                params = [x.decode() for x in p[2:]]
                if name not in argmap:
                    raise AsmError(f'{where}: unknown arg {name}')
                val = argmap[name]
                mask = (1 << (8 * word)) - 1
                if fmt in ('word', 'byte'):
                    sz = word if fmt == 'word' else 1
                    vals = val if isinstance(val, list) else [val]
                    data = b''.join(
                        (parse_int_arg(v, where) & ((1 << (8 * sz)) - 1)).to_bytes(sz, 'little')
                        for v in vals)
                    items[section].append(('raw', data))
                    sizes[section] += len(data)
                elif fmt == 'asciip':
                    if 'array' in params:
                        if not isinstance(val, list):
                            raise AsmError(f'{where}: array of non-variadic')
                        base = sizes[section]
                        table = len(val) * word
                        blob = bytearray()
                        ptrs = []
                        for v in val:
                            enc = v.encode('utf-8')
                            ptrs.append(base + table + len(blob))
                            blob += (len(enc) & mask).to_bytes(word, 'little') + enc
                        data = b''.join((p_ & mask).to_bytes(word, 'little') for p_ in ptrs) + bytes(blob)
                    else:
                        if isinstance(val, list):
                            raise AsmError(f'{where}: scalar of variadic')
                        enc = val.encode('utf-8')
                        data = (len(enc) & mask).to_bytes(word, 'little') + enc
                    items[section].append(('raw', data))
                    sizes[section] += len(data)
                else:
                    raise AsmError(f'{where}: unknown arg format {fmt}')
            else:
                raise AsmError(f'{where}: unknown directive {head}')
        else:
            if section != 'code':
                raise AsmError(f'{where}: instruction outside code')
            if head not in ARITY:
                raise AsmError(f'{where}: unknown instruction {head}')
            if head == 'flag':
                ops = [('F', rest.strip().decode())]
                if not re.fullmatch(r'\w+', ops[0][1]):
                    raise AsmError(f'{where}: bad flag')
            else:
                ops = ExprParser(tokenize(rest, where), where).operands()
            if len(ops) != ARITY[head]:
                raise AsmError(f'{where}: {head} takes {ARITY[head]} operands')
            if pending_comments:
                comments.setdefault(len(code), []).extend(pending_comments)
                pending_comments = []
            code.append([head, ops, ln + 1])

    # pass 2: resolve
    labvals = {k: v[1] for k, v in labels.items()}
    out = {}
    for sec in ('state', 'const'):
        buf = bytearray()
        for it in items[sec]:
            if it[0] == 'raw':
                buf += it[1]
            else:
                _, sz, exprs, where = it
                for e in exprs:
                    v = eval_expr(e, labvals, word, argc, where)
                    buf += (v & ((1 << (8 * sz)) - 1)).to_bytes(sz, 'little')
        assert len(buf) == sizes[sec]
        out[sec] = buf
    mask = (1 << (8 * word)) - 1
    rcode = []
    for head, ops, ln in code:
        where = f'line {ln}'
        rops = []
        for o in ops:
            if o[0] == 'F':
                rops.append(o)
            else:
                rops.append((o[0], eval_expr(o[1], labvals, word, argc, where) & mask))
        rcode.append((head, rops, ln))
    return Program(word, rcode, out['state'], bytes(out['const']), labels,
                   code_labels, comments, argc, lines)


def eval_expr(e, labvals, word, argc, where):
    k = e[0]
    if k == 'int':
        return e[1] * word if e[2] else e[1]
    if k == 'name':
        if e[1] not in labvals:
            raise AsmError(f'{where}: undefined label {e[1]}')
        return labvals[e[1]]
    if k == 'argc':
        return argc
    if k == 'neg':
        return -eval_expr(e[1], labvals, word, argc, where)
    if k == 'bin':
        a = eval_expr(e[2], labvals, word, argc, where)
        b = eval_expr(e[3], labvals, word, argc, where)
        return a + b if e[1] == '+' else a - b if e[1] == '-' else a & b
    raise AsmError(f'{where}: bad expr {e}')
