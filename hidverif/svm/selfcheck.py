"""SVM self-check: hand-written assembly conformance cases that do not involve
hidc.  Run before every VM-based check; a failure makes the verdict
*inconclusive (machinery)*, never *violation*."""
from .asm import assemble, AsmError
from .vm import VM, Outcome
from ..env import MachineryError

_done = False


def _run(lines, args=(), steps=20000):
    vm = VM(assemble(lines, args), steps)
    vm.run()
    return Outcome(vm)


CASES = []


def case(f):
    CASES.append(f)
    return f


@case
def upstream_basic():
    o = _run([b'%argv <count>', b'%section state', b'counter: .arg count word', b'%section code', b'loop:',
              b'yield [counter]', b'sub [counter], [counter], 1', b'j loop', b'hge [counter], 0', b'flag win',
              b'tnt: j tnt', b'halt'], ['3'])
    assert list(o.out) == [3, 2, 1, 0] and o.klass == 'WIN', o.brief()


@case
def committed_halt():
    o = _run([b'%section code', b'yield 65', b'halt'])
    assert o.klass == 'HALT' and o.out == b'A', o.brief()


@case
def jump_not_taken_when_safe():
    # not jumping leads to an infinite loop, so the jump is not taken
    o = _run([b'%section code', b'j away', b'yield 66', b'l: j l', b'halt', b'away: yield 67', b'm: j m', b'halt'])
    assert o.out == b'B' and o.klass == 'DIVERGE', o.brief()


@case
def jump_taken_and_output_undone():
    o = _run([b'%section code', b'j away', b'yield 66', b'halt', b'away: yield 67', b'flag win', b'm: j m', b'halt'])
    assert o.out == b'C' and o.klass == 'WIN', o.brief()


@case
def nested_choice_propagates():
    # inner jump target also halts -> outer jump must be taken
    o = _run([b'%section code', b'j outer', b'j inner', b'halt', b'inner: yield 1', b'halt',
              b'outer: yield 2', b'flag win', b't: j t', b'halt'])
    assert list(o.out) == [2] and o.klass == 'WIN', o.brief()


@case
def arithmetic_and_memory():
    o = _run([b'%format word 2', b'%section state', b'a: .word 0', b'b: .byte 1, 2, 3', b'c: .zero 2w',
              b'%section const', b's: .word 3', b'.ascii "x\\\\\\"\\x41\\n"', b'%section code',
              b'sub [a], 0, 1', b'asr [a], [a], 1', b'and [a], [a], 0xFF', b'yield [a]',   # 255
              b'mul [a], 300, 300', b'yield [a]',                                            # 90000 & 0xFFFF = 24464 -> low byte 144
              b'div [a], -7, 2', b'yield [a]',                                               # -4 -> 252
              b'mod [a], -7, 2', b'yield [a]',                                               # 1
              b'lbso [a], b, 2', b'yield [a]',                                               # 3
              b'lwc [a], s', b'yield [a]',                                                   # 3
              b'lbco [a], s, 1w + 1', b'yield [a]',                                          # '\\'
              b'lbco [a], s, 1w + 2', b'yield [a]',                                          # '"'
              b'lbco [a], s, 1w + 3', b'yield [a]',                                          # 'A'
              b'swso c, 1w, 0x1234', b'lbso [a], c, 1w + 1', b'yield [a]',                   # 0x12
              b'flag win', b't: j t', b'halt'])
    assert list(o.out) == [255, 144, 252, 1, 3, 3, 0x5c, 0x22, 0x41, 0x12] and o.klass == 'WIN', (list(o.out), o.brief())


@case
def unsigned_and_signed_halts():
    o = _run([b'%section code', b'j a', b'hltu -1, 1', b'yield 1', b'a: j b', b'hlt -1, 1', b'yield 2', b'halt',
              b'b: yield 3', b'flag win', b't: j t', b'halt'])
    # hltu -1,1: 65535 < 1 false -> no halt -> prints 1 ... then `j b` falls through, hlt -1,1 halts -> jump to b
    assert list(o.out) == [1, 3] and o.klass == 'WIN', o.brief()


@case
def assembler_rejects_garbage():
    for bad in ([b'%section code', b'frob 1'], [b'%section code', b'j nowhere'],
                [b'%section const', b's: .ascii "a\\q"'], [b'%section const', b's: .ascii "a\\\\\\"'],
                [b'%section state', b'x: .zero -5w'], [b'%section code', b'l: halt', b'l: halt'],
                [b'%section code', b'mov [a]']):
        try:
            assemble(bad)
        except AsmError:
            continue
        raise AssertionError(f'assembler accepted {bad}')


@case
def args_binding():
    o = _run([b'%argv <m> [<v>...]', b'%format word 3', b'%section state', b'n: .word $argc - 1', b'x: .arg v word',
              b'%section const', b'p: .arg m asciip', b'%section code', b'yield [n]', b'lwso [n], x, 1w', b'yield [n]',
              b'lbco [n], p, 1w', b'yield [n]', b'flag win', b't: j t', b'halt'], ['hi', '7', '-2'])
    assert list(o.out) == [2, 254, ord('h')] and o.klass == 'WIN', o.brief()


def run():
    global _done
    if _done:
        return
    for f in CASES:
        try:
            f()
        except Exception as e:  # noqa
            raise MachineryError(f'SVM self-check {f.__name__} failed: {type(e).__name__}: {e}')
    _done = True
