"""Verification Sphinx VM (SVM): Turing jumps by DFS with an undo journal.

See DESIGN.md section 2.2.  `j X` pushes a choice point and falls through; a
halt pops the most recent choice point, unwinds the journal, truncates the
tentative event list, restores monitor state and continues at X.  A halt with
an empty choice stack is a *committed* halt.  After a taken jump to an address
<= the jump's own address the pair (pc, hash(state)) is looked up among the
pairs recorded on the surviving path: a hit means the machine is periodic and
never halts (status 'cycle').

Events on `vm.events` are tentative until the run ends; only what survives is
the committed timeline:
    ('out', byte) ('flag', name) ('sleep', ms) ('mon', monitor, message, pc, line)
"""
import hashlib

from .asm import assemble, Program, AsmError  # noqa: F401  (re-exported)


class VMTrap(Exception):
    """Something the ISA leaves undefined and correct output never does."""


_HALTS = {'heq': 0, 'hne': 1, 'hlt': 2, 'hgt': 3, 'hle': 4, 'hge': 5,
          'hltu': 6, 'hgtu': 7, 'hleu': 8, 'hgeu': 9}
_ARITH = {'add': 0, 'sub': 1, 'mul': 2, 'div': 3, 'mod': 4, 'and': 5, 'or': 6,
          'xor': 7, 'asl': 8, 'asr': 9}

# opcode classes for the dispatcher
(O_J, O_HALT, O_HC, O_AR, O_MOV, O_LD, O_LDO, O_ST, O_STO, O_YIELD, O_SLEEP,
 O_FLAG) = range(12)


class Monitor:
    """Base class for VM monitors.  `state` must be immutable (snapshotted by
    reference at every choice point and restored on backtrack)."""
    name = 'monitor'
    state = None

    def attach(self, vm):
        self.vm = vm

    def on_access(self, space, base, addr, size, store):
        pass

    def on_word_write(self, addr, old, new):
        pass

    def on_arrive(self, pc, jumped_from):
        pass

    def finish(self):
        pass


class VM:
    def __init__(self, prog: Program, max_steps=200_000, monitors=()):
        self.p = prog
        self.w = w = prog.word
        self.bits = 8 * w
        self.mask = (1 << self.bits) - 1
        self.sign = 1 << (self.bits - 1)
        self.mem = bytearray(prog.state)
        self.const = prog.const
        self.code = prog.code
        self.pc = 0
        self.journal = []       # (addr, oldbytes)
        self.choices = []       # (jpc, target, jlen, elen, slen, monstate)
        self.events = []
        self.seen = {}
        self.seenlog = []
        self.steps = 0
        self.max_steps = max_steps
        self.backtracks = 0
        self.spec_halts = 0      # halts executed with a pending choice (averted)
        self.max_choice_depth = 0
        self.status = None       # 'halt' | 'cycle' | 'timeout' | 'trap'
        self.trap = None
        self.halt_pc = None
        self.halt_sites = set()  # pcs of halts executed (speculative or not)
        self.jump_sites = set()
        self.last_pc = -2
        self.seq = True
        self.watch = set()        # pcs for on_arrive
        self.watch_words = {}     # state addr -> [monitor]
        self.monitors = list(monitors)
        self.acc_mons = []
        self.arr_mons = []
        self._decode()
        for m in self.monitors:
            m.attach(self)
            if type(m).on_access is not Monitor.on_access:
                self.acc_mons.append(m)
            if type(m).on_arrive is not Monitor.on_arrive:
                self.arr_mons.append(m)

    # ------------------------------------------------------------ decoding
    def _decode(self):
        dec = []
        K = {'I': 0, 'S': 1, 'C': 2}
        for op, ops, ln in self.code:
            o = [(K[k], v) for k, v in ops if k != 'F']
            if op == 'j':
                dec.append((O_J, o[0], None, None, 0))
            elif op == 'halt':
                dec.append((O_HALT, None, None, None, 0))
            elif op in _HALTS:
                dec.append((O_HC, o[0], o[1], None, _HALTS[op]))
            elif op in _ARITH:
                dec.append((O_AR, o[0], o[1], o[2], _ARITH[op]))
            elif op == 'mov':
                dec.append((O_MOV, o[0], o[1], None, 0))
            elif op in ('lws', 'lwc', 'lbs', 'lbc'):
                # sub: bit0 = byte, bit1 = const
                dec.append((O_LD, o[0], o[1], None, (op[1] == 'b') | ((op[2] == 'c') << 1)))
            elif op in ('lwso', 'lwco', 'lbso', 'lbco'):
                dec.append((O_LDO, o[0], o[1], o[2], (op[1] == 'b') | ((op[2] == 'c') << 1)))
            elif op in ('sws', 'sbs'):
                dec.append((O_ST, o[0], o[1], None, int(op[1] == 'b')))
            elif op in ('swso', 'sbso'):
                dec.append((O_STO, o[0], o[1], o[2], int(op[1] == 'b')))
            elif op == 'yield':
                dec.append((O_YIELD, o[0], None, None, 0))
            elif op == 'sleep':
                dec.append((O_SLEEP, o[0], None, None, 0))
            elif op == 'flag':
                dec.append((O_FLAG, ops[0][1], None, None, 0))
            else:
                raise AsmError(f'unknown op {op}')
        self.dec = dec

    # -------------------------------------------------------------- memory
    def rdw(self, a):
        return int.from_bytes(self.mem[a:a + self.w], 'little')

    def _val(self, o):
        k, v = o
        if k == 0:
            return v
        if k == 1:
            if v + self.w > len(self.mem):
                raise VMTrap(f'state word load out of range @{v} pc={self.pc}')
            return int.from_bytes(self.mem[v:v + self.w], 'little')
        if v + self.w > len(self.const):
            raise VMTrap(f'const word load out of range @{v} pc={self.pc}')
        return int.from_bytes(self.const[v:v + self.w], 'little')

    def _stw(self, a, v):
        w = self.w
        if a + w > len(self.mem):
            raise VMTrap(f'state word store out of range @{a} pc={self.pc}')
        mem = self.mem
        old = bytes(mem[a:a + w])
        v &= self.mask
        if a in self.watch_words:
            o = int.from_bytes(old, 'little')
            for m in self.watch_words[a]:
                m.on_word_write(a, o, v)
        self.journal.append((a, old))
        mem[a:a + w] = v.to_bytes(w, 'little')

    def _stb(self, a, v):
        if a >= len(self.mem):
            raise VMTrap(f'state byte store out of range @{a} pc={self.pc}')
        self.journal.append((a, bytes(self.mem[a:a + 1])))
        self.mem[a] = v & 0xFF

    def _dest(self, o):
        if o[0] != 1:
            raise VMTrap(f'destination is not a state word, pc={self.pc}')
        return o[1]

    def sgn(self, v):
        return v - (1 << self.bits) if v & self.sign else v

    def report(self, mon, msg):
        pc = self.pc
        ln = self.code[pc][2] if 0 <= pc < len(self.code) else -1
        self.events.append(('mon', mon, msg, pc, ln))

    # ---------------------------------------------------------------- halt
    def _halt(self):
        """A halt was executed.  Returns True if execution continues."""
        self.halt_sites.add(self.pc)
        if not self.choices:
            self.halt_pc = self.pc
            self.status = 'halt'
            return False
        self.spec_halts += 1
        jpc, target, jlen, elen, slen, mstate = self.choices.pop()
        if mstate is not None:
            for m, s in zip(self.monitors, mstate):
                m.state = s
        self.backtracks += 1
        j = self.journal
        mem = self.mem
        while len(j) > jlen:
            a, old = j.pop()
            mem[a:a + len(old)] = old
        del self.events[elen:]
        sl = self.seenlog
        while len(sl) > slen:
            del self.seen[sl.pop()]
        if target > len(self.code):
            self.pc = jpc
            raise VMTrap(f'jump target outside code: {target} from pc={jpc}')
        self.pc = target
        self.seq = False
        if self.arr_mons and target in self.watch:
            for m in self.arr_mons:
                m.on_arrive(target, jpc)
        if target <= jpc:
            key = (target, hashlib.blake2b(self.mem, digest_size=16).digest())
            if key in self.seen:
                self.status = 'cycle'
                return False
            self.seen[key] = True
            sl.append(key)
        return True

    # ----------------------------------------------------------------- run
    def run(self):
        try:
            self._run()
        except VMTrap as e:
            self.status = 'trap'
            self.trap = str(e)
        for m in self.monitors:
            m.finish()
        return self.status

    def _run(self):
        dec = self.dec
        ncode = len(dec)
        val = self._val
        stw = self._stw
        mask = self.mask
        w = self.w
        watch = self.watch
        arr_mons = self.arr_mons
        acc_mons = self.acc_mons
        have_mon = bool(self.monitors)
        events = self.events
        while True:
            if self.steps >= self.max_steps:
                self.status = 'timeout'
                return
            self.steps += 1
            pc = self.pc
            if pc >= ncode:
                # running off the end of the code is a halt
                if not self._halt():
                    return
                continue
            oc, a, b, c, sub = dec[pc]
            if arr_mons and pc in watch and self.seq and self.last_pc == pc - 1:
                for m in arr_mons:
                    m.on_arrive(pc, None)
            self.last_pc = pc
            self.seq = True
            if oc == O_AR:
                d = a[1] if a[0] == 1 else self._dest(a)
                x = val(b)
                y = val(c)
                if sub == 0: r = x + y
                elif sub == 1: r = x - y
                elif sub == 2: r = x * y
                elif sub == 3 or sub == 4:
                    sx, sy = self.sgn(x), self.sgn(y)
                    if sy == 0:
                        raise VMTrap(f'division by zero executed, pc={pc}')
                    r = sx // sy if sub == 3 else sx % sy
                elif sub == 5: r = x & y
                elif sub == 6: r = x | y
                elif sub == 7: r = x ^ y
                elif sub == 8: r = 0 if y >= self.bits else x << y
                else: r = self.sgn(x) >> min(y, self.bits)
                stw(d, r)
                self.pc = pc + 1
            elif oc == O_J:
                target = val(a)
                self.jump_sites.add(pc)
                self.choices.append((pc, target, len(self.journal), len(events), len(self.seenlog),
                                     tuple([m.state for m in self.monitors]) if have_mon else None))
                if len(self.choices) > self.max_choice_depth:
                    self.max_choice_depth = len(self.choices)
                self.pc = pc + 1
            elif oc == O_HALT:
                if not self._halt():
                    return
            elif oc == O_HC:
                x = val(a)
                y = val(b)
                if 1 < sub < 6:
                    x = self.sgn(x)
                    y = self.sgn(y)
                if sub == 0: cnd = x == y
                elif sub == 1: cnd = x != y
                elif sub == 2 or sub == 6: cnd = x < y
                elif sub == 3 or sub == 7: cnd = x > y
                elif sub == 4 or sub == 8: cnd = x <= y
                else: cnd = x >= y
                if cnd:
                    if not self._halt():
                        return
                else:
                    self.pc = pc + 1
            elif oc == O_LDO:
                base = val(b)
                addr = (base + val(c)) & mask
                size = 1 if sub & 1 else w
                if sub & 2:
                    if acc_mons:
                        for m in acc_mons: m.on_access('C', base, addr, size, False)
                    if addr + size > len(self.const):
                        raise VMTrap(f'const load out of range @{addr} pc={pc}')
                    v = int.from_bytes(self.const[addr:addr + size], 'little')
                else:
                    if acc_mons:
                        for m in acc_mons: m.on_access('S', base, addr, size, False)
                    if addr + size > len(self.mem):
                        raise VMTrap(f'state load out of range @{addr} pc={pc}')
                    v = int.from_bytes(self.mem[addr:addr + size], 'little')
                stw(a[1] if a[0] == 1 else self._dest(a), v)
                self.pc = pc + 1
            elif oc == O_STO:
                base = val(a)
                addr = (base + val(b)) & mask
                v = val(c)
                if sub:
                    if acc_mons:
                        for m in acc_mons: m.on_access('S', base, addr, 1, True)
                    self._stb(addr, v)
                else:
                    if acc_mons:
                        for m in acc_mons: m.on_access('S', base, addr, w, True)
                    stw(addr, v)
                self.pc = pc + 1
            elif oc == O_MOV:
                stw(a[1] if a[0] == 1 else self._dest(a), val(b))
                self.pc = pc + 1
            elif oc == O_LD:
                addr = val(b)
                size = 1 if sub & 1 else w
                if sub & 2:
                    if acc_mons:
                        for m in acc_mons: m.on_access('C', addr, addr, size, False)
                    if addr + size > len(self.const):
                        raise VMTrap(f'const load out of range @{addr} pc={pc}')
                    v = int.from_bytes(self.const[addr:addr + size], 'little')
                else:
                    if acc_mons:
                        for m in acc_mons: m.on_access('S', addr, addr, size, False)
                    if addr + size > len(self.mem):
                        raise VMTrap(f'state load out of range @{addr} pc={pc}')
                    v = int.from_bytes(self.mem[addr:addr + size], 'little')
                stw(a[1] if a[0] == 1 else self._dest(a), v)
                self.pc = pc + 1
            elif oc == O_ST:
                addr = val(a)
                v = val(b)
                if sub:
                    if acc_mons:
                        for m in acc_mons: m.on_access('S', addr, addr, 1, True)
                    self._stb(addr, v)
                else:
                    if acc_mons:
                        for m in acc_mons: m.on_access('S', addr, addr, w, True)
                    stw(addr, v)
                self.pc = pc + 1
            elif oc == O_YIELD:
                events.append(('out', val(a) & 0xFF))
                self.pc = pc + 1
            elif oc == O_FLAG:
                events.append(('flag', a))
                self.pc = pc + 1
            elif oc == O_SLEEP:
                events.append(('sleep', val(a)))
                self.pc = pc + 1
            else:
                raise VMTrap(f'undecodable instruction at pc={pc}')

    # --------------------------------------------------------- conveniences
    def output(self):
        return bytes(e[1] for e in self.events if e[0] == 'out')

    def flags(self):
        return [e[1] for e in self.events if e[0] == 'flag']

    def reports(self):
        return [e for e in self.events if e[0] == 'mon']


TERMINAL = ('win', 'error')
FAULT_FLAGS = ('stack_overflow', 'division_by_zero', 'out_of_bounds', 'nonlocal_preempt')


class Outcome:
    """Committed timeline of one run, normalised for oracles.

    stream: list of ('out', bytes) / ('flag', name) / ('sleep', ms) with
            adjacent output bytes merged, truncated at the terminal flag.
    klass:  'WIN' | 'ERROR:<kind>' | 'ERROR' | 'DIVERGE' | 'HALT' | 'TRAP' | 'TIMEOUT'
    after_terminal: events seen after the terminal flag other than the
            sleep of the terminal loop (M-END).
    """

    def __init__(self, vm):
        self.status = vm.status
        self.trap = vm.trap
        self.steps = vm.steps
        self.backtracks = vm.backtracks
        self.spec_halts = vm.spec_halts
        self.max_choice_depth = vm.max_choice_depth
        self.halt_pc = vm.halt_pc
        ev = [e for e in vm.events if e[0] != 'mon']
        self.reports = [e for e in vm.events if e[0] == 'mon']
        stream = []
        out = bytearray()
        flags = []
        term = None
        after = []
        for e in ev:
            if term is not None:
                if not (e[0] == 'sleep' and e[1] == 0x7f7f):
                    after.append(e)
                continue
            if e[0] == 'out':
                if stream and stream[-1][0] == 'out':
                    stream[-1] = ('out', stream[-1][1] + bytes([e[1]]))
                else:
                    stream.append(('out', bytes([e[1]])))
                out.append(e[1])
            else:
                stream.append(e)
                if e[0] == 'flag':
                    flags.append(e[1])
                    if e[1] in TERMINAL:
                        term = e[1]
        self.stream = stream
        self.out = bytes(out)
        self.flags = flags
        self.after_terminal = after
        if vm.status == 'halt':
            self.klass = 'HALT'
        elif vm.status == 'trap':
            self.klass = 'TRAP'
        elif vm.status == 'timeout':
            self.klass = 'TIMEOUT'
        elif term == 'win':
            self.klass = 'WIN'
        elif term == 'error':
            kinds = [f for f in flags if f in FAULT_FLAGS]
            self.klass = 'ERROR:' + kinds[-1] if kinds and len(flags) >= 2 and flags[-2] == kinds[-1] else 'ERROR'
        else:
            self.klass = 'DIVERGE'

    def brief(self):
        return {'klass': self.klass, 'out': self.out[:200].decode('latin-1'), 'flags': self.flags,
                'steps': self.steps, 'backtracks': self.backtracks,
                'reports': [list(r[1:]) for r in self.reports[:5]], 'trap': self.trap}


def run_lines(lines, args=(), max_steps=200_000, monitors=()):
    """Assemble and run.  Raises AsmError if the text is not in the dialect."""
    prog = assemble(lines, args)
    vm = VM(prog, max_steps, monitors)
    vm.run()
    return vm
