"""Compile a GenAST program with the real hidc, run it on the SVM under the
monitors, run RefInt, and compare committed timelines (M-DIFF and friends)."""
import traceback

from . import env
from .model import ast as A
from .model.refint import RefInt, Skip
from .svm.asm import assemble, AsmError
from .svm.vm import VM, Outcome
from .monitors.san import SanMonitor
from .monitors.bal import BalMonitor, FallMonitor

GENEROUS_STACK = 4000


class Run:
    """everything observed about one (source, options, args) execution"""
    __slots__ = ('kind', 'detail', 'outcome', 'lines', 'mon', 'vm')

    def __init__(self, kind, detail=None, outcome=None, lines=None, mon=None, vm=None):
        self.kind, self.detail, self.outcome, self.lines, self.mon, self.vm = kind, detail, outcome, lines, mon, vm


def innermost_hidc_frame(exc):
    tb = traceback.extract_tb(exc.__traceback__)
    for fr in reversed(tb):
        if '/hidc/' in fr.filename:
            return f'{fr.filename.split("/hidc/")[-1]}:{fr.name}'
    return tb[-1].name if tb else '?'


def compile_and_run(source, args=(), word=2, stack=GENEROUS_STACK, unchecked=False, lint=False,
                    max_steps=200_000, monitors=True):
    """kinds: ok | reject | internal | asm"""
    CompilerError, _ = env.compiler_error_types()
    try:
        lines = env.compile_src(source, word=word, stack=stack, unchecked=unchecked, lint=lint)
    except CompilerError as e:
        return Run('reject', f'{type(e).__name__}: {e}')
    except RecursionError:
        return Run('internal', 'RecursionError')
    except Exception as e:  # M-EXC
        return Run('internal', f'{type(e).__name__}: {e} @ {innermost_hidc_frame(e)}')
    return run_lines(lines, args, max_steps, monitors)


def run_lines(lines, args=(), max_steps=200_000, monitors=True):
    try:
        prog = assemble(lines, args)
    except AsmError as e:
        return Run('asm', str(e), lines=lines)
    mons = [SanMonitor(), BalMonitor(), FallMonitor()] if monitors else []
    vm = VM(prog, max_steps, mons)
    vm.run()
    return Run('ok', outcome=Outcome(vm), lines=lines, mon=mons, vm=vm)


def compare_streams(ref, out):
    """ref: RefOutcome, out: Outcome.  Returns None if equal else a message."""
    if out.klass in ('HALT', 'TRAP'):
        return f'VM {out.klass} (pc={out.halt_pc}, {out.trap}); model says {ref.klass}'
    if ref.stream != out.stream or ref.klass != out.klass:
        n = 0
        for a, b in zip(ref.stream, out.stream):
            if a != b:
                break
            n += 1
        ra = ref.stream[n] if n < len(ref.stream) else '<end>'
        oa = out.stream[n] if n < len(out.stream) else '<end>'
        return f'first difference at event {n}: model {ra!r} vs VM {oa!r}; model ends {ref.klass}, VM ends {out.klass}'
    return None


def model_run(prog, args, word, checked=True, **kw):
    """returns (RefOutcome or None, skip reason)"""
    kw.setdefault('stack_bytes', GENEROUS_STACK * word)
    try:
        return RefInt(prog, word=word, args=args, checked=checked, **kw).run(), None
    except Skip as s:
        return None, s.why
    except RecursionError:
        return None, 'model recursion'


def case_dict(source, args, word, stack, unchecked=False, **extra):
    d = {'source': source, 'args': list(args), 'word': word, 'stack': stack, 'unchecked': unchecked}
    d.update(extra)
    return d
