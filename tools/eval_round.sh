#!/bin/bash
# usage: tools/eval_round.sh <log file> <parallel jobs> seeded/<id>... ; evaluates each kept change with its property's own check (quick tier)
log=$1; par=$2; shift 2
printf '%s\n' "$@" | xargs -P "$par" -I{} bash -c 'd={}; p=$(basename $d); p=${p%%-*}; VERBOSE=1 selftest/eval_seeded_dir.sh $d $p 2>&1 | tr "\n" " "; echo' >> "$log"
