#!/usr/bin/env python3
"""usage: tools/mk_seeded_meta.py r2|r3|r4|r5|r6|r7|r8
Writes seeded/<id>-<round>m<n>/meta.json for the seeded changes of that round from the sub-agents' notes
(heading = the change, "Needs" paragraph = what it takes to manifest) and the evaluation results."""
import json, os, re, sys

ROOT = os.path.dirname(os.path.dirname(os.path.abspath(__file__)))
# missed by the quick tier of the property's own check when first evaluated (before the workloads were extended)
RND = sys.argv[1] if len(sys.argv) > 1 else 'r2'
FIRST_PASS_MISSED = set('''C01-r2m1 C01-r2m3 C02-r2m2 C03-r2m2 C03-r2m3 C04-r2m2 C07-r2m1 C09-r2m1 C09-r2m2 C09-r2m3 C10-r2m1 C10-r2m3
C12-r2m2 C13-r2m2 C14-r2m1 C14-r2m2 C14-r2m3 C15-r2m2 C16-r2m3 C17-r2m1 C17-r2m2
C01-r3m1 C01-r3m2 C02-r3m3 C03-r3m3 C04-r3m2 C07-r3m1 C08-r3m2 C09-r3m2 C09-r3m3 C13-r3m2 C13-r3m3 C14-r3m1 C14-r3m2 C14-r3m3
C15-r3m1 C15-r3m3 C16-r3m3 C17-r3m1
C02-r4m3 C04-r4m3 C05-r4m1 C05-r4m2 C05-r4m3 C06-r4m2 C07-r4m3 C09-r4m1 C09-r4m2 C09-r4m3 C10-r4m1 C10-r4m2 C12-r4m2 C14-r4m1
C15-r4m2 C15-r4m3 C16-r4m3 C17-r4m2 C18-r4m1
C03-r5m1 C06-r5m1 C06-r5m2 C07-r5m3 C08-r5m3 C09-r5m1 C09-r5m2 C11-r5m2 C13-r5m2 C14-r5m2 C14-r5m3 C15-r5m1 C15-r5m3 C16-r5m1 C18-r5m1
C01-r6m3 C04-r6m2 C04-r6m3 C05-r6m1 C05-r6m3 C07-r6m1 C07-r6m3 C08-r6m2 C08-r6m3 C09-r6m3 C12-r6m1 C14-r6m2 C14-r6m3 C15-r6m1 C15-r6m3 C16-r6m1 C16-r6m2 C16-r6m3
C17-r6m1 C17-r6m2 C18-r6m1 C18-r6m2 C18-r6m3
C02-r7m1 C04-r7m1 C05-r7m3 C06-r7m1 C06-r7m2 C06-r7m3 C07-r7m1 C07-r7m2 C07-r7m3 C08-r7m2 C08-r7m3 C09-r7m3 C11-r7m1 C11-r7m2 C12-r7m3 C13-r7m1 C13-r7m3
C14-r7m1 C15-r7m1 C15-r7m3 C16-r7m2 C17-r7m3 C18-r7m1 C18-r7m3
C03-r8m2 C04-r8m1 C07-r8m2 C08-r8m2 C09-r8m3 C10-r8m2 C10-r8m3 C11-r8m1 C14-r8m1 C14-r8m2 C15-r8m2 C17-r8m1 C18-r8m2 C18-r8m3
'''.split())
# not evaluated before the workloads were extended (evaluation harness interrupted): first-pass status unknown
FIRST_PASS_UNKNOWN = set('C10-r3m1 C10-r3m2 C10-r3m3 C12-r3m1 C12-r3m2'.split())
DETECTED_ELSEWHERE = {
    'C02-r7m1': {'C06 quick tier': 'VIOLATION (exit 1)', 'C11 quick tier': 'VIOLATION (exit 1)', 'C02': 'not applicable: the change makes an illegal program acceptable; C02 only judges the behaviour of legal programs'},
    'C07-r7m1': {'none': 'the documentation does not say what `<array variable> is T[]` yields; not decided by the property (see DESIGN.md 14.6)'},
    'C12-r7m3': {'none': 'white space and identifier characters beyond ASCII are outside the domain the C12 check claims (see its assumptions and DESIGN.md 14.6)'},
}       # name -> text, for changes reported by another property's check
NEEDS = re.compile(r'^\W*(what it )?needs', re.I)

for prop in [f'C{i:02d}' for i in range(1, 19)]:
    notes = open(f'{ROOT}/seeded/{prop}-{RND}-NOTES.md').read().split('\n')
    heads = [(i, l) for i, l in enumerate(notes) if re.match(r'## [mM][123]\b', l)]
    for j, (i, l) in enumerate(heads):
        m = re.match(r'## ([mM][123])\s*[-:\u2013\u2014]+\s*(.*)', l)
        mid, change = m.group(1).lower(), m.group(2).strip()
        end = heads[j + 1][0] if j + 1 < len(heads) else len(notes)
        sec = notes[i + 1:end]
        needs = ''
        for k, s in enumerate(sec):
            if NEEDS.search(s):
                para = []
                for t in sec[k:k + 8]:
                    if not t.strip() and para:
                        break
                    para.append(t.strip())
                needs = re.sub(r'\s+', ' ', ' '.join(para))
                needs = re.sub(r'^\W*(what it )?needs[^:*]*[:*]+\s*', '', needs, flags=re.I)[:600]
                break
        name = f'{prop}-{RND}{mid}'
        d = f'{ROOT}/seeded/{name}'
        if not os.path.isdir(d):
            continue
        meta = {
            'property': prop,
            'round': int(RND[1:]),
            'written_by': ('independent sub-agent given only the property text and a scratch worktree of /repo' if RND == 'r8' else
                           'independent sub-agent given only the property text, the list of earlier changes to avoid, and a scratch worktree of /repo'),
            'change': change,
            'needs_to_manifest': needs or f'see seeded/{prop}-{RND}-NOTES.md, section {mid}',
            'confirmed': {
                'pinned_tests_with_change': '45 passed',
                'demo_on_clean_tree': 'exit 0',
                'demo_with_change': 'exit 1',
                'how': f'selftest/eval_seeded_dir.sh seeded/{name} {prop} (fresh scratch worktree: applies patch.diff, runs pytest and demo.py both ways, runs the check with HID_REPO=<worktree>)',
            },
            'detected_by': DETECTED_ELSEWHERE.get(name) or {f'{prop} quick tier': 'VIOLATION (exit 1)'},
            'initially_missed_by_quick_tier': None if name in FIRST_PASS_UNKNOWN else name in FIRST_PASS_MISSED,
        }
        if os.path.exists(f'{d}/meta.json'):
            old = json.load(open(f'{d}/meta.json'))
            if 'maintenance' in old:
                meta['maintenance'] = old['maintenance']
        json.dump(meta, open(f'{d}/meta.json', 'w'), indent=1)
        print(name, '|', change[:70], '|', (needs or '-')[:60])
