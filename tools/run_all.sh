#!/bin/bash
# run every check's quick (or given) tier on /repo; print one line per check
tier=${1:-quick}
for p in C01 C02 C03 C04 C05 C06 C07 C08 C09 C10 C11 C12 C13 C14 C15 C16 C17 C18; do
  s=$(date +%s)
  out=$(/venv/bin/python -m hidverif run $p --tier $tier 2>&1); rc=$?
  e=$(( $(date +%s) - s ))
  echo "$p rc=$rc ${e}s $(echo "$out" | grep -c '^VIOLATION') violations $(echo "$out" | grep -c '^KNOWN-FINDING') known $(echo "$out" | grep '^INCONCLUSIVE' | head -1 | cut -c1-150)"
done
