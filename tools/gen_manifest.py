#!/usr/bin/env python3
"""Regenerate /verif/MANIFEST.json from the table below (single source of truth)."""
import json
import os

HERE = os.path.dirname(os.path.dirname(os.path.realpath(__file__)))
PY = '/venv/bin/python'

ISA = ('Trusted base: the reconstructed verification Sphinx VM (calibrated on the 52 upstream test_codegen.py '
       'expectations; div/mod floor like Python) and the assembler dialect accepted by it')
MODEL = 'the GenAST generator typing and the RefInt reference interpreter (my reading of README.rst and the upstream tests)'

CHECKS = {
    'C01': dict(
        engine='svm+model', technique='differential runtime monitoring: committed SVM event stream of real compiler output vs reference interpreter (M-DIFF) on generated programs',
        text='Exploration: held on every generated sequential program x args x word size {2,3,4,8} x generous/tight stack that '
             'was executed (hundreds per quick run, thousands per thorough run), plus the 40 sequential upstream expectations. '
             'Enumerated idiom grids (scoping, operand survival, value capture for every scalar type, narrowing, coinciding tables, fresh literals, entry-point signatures, const locals shadowing const globals) and the scale grids (1-257 locals, 1-65 parameters, 4-40 entry parameters, arrays of 7-1000 elements, 9-111 labels, nesting depth 3-10, 10-257 globals) run on every quick run, also at word sizes of 5, 6, 7, 12 and 16 bytes in rotation. '
             'Decided by observing executions of the real emitted assembly; says nothing about program shapes the generator cannot build.',
        note=ISA + '; ' + MODEL, ref='6 (C01), 3, 4'),
    'C02': dict(
        engine='svm+model', technique='differential runtime monitoring: committed SVM event stream vs replay-DFS reference interpreter (M-DIFF) on generated try-block histories; M-BAL at stop handlers',
        text='Exploration: held on every generated history of try/undo/stop blocks, preempts (try bodies and defeat functions), '
             '?? and protected returns that was executed (word sizes 2,3,4, checked and unchecked), plus the 12 time-travel upstream '
             'expectations. Enumerated grids: ?? operand kinds (int, bool, byte) x positions (values, conditions, first statement of a function), 9-34 try blocks in a row, preempt placement / return expressions, all ordered pairs of try blocks by kind and defeat source, try-in-loop exit routes. Bounded by the replay budget (3000 replays per run) and the program shapes of the generator.',
        note=ISA + '; ' + MODEL + '; source-level time-travel model of DESIGN.md 3.2', ref='6 (C02), 3.2'),
    'C03': dict(
        engine='svm', technique='runtime monitor M-HALT on the SVM: a halt executed with an empty choice stack (committed halt), traps, events after a terminal flag',
        text='Exploration: no committed halt on any executed run of the defeat-placement enumeration (24 constructs x 7 wrappers x 2 try kinds x '
             '4 exit routes x 3 following tries, 6 inputs), of random sequential/time-travel programs at word sizes 2,3,4 (checked, and unchecked '
             'when fault-free) and of examples/*.hid. Also exit-shape programs followed by a never-called defeat function, every library routine on empty/long operands, and the ?? grids on int/bool/byte operands in every position. No reference model is involved.',
        note=ISA, ref='6 (C03), 2.2'),
    'C15': dict(
        engine='svm', technique='build-vs-build differential monitoring on the SVM: checked and unchecked timelines of the same program; guard-site execution counter',
        text='Exploration: for every generated program/input/word size whose checked run carried no fault flag, the unchecked build produced the '
             'identical committed timeline and executed no guard site. A third of the pairs and all memory templates are compared again at the smallest stacks at which the checked build explores no fault on any timeline; a program whose checked build runs fault-free must have an unchecked build. No reference model is involved. The value-capture idioms (stores through a global index that the right-hand side changes) and the scale grids are compiled in both builds.',
        note=ISA, ref='6 (C15)'),
    'C18': dict(
        engine='svm+model', technique='metamorphic runtime monitoring: byte-identity of emitted assembly across processes/hash seeds; SVM timeline identity across stack sizes, word sizes and --lint',
        text='Exploration: byte-identical output for every (source, options) compiled twice in-process and under 6 hash seeds in fresh interpreters; '
             'identical timelines on a stack ladder above the first non-overflowing size and at word sizes 2,3,4,8 when the model saw no value leave '
             '16 bits; --lint rejected or left the code unchanged. Two of the fresh interpreters run under python -O and -OO; an enumerated lint grid (non-falling-through statement x dead statement x place). Array/table/nesting idioms run at every word size incl. 5, 6, 7, 12, 16 bytes; the stack sweep reaches the largest stack the compiler accepts (entry points with 4-40 parameters) and an overflow above a sufficient size is a violation; the CLI is compared with the library for -m 16..64 incl. 40, 48 and -s 0..16379.',
        note=ISA + '; the premise "values fit 16 bits" is decided by RefInt', ref='6 (C18)'),
    'C04': dict(
        engine='svm', technique='sanitizer-style runtime monitor M-SAN (shadow classification of every load/store against live ap/fp and allocated array extents) under a stack-size sweep; prefix-or-overflow outcome rule',
        text='Exploration: no M-SAN report, trap or silent deviation on any executed (program, args, word, stack) of the memory-stress templates and random '
             'memory/time-travel programs, swept over every stack size within 6 words of the smallest size that reproduces the generous-stack outcome '
             '(found by binary search) plus a ladder; constant array lengths at the boundaries of the size arithmetic of word sizes 2, 3, 4, 8; scale grids (up to 257 locals, 65 parameters, 1000 elements, depth 10) and idiom grids at word sizes 2-16 bytes. A clean sanitizer run is not memory safety: only accesses the workload reached are judged.',
        note=ISA + '; M-SAN entitlement rules of DESIGN.md section 4 (calibrated silent on 26k accesses of the upstream programs)', ref='6 (C04), 4'),
    'C05': dict(
        engine='svm+model', technique='differential runtime monitoring (M-DIFF vs reference interpreter that raises the same faults) on a boundary grid; M-END terminal-state monitor',
        text='Exploration with an exhaustively enumerated grid: every faulting operator x element type x storage class x access form with ~19 index values, '
             '60 dividend/divisor pairs and 18 VLA lengths at word sizes 2,3,4 produced exactly prefix + [flag kind, flag error] (or no fault) as the '
             'model predicts; literal indices, divisors (incl. literals that are zero only on the target: 2^bits, -2^bits, 3*2^bits) and lengths; return expressions calling defeat functions; returns inside taken preempt blocks; narrowing casts as indices; plus random hostile programs and time-travel programs (nonlocal_preempt).',
        note=ISA + '; ' + MODEL, ref='6 (C05)'),
    'C08': dict(
        engine='svm', technique='runtime invariant monitor M-BAL ((fp,ap) per activation at loop heads/exits, call returns, stop-handler restore), M-SAN use-after-release, peak-ap twin comparison',
        text='Exploration: no balance violation on any executed run of the scope-exit enumeration (8 array kinds x 11 exit routes x for/while x 5 nesting '
             'shapes x 4 try placements, n = 1,2,7 iterations; peak ap equal for n=3 and n=40) nor on random memory/time-travel programs, nor on the scale grids (nesting depth 3-10 x 4 exit routes, 9-34 try blocks, 9-111 loops, locals spread over nested blocks; both builds). Shapes include a try/stop next to calls of you-functions with their own try/stop.',
        note=ISA + '; observation points are compiler-emitted labels', ref='6 (C08), 4'),
    'C16': dict(
        engine='svm+model', technique='runtime monitor M-FALL (sequential pc crossing a function boundary) on the SVM + reference interpreter observing fall-off-the-end and dropped statements (M-DIFF)',
        text='Exploration: for every generated function body (all flavours, both return kinds) accepted by hidc, no run on inputs 0..5 (word sizes 2,3; checked and '
             'unchecked) crossed a function boundary sequentially, reached the end of a value-returning body in the model, or differed from the model. Includes the enumerated loop-exit grid (392 programs) and 56 return-path shapes (open ones must be rejected). Loop-exit shapes include exits of the outer loop before, between and after nested loops in bodies that cannot complete.',
        note=ISA + '; ' + MODEL, ref='6 (C16)'),
    'C06': dict(
        engine='model', technique='runtime observation of accept/reject of the real parser+typechecker on enumerated placements vs an independent context checker',
        text='Exploration with an exhaustively enumerated sub-space: every construct x expression position x <=1 expression wrapper inside every statement-wrapper '
             'path of depth <= 2 (quick) / 3 (thorough) in the three function flavours, plus random deeper paths; accept/reject equals the literal reading of the five clauses.',
        note='the independent context checker (60 lines, literal reading of the property statement); ?? nested in a ?? operand is not judged', ref='6 (C06)'),
    'C07': dict(
        engine='svm+model', technique='runtime observation of accept/reject + code generation on rule x position enumerations vs an independent implementation of the documented typing rules; overload tags observed on the SVM',
        text='Exploration with exhaustively enumerated rule tables: 60 providers x 12 target types x 8 positions, operator/cast/??/index operand typing, 125 single-rule '
             'ill-typing mutations, random overload sets whose selected overload is observed in the output of the compiled program. 43 return-path shapes; 3808 provider/position pairs under no-op spellings must get the same verdict. Providers include unary plus and neutral arithmetic on constants.',
        note=ISA + '; expected typing = my implementation of README "Types"', ref='6 (C07)'),
    'C11': dict(
        engine='model', technique='runtime comparison of the real parser\'s tree with an independent precedence-climbing parser and a minimal-parentheses printer (round trip)',
        text='Exhaustive over all ordered pairs and triples of the 16 binary operators with unary/is/postfix decorations and parenthesisations; random trees to depth 6 '
             'printed minimally and with redundant parentheses; parse(print_min(t)) == t. Chains of 10-150 operators of one level and of mixed levels (tree comparison) and 162 long chains compiled and run (values against the documented grouping).',
        note='expected grouping = README "Operators" table; left associativity; ?? and is not chainable', ref='6 (C11)'),
    'C12': dict(
        engine='model', technique='runtime comparison of hidc.lexer.lex output (kinds, values, spans) with generator-built token sequences under layout fuzz and with a hand-written reference tokenizer; end-to-end re-layout of programs',
        text='Exhaustive literal sets (ints of <=3 digits in 4 bases, all 256 \\xHH in strings and chars, every escape, \\u over all planes) + random token sequences '
             'with arbitrary layout, adjacency soups, and 5 re-layouts of generated programs whose instruction stream must not change. The same token sequences through SourceCode.from_file with 9 file endings.',
        note='reference tokenizer built from the property statement and README literal forms; ASCII identifiers/whitespace only', ref='6 (C12)'),
    'C09': dict(
        engine='svm', technique='runtime monitoring of printed operator results on the SVM against a 40-line table of operator semantics, operands supplied at run time (nothing folded)',
        text='Exhaustive over the stated grid: every binary operator x every ordered pair of grid values x 4 operand type combinations, bool equality, 19 unary/cast forms, '
             'in value / branch / !truth_is_defeat (try/stop and try/undo) / not / and-or / while positions at word sizes 2,3,4 (quick: 14-value grid, thorough: 32 values). Operands also held in globals, array elements and compile-time constants; literals on either side of every operator; truthiness of arrays (static and run-time length) and of strings of 0..1024 bytes; fault-free grids again under --unchecked. Run-time bools against the literals true/false with == and != on either side, as value, branch and defeat.',
        note=ISA + '; the semantics table (wrap, signed compare, zero-extension, truncation, truthiness, strict 0/1, floor division)', ref='6 (C09)'),
    'C10': dict(
        engine='svm', technique='runtime monitor M-EXC on exceptions escaping the public API and the command-line tool under hostile inputs; M-ASM on every successful compile; CLI exit/output-file contract',
        text='Exploration: thousands of random texts, token soups, mutations and every-prefix truncations of valid programs, ill-typed mutants, deep nesting <= 40, raw bytes '
             'through the CLI, and the full option matrix; every outcome was assembly that assembles or a CompilerError whose position lies in the source and renders. Plus the template and idiom corpora of all other checks, unusual-but-legal programs, and 15 byte sequences x 10 places in source files (API and CLI). A sequence shard compiles an ordered history of programs in one process (user overloads of library names, padded/plain/again, ill-formed ones in between): verdicts are stable and diagnostics stay inside their source.',
        note='the SVM assembler as acceptance test for emitted text; nesting bound 40', ref='6 (C10)'),
    'C13': dict(
        engine='svm', technique='runtime contract M-ESC on the real _escape_bytes (decode(result) == data) + bytes printed/indexed/measured on the SVM vs denoted bytes; M-ASM',
        text='Exhaustive for the 256 single bytes (12 usages each), the 1600 ordered pairs of a 40-value hostile set, all 256 char literals, constant arrays of every length 0..40 x 4 '
             'element types x 4 storage kinds; plus random strings of length 0..64 with random escape spellings; word sizes 2,3,4. Also tables whose rows coincide across element types, every character written raw in a source file (from_file path), and literals re-evaluated after the array they initialised was written.',
        note=ISA, ref='6 (C13)'),
    'C14': dict(
        engine='svm+model', technique='metamorphic runtime monitoring: SVM output of the constant form vs its run-time twin (literals routed through a mutable global); reference interpreter as tie-breaker; known-finding classifier by mechanism',
        text='Exploration: ~1700 (quick) random constant programs per run, each compared with its unfoldable twin at word sizes 2,3,4; rejections are legitimate only with a '
             'constant zero divisor. An enumerated `forms` shard covers constant indices, computed operands next to array[constant], constant array lengths and whole-program twins of the idiom grids. The recorded finding fold-nowrap (folding on unbounded integers) is reported as KNOWN-FINDING, any other disagreement is a violation. The forms shard also has run-time dividends over constant divisors that are zero only on the target, and const locals shadowing const globals (twin + model). The fold-nowrap classifier only claims folded operations and never a trap.',
        note=ISA + '; classifier: exact constant value of a sub-expression leaves the signed word range and the twin agrees with RefInt', ref='6 (C14), 10'),
    'C17': dict(
        engine='svm', technique='runtime monitoring of bytes printed by the write family on the SVM vs canonical text computed by the harness; M-SAN inside the routines; caller state re-printed; tight-stack sweep',
        text='Exhaustive for all 65536 16-bit integers, all 256 bytes, both bools, byte arrays/strings of every length 0..64 in 6 storage forms; boundary (+-40 around every power of '
             'ten and two) and random values at 24/32/64 bits; caller scalars/arrays around the call at generous and exactly-sufficient stacks. Compile-time constant arguments (also beyond the word); the routines called from inside try bodies that are undone, committed and stopped. Two order programs (a deeper write(int) in an earlier function / earlier in the same function, then an exactly fitting array) are swept around the smallest sufficient stack.',
        note=ISA, ref='6 (C17)'),
}

NOT_YET = {}


def main():
    props = [json.loads(l) for l in open(os.path.join(HERE, 'properties.jsonl'))]
    checks = []
    na = []
    for p in props:
        pid = p['id']
        c = CHECKS.get(pid)
        if c is None:
            na.append({'property_id': pid, 'reason': NOT_YET.get(pid, 'check not built yet in this session (work in progress; see DESIGN.md section 6)')})
            continue
        checks.append({
            'property_id': pid,
            'quick_cmd': f'{PY} -m hidverif run {pid} --tier quick',
            'thorough_cmd': f'{PY} -m hidverif run {pid} --tier thorough',
            'evidence_file': f'evidence/{pid}.json',
            'replay_cmd_template': f'{PY} -m hidverif replay {{path}}',
            'engine': c['engine'],
            'level_claimed': {'category': c.get('category', 'exploration'), 'text': c['text'], 'design_ref': 'DESIGN.md section ' + c['ref']},
            'level_note': c['note'],
            'technique': c['technique'],
        })
    man = {
        'version': 1,
        'setup_cmd': f'{PY} -m hidverif selfcheck',
        'hooks': {
            'guard': 'HIDC_VERIF',
            'enable': 'no source hooks: every observation point is the public API, the emitted text or the SVM; contracts are attached from the harness at run time',
            'baseline_off_cmd': 'cd /repo && /venv/bin/python -m pytest -ra -q -p no:cacheprovider --timeout=900 --continue-on-collection-errors',
            'source_commits': [],
            'add_only': True,
        },
        'engines': [
            {'name': 'svm', 'path': 'hidverif/svm', 'kind_free_text': 'verification Sphinx VM: strict assembler + DFS/undo-journal Turing-jump executor + monitor bus (M-SAN, M-BAL, M-FALL, M-HALT, M-END)',
             'serves_properties': [k for k, v in CHECKS.items() if 'svm' in v['engine']]},
            {'name': 'model', 'path': 'hidverif/model', 'kind_free_text': 'GenAST program model, renderer, RefInt reference interpreter (replay-DFS time travel), front-end reference models',
             'serves_properties': [k for k, v in CHECKS.items() if 'model' in v['engine']]},
        ],
        'checks': checks,
        'not_applicable': na,
        'notes': 'Technique family: runtime monitoring. All checks: cwd=/verif, exit 0 held / 1 violation / 2 inconclusive; VERIF_SEED and VERIF_TIER honoured.',
    }
    with open(os.path.join(HERE, 'MANIFEST.json'), 'w') as f:
        json.dump(man, f, indent=1)
        f.write('\n')


if __name__ == '__main__':
    main()
