#!/usr/bin/env python3
"""Regenerate /verif/MANIFEST.json from the table below (single source of truth)."""
import json
import os

HERE = os.path.dirname(os.path.dirname(os.path.realpath(__file__)))
PY = '/venv/bin/python'

ISA = ('Trusted base: the reconstructed verification Sphinx VM (calibrated on the 52 upstream test_codegen.py '
       'expectations; div/mod floor like Python) and the assembler dialect accepted by it')
MODEL = 'the GenAST generator typing and the RefInt reference interpreter (my reading of README.rst and the upstream tests)'

CHECKS = {
    'C01': dict(
        engine='svm+model', technique='differential runtime monitoring: committed SVM event stream of real compiler output vs reference interpreter (M-DIFF) on generated programs',
        text='Exploration: held on every generated sequential program x args x word size {2,3,4,8} x generous/tight stack that '
             'was executed (hundreds per quick run, thousands per thorough run), plus the 40 sequential upstream expectations. '
             'Decided by observing executions of the real emitted assembly; says nothing about program shapes the generator cannot build.',
        note=ISA + '; ' + MODEL, ref='6 (C01), 3, 4'),
}

NOT_YET = {}


def main():
    props = [json.loads(l) for l in open(os.path.join(HERE, 'properties.jsonl'))]
    checks = []
    na = []
    for p in props:
        pid = p['id']
        c = CHECKS.get(pid)
        if c is None:
            na.append({'property_id': pid, 'reason': NOT_YET.get(pid, 'check not built yet in this session (work in progress; see DESIGN.md section 6)')})
            continue
        checks.append({
            'property_id': pid,
            'quick_cmd': f'{PY} -m hidverif run {pid} --tier quick',
            'thorough_cmd': f'{PY} -m hidverif run {pid} --tier thorough',
            'evidence_file': f'evidence/{pid}.json',
            'replay_cmd_template': f'{PY} -m hidverif replay {{path}}',
            'engine': c['engine'],
            'level_claimed': {'category': c.get('category', 'exploration'), 'text': c['text'], 'design_ref': 'DESIGN.md section ' + c['ref']},
            'level_note': c['note'],
            'technique': c['technique'],
        })
    man = {
        'version': 1,
        'setup_cmd': f'{PY} -m hidverif selfcheck',
        'hooks': {
            'guard': 'HIDC_VERIF',
            'enable': 'no source hooks: every observation point is the public API, the emitted text or the SVM; contracts are attached from the harness at run time',
            'baseline_off_cmd': 'cd /repo && /venv/bin/python -m pytest -ra -q -p no:cacheprovider --timeout=900 --continue-on-collection-errors',
            'source_commits': [],
            'add_only': True,
        },
        'engines': [
            {'name': 'svm', 'path': 'hidverif/svm', 'kind_free_text': 'verification Sphinx VM: strict assembler + DFS/undo-journal Turing-jump executor + monitor bus (M-SAN, M-BAL, M-FALL, M-HALT, M-END)',
             'serves_properties': [k for k, v in CHECKS.items() if 'svm' in v['engine']]},
            {'name': 'model', 'path': 'hidverif/model', 'kind_free_text': 'GenAST program model, renderer, RefInt reference interpreter (replay-DFS time travel), front-end reference models',
             'serves_properties': [k for k, v in CHECKS.items() if 'model' in v['engine']]},
        ],
        'checks': checks,
        'not_applicable': na,
        'notes': 'Technique family: runtime monitoring. All checks: cwd=/verif, exit 0 held / 1 violation / 2 inconclusive; VERIF_SEED and VERIF_TIER honoured.',
    }
    with open(os.path.join(HERE, 'MANIFEST.json'), 'w') as f:
        json.dump(man, f, indent=1)
        f.write('\n')


if __name__ == '__main__':
    main()
