#!/bin/bash
# usage: tools/collect_seeded.sh <round tag, e.g. r3> <property id>...
# copies a sub-agent's deliverables from its scratch worktree /tmp/seed<N>-<id>/SEEDED into /verif/seeded/
set -u
tag=$1; shift
n=${tag#r}
for p in "$@"; do
  src=/tmp/seed$n-$p/SEEDED
  [ -f $src/NOTES.md ] && cp $src/NOTES.md /verif/seeded/$p-$tag-NOTES.md
  for m in m1 m2 m3; do
    [ -s $src/$m.diff ] || continue
    d=/verif/seeded/$p-$tag$m
    mkdir -p $d
    cp $src/$m.diff $d/patch.diff
    cp $src/${m}_demo.py $d/demo.py
    cp $src/${m}_demo.py $d/
    cp $src/${m}_program*.hid $d/ 2>/dev/null
    echo "collected $d"
  done
done
