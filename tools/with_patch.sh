#!/bin/bash
# usage: tools/with_patch.sh <patch file> <command...>   - development helper: run a command with HID_REPO pointing at a patched scratch worktree
patch=$(realpath "$1"); shift
wt=$(mktemp -d /tmp/hidtry-XXXXXX); out=$(mktemp -d /tmp/hidtry-out-XXXXXX)
trap 'git -C /repo worktree remove --force "$wt" >/dev/null 2>&1; rm -rf "$wt" "$out"' EXIT
git -C /repo worktree add --detach "$wt" HEAD >/dev/null 2>&1
git -C "$wt" apply "$patch" || exit 3
cd /verif && HID_REPO="$wt" HIDVERIF_OUT="$out" PYTHONPATH=/verif VERIF_SEED=${VERIF_SEED:-0} "$@"
