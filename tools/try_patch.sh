#!/bin/bash
# usage: tools/try_patch.sh <patch file> <check id> [tier]   - development helper: run one check against a patched scratch worktree, full tail of output
patch=$(realpath "$1"); c=$2; tier=${3:-quick}
wt=$(mktemp -d /tmp/hidtry-XXXXXX); out=$(mktemp -d /tmp/hidtry-out-XXXXXX)
trap 'git -C /repo worktree remove --force "$wt" >/dev/null 2>&1; rm -rf "$wt" "$out"' EXIT
git -C /repo worktree add --detach "$wt" HEAD >/dev/null 2>&1
git -C "$wt" apply "$patch" || exit 3
cd /verif && HID_REPO="$wt" HIDVERIF_OUT="$out" VERIF_SEED=${VERIF_SEED:-0} /venv/bin/python -m hidverif run "$c" --tier $tier 2>&1 | grep -v "^  counters" | tail -${LINES_:-12} | cut -c1-600
