"""dev: which lines of hidc does the combined workload reach? (sys.monitoring, first-hit LINE events)"""
import sys, os, collections, dis
sys.path.insert(0, '/verif')
from hidverif import env
hit = collections.defaultdict(set)
mon = sys.monitoring
TOOL = 3
mon.use_tool_id(TOOL, 'hidcov')
def line(code, ln):
    if '/hidc/' in code.co_filename:
        hit[code.co_filename].add(ln)
    return mon.DISABLE
mon.register_callback(TOOL, mon.events.LINE, line)
mon.set_events(TOOL, mon.events.LINE)
env.load()
from hidverif import diff
from hidverif.model import ast as A
from hidverif.gen.progs import ProgGen
from hidverif.gen.timegen import TimeGen
from hidverif.gen.exits import ExitGen
from hidverif.gen import placement, memprogs, scopes, faultgrid, typing as T, contexts
n = 0
def comp(src, **kw):
    global n
    n += 1
    for unchecked in (False, True):
        try: env.compile_src(src, unchecked=unchecked, **kw)
        except Exception: pass
for s in range(150):
    comp(A.render(ProgGen(s, 'sequential').program()[0]))
    comp(A.render(ProgGen(s, 'memory').program()[0]), word=3)
    comp(A.render(TimeGen(s).program()[0]))
    comp(A.render(ExitGen(s).program()[0]))
for i, (t, src) in enumerate(placement.programs()):
    if i % 20 == 0: comp(src)
for t, src in placement.illegal_programs(): comp(src)
for t, src, a in memprogs.cases(0, 0): comp(src)
for i, (t, src, ab) in enumerate(scopes.programs()):
    if i % 30 == 0: comp(src)
for f in (faultgrid.index_programs(), faultgrid.division_programs(), faultgrid.order_programs(), faultgrid.vla_programs(), faultgrid.nonlocal_programs()):
    for item in f: comp(A.render(item[1]))
for t, src in T.mutation_cases(): comp(src)
for i, (t, src, e) in enumerate(T.positive_and_negative_coercions()):
    if src and i % 7 == 0: comp(src)
for i, (t, src, e) in enumerate(T.operator_cases()):
    if src and i % 7 == 0: comp(src)
for fn in os.listdir('/repo/examples'):
    comp(open('/repo/examples/' + fn).read())
from hidverif.checks import c09, c13, c17
comp(c09.unary_program()); comp(c09.binary_program(c09.ARITH, 'byte', 'int', 'value')); comp(c09.binary_program(c09.CMP, 'int', 'byte', 'tid_stop'))
comp(c17.CALLER_PROG); comp(c17.INT_PROG)
mon.set_events(TOOL, 0)
print('programs compiled:', n)
for fn in sorted(hit):
    code_lines = set()
    src = open(fn).read()
    def walk(co):
        for _, _, ln in co.co_lines():
            if ln: code_lines.add(ln)
        for c in co.co_consts:
            if hasattr(c, 'co_lines'): walk(c)
    walk(compile(src, fn, 'exec'))
    missed = sorted(code_lines - hit[fn])
    # compress ranges
    rng = []
    for ln in missed:
        if rng and ln == rng[-1][1] + 1: rng[-1][1] = ln
        else: rng.append([ln, ln])
    short = fn.split('/hidc/')[1]
    print(f'{short}: {len(hit[fn])}/{len(code_lines)} lines hit; missed:', ' '.join(f'{a}-{b}' if a != b else str(a) for a, b in rng)[:900])
