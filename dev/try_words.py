"""development helper: idiom + scale samples at unusual word sizes"""
import sys, collections
from hidverif import diff
from hidverif.gen import idioms, scale
from hidverif.model import ast as A
words = [int(x) for x in sys.argv[1].split(',')]
cnt = collections.Counter()
items = []
for gen, argsets in ((idioms.narrowing_programs, idioms.NARROW_ARGS), (idioms.bitvector_programs, idioms.BITVECTOR_ARGS), (idioms.table_programs, idioms.TABLE_ARGS),
                     (scale.long_array_programs, scale.ARRAY_ARGS), (scale.deep_nesting_programs, scale.DEPTH_ARGS), (idioms.capture_programs, idioms.CAPTURE_ARGS)):
    for k, (tag, prog) in enumerate(gen()):
        if k % 7 == 0:
            items.append((tag, prog, argsets[0]))
for tag, prog, args in items:
    src = A.render(prog)
    for word in words:
        st = 30 if word == 1 else 4000
        ref, why = diff.model_run(prog, args, word, stack_bytes=st * word)
        run = diff.compile_and_run(src, args, word=word, stack=st, max_steps=2_000_000)
        if run.kind != 'ok':
            print(tag, word, run.kind, run.detail); cnt[f'{word}:bad'] += 1; continue
        if ref is None:
            cnt[f'{word}:skip'] += 1; continue
        msg = diff.compare_streams(ref, run.outcome)
        if msg or run.outcome.reports:
            print(tag, word, msg, run.outcome.reports[:1]); cnt[f'{word}:diff'] += 1
        else:
            cnt[f'{word}:agree'] += 1
print(dict(cnt))
