import sys, json
sys.path.insert(0,'/verif')
from hidverif import env, diff
env.load()
d=json.load(open(sys.argv[1])); c=d['case']
lines = env.compile_src(c['source'], word=c['word'], stack=c['stack'], unchecked=c.get('unchecked', False))
r = diff.run_lines(lines, c['args'], 400000)
print(r.outcome.brief())
ln = int(sys.argv[2]) if len(sys.argv)>2 else r.outcome.reports[0][4]
# find function start
i = ln-1
while i>0 and not lines[i].startswith(b'; Function'): i-=1
print(b'\n'.join(lines[i:i+12]).decode('latin-1'))
print('...')
print(b'\n'.join(lines[max(0,ln-40):ln+8]).decode('latin-1'))
