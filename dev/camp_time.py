import sys, collections, time, traceback
sys.path.insert(0, '/verif')
from hidverif import env, diff
from hidverif.model import ast as A
from hidverif.gen.timegen import TimeGen
env.load()
def one(seed, word=2, unchecked=False):
    prog, args = TimeGen(seed).program()
    src = A.render(prog)
    ref, why = diff.model_run(prog, args, word, checked=not unchecked)
    run = diff.compile_and_run(src, args, word=word, stack=4000, unchecked=unchecked, max_steps=2_000_000)
    if run.kind != 'ok':
        return run.kind, src, args, run.detail, 0
    o = run.outcome
    rp = ref.stats.get('replays', 0) if ref else 0
    if o.klass == 'TIMEOUT': return 'vm-timeout', src, args, None, rp
    if o.reports: return 'monitor', src, args, o.reports[:3], rp
    if ref is None: return 'skip:' + why[:40], src, args, None, rp
    msg = diff.compare_streams(ref, o)
    if msg: return 'diff', src, args, (msg, ref.brief(), o.brief()), rp
    return 'ok:' + ref.klass, src, args, None, rp
if __name__ == '__main__':
    lo, hi = int(sys.argv[1]), int(sys.argv[2]); word = int(sys.argv[3]) if len(sys.argv) > 3 else 2
    unchecked = len(sys.argv) > 4
    cnt = collections.Counter(); shown = collections.Counter(); t = time.time(); bt = collections.Counter()
    for seed in range(lo, hi):
        try: k, src, args, info, rp = one(seed, word, unchecked)
        except Exception: k, src, args, info, rp = 'harness-exc', '', [], traceback.format_exc()[-1500:], 0
        cnt[k] += 1; bt['replays>1'] += rp > 1; bt['replays>5'] += rp > 5; bt['replays>50'] += rp > 50
        if not k.startswith(('ok', 'skip')) and shown[k] < 2:
            shown[k] += 1
            print('=' * 30, k, 'seed', seed, 'args', args); print(info); print(src[:3500])
    print(dict(cnt), dict(bt), round(time.time() - t, 1), 's')
