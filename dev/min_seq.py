import sys
sys.path.insert(0, '/verif')
from hidverif import env, diff
from hidverif.model import ast as A
from hidverif.gen.progs import ProgGen
from hidverif.minimize import minimize
env.load()
seed, word, profile = int(sys.argv[1]), int(sys.argv[2]), sys.argv[3]
opaque = len(sys.argv) > 4
prog, args = ProgGen(seed, profile).program()
def pred(p):
    src = A.render(p, opaque=opaque)
    ref, why = diff.model_run(p, args, word)
    if ref is None: return False
    run = diff.compile_and_run(src, args, word=word, stack=4000, max_steps=3_000_000)
    if run.kind != 'ok': return False
    return diff.compare_streams(ref, run.outcome) is not None
assert pred(prog)
m = minimize(prog, pred, 1500)
src = A.render(m, opaque=opaque)
print(src)
ref, _ = diff.model_run(m, args, word)
run = diff.compile_and_run(src, args, word=word, stack=4000)
print(args, diff.compare_streams(ref, run.outcome))
print(ref.brief()); print(run.outcome.brief())
