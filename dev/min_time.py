import sys
sys.path.insert(0, '/verif')
from hidverif import env, diff
from hidverif.model import ast as A
from hidverif.gen.timegen import TimeGen
from hidverif.minimize import minimize
env.load()
seed, word = int(sys.argv[1]), int(sys.argv[2])
unchecked = len(sys.argv) > 3
prog, args = TimeGen(seed).program()
def pred(p):
    src = A.render(p)
    ref, why = diff.model_run(p, args, word, checked=not unchecked)
    if ref is None: return False
    run = diff.compile_and_run(src, args, word=word, stack=4000, unchecked=unchecked, max_steps=2_000_000)
    if run.kind != 'ok': return False
    return diff.compare_streams(ref, run.outcome) is not None
assert pred(prog)
m = minimize(prog, pred, 2500)
src = A.render(m)
print(src)
ref, _ = diff.model_run(m, args, word, checked=not unchecked)
run = diff.compile_and_run(src, args, word=word, stack=4000, unchecked=unchecked)
print(args, diff.compare_streams(ref, run.outcome))
print(ref.brief()); print(run.outcome.brief())
