"""dev campaign: sequential generator vs compiler"""
import sys, collections, time, traceback
sys.path.insert(0, '/verif')
from hidverif import env, diff
from hidverif.model import ast as A
from hidverif.gen.progs import ProgGen
env.load()
def one(seed, word=2, profile='sequential', opaque=False, verbose=False):
    g = ProgGen(seed, profile)
    prog, args = g.program()
    src = A.render(prog, opaque=opaque)
    ref, why = diff.model_run(prog, args, word)
    run = diff.compile_and_run(src, args, word=word, stack=4000, max_steps=3_000_000)
    if run.kind != 'ok':
        return run.kind, src, args, run.detail
    o = run.outcome
    if o.klass == 'TIMEOUT': return 'vm-timeout', src, args, None
    if o.reports: return 'monitor', src, args, o.reports[:3]
    if ref is None: return 'skip:' + why[:40], src, args, None
    msg = diff.compare_streams(ref, o)
    if msg: return 'diff', src, args, (msg, ref.brief(), o.brief())
    return 'ok:' + ref.klass, src, args, None
if __name__ == '__main__':
    lo, hi = int(sys.argv[1]), int(sys.argv[2]); word = int(sys.argv[3]) if len(sys.argv) > 3 else 2
    profile = sys.argv[4] if len(sys.argv) > 4 else 'sequential'
    opaque = len(sys.argv) > 5
    cnt = collections.Counter(); shown = collections.Counter(); t = time.time()
    for seed in range(lo, hi):
        try: k, src, args, info = one(seed, word, profile, opaque)
        except Exception: k, src, args, info = 'harness-exc', '', [], traceback.format_exc()[-1500:]
        cnt[k] += 1
        if not k.startswith(('ok', 'skip')) and shown[k] < 3:
            shown[k] += 1
            print('=' * 30, k, 'seed', seed, 'args', args); print(info); print(src[:2500])
    print(dict(cnt), round(time.time() - t, 1), 's')
