"""development helper: run the scale families once (model vs VM) and print disagreements"""
import sys, time, collections
from hidverif import diff, env
from hidverif.gen import scale
from hidverif.model import ast as A
fams = scale.all_families() + ((scale.many_tries_programs, scale.TRIES_ARGS),)
only = sys.argv[1] if len(sys.argv) > 1 else None
cnt = collections.Counter()
t0 = time.time()
for gen, argsets in fams:
    if only and only not in gen.__name__:
        continue
    for tag, prog in gen():
        src = A.render(prog)
        for args in argsets:
            for word in (2, 8):
                for unchecked in (False, True):
                  ref, why = diff.model_run(prog, args, word, checked=not unchecked)
                  run = diff.compile_and_run(src, args, word=word, unchecked=unchecked, max_steps=3_000_000)
                  if run.kind != 'ok':
                    print(tag, args, word, run.kind, run.detail); cnt['bad'] += 1; break
                  if ref is None:
                    print(tag, 'model skip', why); cnt['skip'] += 1; continue
                  msg = diff.compare_streams(ref, run.outcome)
                  reps = run.outcome.reports
                  if msg or reps:
                    print(tag, args, word, unchecked, msg, reps[:2]); cnt['diff'] += 1
                    if '-v' in sys.argv: print(src)
                  else:
                    cnt['agree_' + ref.klass] += 1
                  cnt['steps'] += run.outcome.steps
    print(gen.__name__, dict(cnt), round(time.time() - t0, 1), flush=True)
